package c18

import (
	"fmt"
	"sort"
	"strings"
)

// Section is one double loop of the generated program: every (row, col) pair prints one line with
// the listed operations evaluated on the pair (or "E" when an Elk error was thrown, "S" when the
// pair's kind combination is skipped because it made the VM panic in a previous pass).
type Section struct {
	Name string
	Inst string   // relation instance the cells go to: call | dyn | typed
	Rows []int    // item ids
	Cols []int    // item ids
	Ops  []string // eq lax heq lt le gt ge cmp
}

var opExpr = map[string]string{
	"eq": "a == b", "lax": "a =~ b", "heq": "a.hash == b.hash",
	"lt": "a < b", "le": "a <= b", "gt": "a > b", "ge": "a >= b", "cmp": "a <=> b",
}

type Program struct {
	Src      string
	Sections []*Section
}

// SkipKey identifies the kind combination skipped inside a section.
func SkipKey(sec string, a, b *Item) string {
	return fmt.Sprintf("%s|%d", sec, skipCode(a, b))
}

func clsIdx(it *Item) int {
	if it.Inline {
		return 50
	}
	return KindIdx(it.Kind)
}

func skipCode(a, b *Item) int { return KindIdx(a.Kind)*100 + clsIdx(b) }

func tupleLit(items []*Item) string {
	var l []string
	for _, it := range items {
		l = append(l, it.Lit)
	}
	return "%[" + strings.Join(l, ", ") + "]"
}

func idxLit(items []*Item, f func(*Item) int) string {
	var l []string
	for _, it := range items {
		l = append(l, fmt.Sprint(f(it)))
	}
	return "%[" + strings.Join(l, ", ") + "]"
}

func sameItems(a, b []*Item) bool {
	if len(a) != len(b) {
		return false
	}
	for i := range a {
		if a[i] != b[i] {
			return false
		}
	}
	return true
}

func ids(items []*Item) []int {
	var l []int
	for _, it := range items {
		l = append(l, it.ID)
	}
	return l
}

// Emit builds the Elk program for the pool. skip: SkipKey -> true. onlyValues: just build the
// tuple and return it (pass 0).
func Emit(pool []*Item, skip map[string]bool, onlyValues bool, typedFloatOrder bool) *Program {
	var sb strings.Builder
	p := &Program{}
	sb.WriteString("def o(v: any) then println \"#{v}\"\ndef t(s: String) then println s\n")
	// a run-time -0.0: the compiler turns a folded -0.0 element into FLOAT_0 / merges it with 0.0
	sb.WriteString("def nz(x: Float): Float then x * -1.0\n")
	fmt.Fprintf(&sb, "var all: ArrayTuple[Hashable] = %s\n", tupleLit(pool))
	if onlyValues {
		sb.WriteString("all\n")
		p.Src = sb.String()
		return p
	}
	decl := 0
	section := func(name, inst string, rows, cols []*Item, rowType, colType string, ops []string) {
		if len(rows) == 0 || len(cols) == 0 || len(ops) == 0 {
			return
		}
		decl++
		r, c := fmt.Sprintf("r%d", decl), fmt.Sprintf("c%d", decl)
		fmt.Fprintf(&sb, "var %s: ArrayTuple[%s] = %s\n", r, rowType, tupleLit(rows))
		if sameItems(rows, cols) && rowType == colType {
			// the same tuple on both sides: the pair (i, i) is the SAME object
			fmt.Fprintf(&sb, "var %s: ArrayTuple[%s] = %s\n", c, colType, r)
		} else {
			fmt.Fprintf(&sb, "var %s: ArrayTuple[%s] = %s\n", c, colType, tupleLit(cols))
		}
		fmt.Fprintf(&sb, "var %sk: ArrayTuple[Int] = %s\n", r, idxLit(rows, func(it *Item) int { return KindIdx(it.Kind) }))
		fmt.Fprintf(&sb, "var %sk: ArrayTuple[Int] = %s\n", c, idxLit(cols, clsIdx))
		var codes []string
		for k := range skip {
			if strings.HasPrefix(k, name+"|") {
				codes = append(codes, k[len(name)+1:])
			}
		}
		sort.Strings(codes)
		codes = append([]string{"-1"}, codes...)
		fmt.Fprintf(&sb, "var s%d: HashSet[Int] = ^[%s]\n", decl, strings.Join(codes, ", "))
		var ex []string
		for _, op := range ops {
			ex = append(ex, opExpr[op])
		}
		fmt.Fprintf(&sb, "t(\"@S %s\")\n", name)
		fmt.Fprintf(&sb, "fornum i := 0; i < %s.length; i = i + 1\n  a := %s[i]\n  fornum j := 0; j < %s.length; j = j + 1\n    b := %s[j]\n", r, r, c, c)
		fmt.Fprintf(&sb, "    if s%d.contains(%sk[i] * 100 + %sk[j])\n      t(\"S\")\n    else\n      do\n        o(%%[%s])\n      catch e\n        t(\"E\")\n      end\n    end\n  end\nend\n", decl, r, c, strings.Join(ex, ", "))
		p.Sections = append(p.Sections, &Section{Name: name, Inst: inst, Rows: ids(rows), Cols: ids(cols), Ops: ops})
	}

	var nums, coe []*Item
	byKind := map[string][]*Item{}
	kindsPresent := map[string]bool{}
	for _, it := range pool {
		if it.Num() {
			nums = append(nums, it)
			byKind[it.Kind] = append(byKind[it.Kind], it)
			kindsPresent[it.Kind] = true
			if Coercible[it.Kind] {
				coe = append(coe, it)
			}
		}
	}
	var unionAll []string
	for _, k := range NumKinds {
		if kindsPresent[k] {
			unionAll = append(unionAll, k)
		}
	}
	// method-call path (receiver typed as the interface Hashable): == and hash on every pair
	section("ALL", "call", pool, pool, "Hashable", "Hashable", []string{"eq", "heq"})
	// generic opcodes (union-typed operands)
	u := strings.Join(unionAll, " | ")
	section("NUM", "dyn", nums, nums, u, u, []string{"eq", "lax", "heq"})
	section("COE", "dyn", coe, coe, "Int | Float | BigFloat", "Int | Float | BigFloat", []string{"lt", "le", "gt", "ge", "cmp"})
	// statically typed operands (type-specialised opcodes where the compiler has them)
	for _, k1 := range NumKinds {
		for _, k2 := range NumKinds {
			if !kindsPresent[k1] || !kindsPresent[k2] {
				continue
			}
			if !(k1 == k2 || (Coercible[k1] && Coercible[k2])) {
				continue
			}
			ops := []string{"lt", "le", "gt", "ge", "cmp", "lax"}
			if k1 == "Float" && !typedFloatOrder {
				// LESS_FLOAT / LESS_EQUAL_FLOAT read the Float operand as an Int and typed Float `==`
				// is compiled to EQUAL_INT (crashes the process): recorded under C08; excluded here
				ops = []string{"gt", "ge", "cmp", "lax"}
			} else if k1 == k2 {
				ops = append(ops, "eq")
			}
			section("TYP_"+k1+"_"+k2, "typed", byKind[k1], byKind[k2], k1, k2, ops)
		}
	}
	sb.WriteString("all\n")
	p.Src = sb.String()
	return p
}
