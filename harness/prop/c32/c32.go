// Package c32: uncaught errors report the active call chain with correct lines. The ElkCore machine
// carries the function name and the current line of every active call frame; at a throw it records
// the chain, outermost first. Programs are call chains over methods, closures, async methods and
// generators with varying amounts of filler (so that line tables differ), an error thrown at the
// innermost level propagates out of the program, and the real VM's stack trace is compared frame by
// frame with the predicted one.
package c32

import (
	"fmt"
	"strings"
	"time"

	"elkverif/internal/core"
	. "elkverif/internal/elkcore"
	"elkverif/internal/elkrun"
)

func init() {
	core.Register(&core.Check{ID: "C32", Level: "model_checking", Run: run})
}

var kinds = []string{"m", "c", "a", "g"} // method, closure, async, generator

type builder struct {
	defs  map[string]M
	n     int
	fill  func() int
	throw int // depth at which the error is thrown (len(chain) = innermost)
}

func (b *builder) filler(prefix string) L {
	var out L
	for i, k := 0, b.fill(); i < k; i++ {
		b.n++
		out = append(out, Let(fmt.Sprintf("%s%d", prefix, b.n), "Int", Int(b.n)))
	}
	return out
}

// body of level i of the chain (the statements that call level i+1 or throw), returns the block
func (b *builder) level(chain []string, i int) L {
	if i == len(chain) {
		return B(b.filler("z"), Throw(Sym(1)), Return(Int(0)))
	}
	name := fmt.Sprintf("f%d", i+1)
	inner := b.level(chain, i+1)
	r := fmt.Sprintf("r%d", i+1)
	switch chain[i] {
	case "m":
		b.defs[name] = Def(nil, "Int", false, inner)
		return B(b.filler("p"), Let(r, "Int", Int(0)), Call(r, name), Return(Var(r)))
	case "a":
		b.defs[name] = AsyncDef(nil, "Int", inner)
		return B(b.filler("p"), Let(r, "Int", Int(0)), ACall(r, name), Return(Var(r)))
	case "g":
		d := Def(nil, "Int", true, B(Yield(Int(1)), inner))
		b.defs[name] = d
		g := fmt.Sprintf("g%d", i+1)
		return B(b.filler("p"), Gen(g, name), Let(r, "Int", Int(0)),
			Try(B(Next(r, g), Next(r, g)), L{CatchSym(4, B(Return(Int(-1))))}, false, nil), Return(Var(r)))
	case "c":
		k := fmt.Sprintf("k%d", i+1)
		return B(b.filler("p"), Lam(k, nil, "Int", inner), Let(r, "Int", Int(0)), CallC(r, k), Return(Var(r)))
	}
	panic(chain[i])
}

// prelude: statements main runs BEFORE the chain, which leave error-handling state behind in the thread:
// 1 = a generator consumed to exhaustion by for-in (the stop-iteration signal), 2 = an error thrown in a
// callee and caught here. Neither may show in the trace of the later, unrelated uncaught error.
func (b *builder) prelude(kind int) L {
	switch kind {
	case 1:
		b.defs["gen0"] = Def(nil, "Int", true, B(Yield(Int(1)), Yield(Int(2)), Return(Int(0))))
		return B(ForGen("", "w0", "gen0", L{}, B(Let("q0", "Int", Var("w0"))), "f0"))
	case 2:
		b.defs["thr0"] = Def(nil, "Int", false, B(b.filler("y"), Throw(Sym(2)), Return(Int(0))))
		return B(Let("t0", "Int", Int(0)), Try(B(Call("t0", "thr0")), L{CatchSym(2, B(Set("t0", Int(5))))}, false, nil))
	}
	return nil
}

func chainProg(id int, chain []string, fill func() int) M {
	b := &builder{defs: map[string]M{}, fill: fill}
	pre := b.prelude(id % 3)
	body := append(pre, b.level(chain, 0)...)
	b.defs["main_"] = Def(nil, "Int", false, body)
	p := Prog(id, b.defs)
	p["desc"] = "call chain " + strings.Join(chain, ">") + " with a throw at the innermost level" + []string{"", " after a generator was exhausted by for-in", " after an error was thrown in a callee and caught"}[id%3]
	tags := ""
	for _, k := range chain {
		if k == "g" {
			tags = "through_generator"
		}
	}
	p["tags"] = tags
	return p
}

func allChains(depth int) [][]string {
	if depth == 0 {
		return [][]string{{}}
	}
	var out [][]string
	for _, rest := range allChains(depth - 1) {
		for _, k := range kinds {
			out = append(out, append([]string{k}, rest...))
		}
	}
	return out
}

type item struct {
	p        M
	src      string
	callLine int
}

func run(c *core.Ctx) error {
	var items []*item
	id := 0
	add := func(ch []string) {
		id++
		p := chainProg(id, ch, func() int { return c.Rand.Intn(4) })
		src, cl := EmitUncaught(p)
		items = append(items, &item{p, src, cl})
	}
	full := c.Pick(3, 4)
	for d := 0; d <= full; d++ {
		for _, ch := range allChains(d) {
			add(ch)
			if c.Thorough() {
				add(ch) // a second layout of the same chain
			}
		}
	}
	deeper := allChains(full + 1)
	for _, i := range c.SampleIdx(len(deeper), c.Pick(100, 600)) {
		add(deeper[i])
	}
	progs := make([]M, len(items))
	for i, it := range items {
		progs[i] = it.p
	}
	c.Logf("instance: %d call-chain programs (all chains over method/closure/async/generator to depth %d + sampled deeper)", len(progs), full)
	mr, err := Predict(c, progs, "C14.cfg", 3000, 10*time.Minute)
	if err != nil {
		return err
	}
	c.Cov("states", int(mr.TLC.Distinct))
	c.Cov("transitions", int(mr.TLC.Generated))
	c.Cov("spec", "spec/ElkCore/ElkCore.tla TraceAt/TraceFrom: the frames active at a throw, outermost first")

	var jobs []core.Job
	for _, it := range items {
		jobs = append(jobs, core.Job{Kind: "elk", Payload: elkrun.Job{Src: it.src, Cfg: &elkrun.Cfg{PoolSize: 8, QueueSize: 16}}, TimeoutMs: 60000})
	}
	results := c.NewPool(c.Workers).Map(jobs, nil)

	type mism struct {
		it  *item
		rec map[string]any
		got []string
	}
	var mismatches []mism
	agree, ood := 0, 0
	for i, jr := range results {
		it := items[i]
		pid := it.p["id"].(int)
		obs := mr.Obs[pid]
		if obs == nil {
			return core.Inconclusivef("no prediction for program %d", pid)
		}
		rec := map[string]any{"desc": it.p["desc"], "tags": it.p["tags"], "source": it.src, "program": it.p}
		var r elkrun.Result
		switch {
		case jr.Crashed:
			rec["kind"] = "go_panic"
			rec["summary"] = fmt.Sprintf("process died: %v", it.p["desc"])
			rec["panic"] = jr.CrashLog
			c.Violation(rec)
			continue
		case jr.Timeout:
			return core.Inconclusivef("timeout running %v", it.p["desc"])
		case jr.Err != "" || jr.Panic != "":
			return core.Inconclusivef("worker problem: %s %s", jr.Err, jr.Panic)
		}
		if err := jr.Decode(&r); err != nil {
			return err
		}
		if !r.Accepted {
			ood++
			if ood <= 3 {
				c.Note("out of domain: " + r.Diags)
			}
			continue
		}
		if r.Hung {
			return core.Inconclusivef("program did not finish: %v", it.p["desc"])
		}
		if r.GoPanic != "" {
			rec["kind"] = "go_panic"
			rec["summary"] = fmt.Sprintf("Go panic: %v: %s", it.p["desc"], strings.SplitN(r.GoPanic, "\n", 2)[0])
			rec["panic"] = r.GoPanic
			c.Violation(rec)
			continue
		}
		if obs.Outcome.K != "thrown" {
			return core.Inconclusivef("the model did not end with a throw for %v (%s)", it.p["desc"], obs.Outcome.K)
		}
		want := append([]string{fmt.Sprintf("main.elk:%d", it.callLine)}, obs.Outcome.Trace...)
		var got []string
		for _, f := range r.Trace {
			fn := strings.TrimPrefix(f.Func, "Std::Kernel::")
			s := fmt.Sprintf("%s:%d", fn, f.Line)
			if f.TCO > 0 {
				s += fmt.Sprintf("(tco %d)", f.TCO)
			}
			got = append(got, s)
		}
		rec["predicted"] = want
		rec["observed"] = got
		if r.ErrClass == "" || r.ErrMsg != ":a" {
			rec["kind"] = "wrong_error"
			rec["summary"] = fmt.Sprintf("%v: expected uncaught :a, got %q %q", it.p["desc"], r.ErrClass, r.ErrMsg)
			c.Violation(rec)
			continue
		}
		if strings.Join(want, " ") == strings.Join(got, " ") {
			agree++
			if agree%97 == 1 {
				c.Sample(map[string]any{"desc": it.p["desc"], "trace": got})
			}
			continue
		}
		rec["kind"] = "trace_mismatch"
		rec["summary"] = fmt.Sprintf("%v\n  spec: %s\n  real: %s", it.p["desc"], strings.Join(want, " | "), strings.Join(got, " | "))
		mismatches = append(mismatches, mism{it, rec, got})
	}
	// explain mismatches by recorded deviations
	for _, dev := range c.KnownDeviations() {
		var todo []M
		for _, m := range mismatches {
			if m.rec["deviation"] == nil {
				todo = append(todo, m.it.p)
			}
		}
		if len(todo) == 0 {
			break
		}
		dr, err := Predict(c, todo, "Deviant.cfg", 3000, 10*time.Minute, dev)
		if err != nil {
			return err
		}
		for _, m := range mismatches {
			if o := dr.Obs[m.it.p["id"].(int)]; o != nil && m.rec["deviation"] == nil && o.Outcome.K == "thrown" {
				want := append([]string{fmt.Sprintf("main.elk:%d", m.it.callLine)}, o.Outcome.Trace...)
				if strings.Join(want, " ") == strings.Join(m.got, " ") {
					m.rec["deviation"] = dev
				}
			}
		}
	}
	for _, m := range mismatches {
		c.Violation(m.rec)
	}
	c.Cov("traces_validated_against_impl", agree)
	c.Cov("programs", len(items))
	c.Cov("out_of_domain", ood)
	c.Logf("agree=%d differences=%d out_of_domain=%d violations=%d", agree, len(mismatches), ood, c.Violations())
	if ood*5 > len(items) {
		return core.Inconclusivef("%d of %d programs rejected by the checker", ood, len(items))
	}
	if agree == 0 {
		return core.Inconclusivef("nothing compared")
	}
	return nil
}
