// Package c09: the native Go backend behaves like the bytecode VM. Programs of the ElkCore corpora
// restricted to the subset the Go backend implements (methods, closures, locals, loops, labelled
// break/continue, if, calls; no throw/finally/defer/generators/async) are compiled from the SAME
// source text by both back ends. Three-way comparison: the observation predicted by the ElkCore
// machine (TLC), the bytecode VM, and the binary built from the generated Go source.
package c09

import (
	"bytes"
	"context"
	"encoding/json"
	"fmt"
	"go/format"
	"os"
	"os/exec"
	"path/filepath"
	"runtime/debug"
	"strings"
	"time"

	"github.com/elk-language/elk"
	"github.com/elk-language/elk/bitfield"
	"github.com/elk-language/elk/types/checker"

	"elkverif/internal/core"
	. "elkverif/internal/elkcore"
	"elkverif/internal/elkrun"
	"elkverif/prop/c13"
	"elkverif/prop/c14"
)

func init() {
	core.Register(&core.Check{ID: "C09", Level: "model_checking", Run: run})
	core.RegisterJob("c09.native", func(raw json.RawMessage) (any, error) {
		var j NativeJob
		if err := json.Unmarshal(raw, &j); err != nil {
			return nil, err
		}
		return native(&j), nil
	})
}

type NativeJob struct {
	Src     string `json:"src"`
	Scratch string `json:"scratch"`
}

type NativeResult struct {
	Stage    string `json:"stage"` // generate | format | build | run | ok
	Detail   string `json:"detail,omitempty"`
	Stdout   string `json:"stdout"`
	Stderr   string `json:"stderr,omitempty"`
	ExitCode int    `json:"exit_code"`
	GoLines  int    `json:"go_lines"`
}

func native(j *NativeJob) (res *NativeResult) {
	elkrun.Setup()
	res = &NativeResult{Stage: "generate"}
	var buf bytes.Buffer
	func() {
		defer func() {
			if r := recover(); r != nil {
				res.Detail = fmt.Sprintf("Go panic in the backend: %v\n%s", r, firstLines(string(debug.Stack()), 12))
			}
		}()
		elk.InitGlobalEnvironment()
		checker.MethodCheckConcurrencyLimit = 1
		gc, diags := checker.CheckSourceNative("main.elk", j.Src, nil, bitfield.BitField16{}, &buf, nil)
		if diags != nil && diags.IsFailure() {
			res.Detail = "rejected: " + diags.Error()
			return
		}
		if gc == nil {
			res.Detail = "no compiler returned"
			return
		}
		gc.Flush()
		res.Stage = "format"
	}()
	if res.Stage != "format" {
		return res
	}
	src, err := format.Source(buf.Bytes())
	if err != nil {
		res.Detail = "generated Go source does not parse: " + err.Error()
		return res
	}
	res.GoLines = bytes.Count(src, []byte("\n"))
	dir, err := os.MkdirTemp(j.Scratch, "native-")
	if err != nil {
		res.Detail = err.Error()
		return res
	}
	defer os.RemoveAll(dir)
	os.WriteFile(filepath.Join(dir, "main.go"), src, 0o644)
	gomod := fmt.Sprintf("module main\n\ngo 1.25.0\n\nrequire github.com/elk-language/elk v0.0.0\n\nreplace github.com/elk-language/elk => %s\n", core.RepoRoot)
	os.WriteFile(filepath.Join(dir, "go.mod"), []byte(gomod), 0o644)
	if b, err := os.ReadFile(filepath.Join(core.RepoRoot, "go.sum")); err == nil {
		os.WriteFile(filepath.Join(dir, "go.sum"), b, 0o644)
	}
	res.Stage = "build"
	ctx, cancel := context.WithTimeout(context.Background(), 15*time.Minute)
	defer cancel()
	cmd := exec.CommandContext(ctx, "go", "build", "-tags", "native", "-o", "prog", ".")
	cmd.Dir = dir
	cmd.Env = append(os.Environ(), "GOPROXY=off", "GOFLAGS=-mod=mod", "GOTOOLCHAIN=auto")
	out, err := cmd.CombinedOutput()
	if err != nil {
		res.Detail = "go build failed: " + firstLines(string(out), 30)
		if ctx.Err() != nil {
			res.Stage = "build_timeout"
		}
		return res
	}
	res.Stage = "run"
	rctx, rcancel := context.WithTimeout(context.Background(), 20*time.Second)
	defer rcancel()
	run := exec.CommandContext(rctx, filepath.Join(dir, "prog"))
	run.Dir = dir
	run.Env = append(os.Environ(), "ELKPATH="+core.RepoRoot)
	var so, se bytes.Buffer
	run.Stdout, run.Stderr = &so, &se
	err = run.Run()
	res.Stdout = so.String()
	res.Stderr = firstLines(se.String(), 30)
	if ee, ok := err.(*exec.ExitError); ok {
		res.ExitCode = ee.ExitCode()
	} else if err != nil {
		res.Detail = err.Error()
		return res
	}
	if rctx.Err() != nil {
		res.Stage = "run_timeout"
		return res
	}
	res.Stage = "ok"
	return res
}

// tagsOf names the features of a program that recorded backend defects are keyed by.
func tagsOf(p M) string {
	seen := map[string]bool{}
	var walk func(v any)
	walk = func(v any) {
		switch x := v.(type) {
		case M:
			switch x["k"] {
			case "lam":
				seen["closure_literal"] = true
			case "callc":
				seen["closure_call"] = true
			}
			for _, e := range x {
				walk(e)
			}
		case L:
			for _, e := range x {
				walk(e)
			}
		}
	}
	walk(p["defs"])
	d := fmt.Sprint(p["desc"])
	if strings.Contains(d, "fornum") && strings.Contains(d, "exit=continue") {
		seen["fornum_continue"] = true
	}
	var out []string
	for _, t := range []string{"closure_literal", "closure_call", "fornum_continue"} {
		if seen[t] {
			out = append(out, t)
		}
	}
	return strings.Join(out, " ")
}

func tagsOfBatch(b []M) string {
	var t []string
	for _, p := range b {
		t = append(t, tagsOf(p))
	}
	return strings.Join(t, " ")
}

func descs(b []M) string {
	var d []string
	for _, p := range b {
		d = append(d, fmt.Sprint(p["desc"]))
	}
	return strings.Join(d, "; ")
}

func firstLines(s string, n int) string {
	l := strings.Split(s, "\n")
	if len(l) > n {
		l = l[:n]
	}
	return strings.Join(l, "\n")
}

var positions = []string{"loop", "while", "until", "forin", "fornum", "if", "call", "callc"}

func chains(depth int) [][]string {
	if depth == 0 {
		return [][]string{{}}
	}
	var out [][]string
	for _, rest := range chains(depth - 1) {
		for _, p := range positions {
			out = append(out, append([]string{p}, rest...))
		}
	}
	return out
}

func exits(chain []string) []c14.Exit {
	loops := 0
	for _, p := range chain {
		switch p {
		case "loop", "while", "until", "forin", "fornum":
			loops++
		case "call", "callc":
			loops = 0
		}
	}
	ex := []c14.Exit{{Kind: "none"}, {Kind: "return"}}
	for l := 0; l <= loops && loops > 0; l++ {
		ex = append(ex, c14.Exit{Kind: "break", Level: l}, c14.Exit{Kind: "continue", Level: l})
	}
	return ex
}

// strip removes the defers the spine generator puts at call boundaries (not in the Go subset).
func strip(b L) L {
	out := L{}
	for _, s := range b {
		m := s.(M)
		if m["k"] == "defer" {
			continue
		}
		for _, k := range []string{"body", "a", "b"} {
			if sub, ok := m[k].(L); ok {
				m[k] = strip(sub)
			}
		}
		out = append(out, m)
	}
	return out
}

func run(c *core.Ctx) error {
	var progs []M
	id := 0
	depth := 2
	var all [][]string
	for d := 1; d <= depth; d++ {
		all = append(all, chains(d)...)
	}
	if c.Thorough() {
		d3 := chains(3)
		for _, i := range c.SampleIdx(len(d3), 200) {
			all = append(all, d3[i])
		}
	}
	if os.Getenv("C09_DEPTH1") != "" {
		all = chains(1)
	}
	for _, ch := range all {
		exs := exits(ch)
		if !c.Thorough() {
			exs = []c14.Exit{exs[c.Rand.Intn(len(exs))]}
		}
		for _, ex := range exs {
			id++
			p := c14.Spine(id, ch, ex)
			for _, d := range p["defs"].(M) {
				d.(M)["body"] = strip(d.(M)["body"].(L))
			}
			progs = append(progs, p)
		}
	}
	// closure shapes of C13 (no loops over lists: the known C13 finding is not this property's)
	for _, p := range c13.Corpus(c.Rand, c.Pick(20, 200), id+1, 40) {
		if strings.Contains(p["desc"].(string), "forin") {
			continue
		}
		progs = append(progs, p)
	}
	if limit := 700; len(progs) > limit {
		// every program costs one `go build` of the generated package (3-10 s): the thorough tier takes a seeded
		// sample so that it ends within about 20 minutes
		var pick []M
		for _, i := range c.SampleIdx(len(progs), limit) {
			pick = append(pick, progs[i])
		}
		progs = pick
	}
	MaxSteps = 20000
	batch := 1
	c.Logf("instance: %d programs in the Go backend's subset", len(progs))
	var srcs []string
	var batches [][]M
	for i := 0; i < len(progs); i += batch {
		j := i + batch
		if j > len(progs) {
			j = len(progs)
		}
		batches = append(batches, progs[i:j])
		srcs = append(srcs, EmitBatchPlain(progs[i:j]))
	}
	mr, err := Predict(c, progs, "C14.cfg", MaxSteps, 15*time.Minute)
	if err != nil {
		return err
	}
	c.Cov("states", int(mr.TLC.Distinct))
	c.Cov("transitions", int(mr.TLC.Generated))
	c.Cov("spec", "spec/ElkCore/ElkCore.tla (observation predicted once, both back ends must produce it)")

	var vmJobs, natJobs []core.Job
	for _, s := range srcs {
		vmJobs = append(vmJobs, core.Job{Kind: "elk", Payload: elkrun.Job{Src: s, RunMs: 30000}, TimeoutMs: 90000})
		natJobs = append(natJobs, core.Job{Kind: "c09.native", Payload: NativeJob{Src: s, Scratch: c.Scratch}, TimeoutMs: 20 * 60 * 1000})
	}
	pool := c.NewPool(c.Workers)
	vmRes := pool.Map(vmJobs, nil)
	// the first native build compiles the whole runtime with -tags native: do one alone to warm the cache
	natRes := make([]core.JobResult, len(natJobs))
	first := c.NewPool(1).Map(natJobs[:1], nil)
	natRes[0] = first[0]
	if len(natJobs) > 1 {
		rest := c.NewPool(c.Pick(4, 8)).Map(natJobs[1:], nil)
		copy(natRes[1:], rest)
	}

	agree, outOfSubset := 0, 0
	for bi, b := range batches {
		var vr elkrun.Result
		if vmRes[bi].Crashed || vmRes[bi].Timeout || vmRes[bi].Err != "" {
			return core.Inconclusivef("VM run of batch %d failed: %s %s", bi, vmRes[bi].Err, vmRes[bi].CrashLog)
		}
		if err := vmRes[bi].Decode(&vr); err != nil {
			return err
		}
		if !vr.Accepted {
			return core.Inconclusivef("the checker rejects a generated batch: %s", firstLines(vr.Diags, 5))
		}
		if natRes[bi].Crashed || natRes[bi].Timeout || natRes[bi].Err != "" || natRes[bi].Panic != "" {
			return core.Inconclusivef("native job of batch %d failed: %s %s %s", bi, natRes[bi].Err, natRes[bi].Panic, firstLines(natRes[bi].CrashLog, 10))
		}
		var nr NativeResult
		if err := natRes[bi].Decode(&nr); err != nil {
			return err
		}
		vmLines := SplitByMarker(vr.Stdout)
		natLines := SplitByMarker(nr.Stdout)
		switch nr.Stage {
		case "generate":
			// the backend refuses (or crashes on) a construct: outside its subset, counted
			outOfSubset += len(b)
			c.Note("backend does not accept " + descs(b) + ": " + firstLines(nr.Detail, 1))
			continue
		case "format", "build":
			// "the generated Go source compiles" is part of the property
			rec := map[string]any{"kind": "generated_go_does_not_compile", "stage": nr.Stage, "detail": nr.Detail, "source": srcs[bi], "desc": descs(b), "tags": tagsOfBatch(b),
				"summary": fmt.Sprintf("the Go backend accepted the program but its output does not compile (%s): %s", nr.Stage, firstLines(nr.Detail, 4))}
			c.Violation(rec)
			continue
		case "build_timeout":
			return core.Inconclusivef("native %s", nr.Stage)
		case "run_timeout":
			rec := map[string]any{"kind": "native_hangs", "source": srcs[bi], "desc": descs(b), "tags": tagsOfBatch(b), "vm": vr.Stdout, "native": nr.Stdout,
				"summary": fmt.Sprintf("the native binary does not terminate (20 s) where the VM does: %s", descs(b))}
			c.Violation(rec)
			continue
		}
		for _, p := range b {
			pid := p["id"].(int)
			obs := mr.Obs[pid]
			want := obs.Lines()
			rec := map[string]any{"desc": p["desc"], "tags": tagsOf(p), "program": p, "source": EmitBatchPlain([]M{p}), "predicted": want,
				"vm": vmLines[pid], "native": natLines[pid], "native_exit": nr.ExitCode, "native_stderr": nr.Stderr}
			dv := Diff(want, vmLines[pid])
			dn := Diff(vmLines[pid], natLines[pid])
			switch {
			case dn != "":
				rec["kind"] = "native_differs_from_vm"
				rec["summary"] = fmt.Sprintf("%v\n  vm:     %s\n  native: %s\n  %s", p["desc"], strings.Join(vmLines[pid], " | "), strings.Join(natLines[pid], " | "), firstLines(nr.Stderr, 3))
				c.Violation(rec)
			case dv != "":
				// both back ends agree with each other but not with the machine: not this property's business
				c.Note(fmt.Sprintf("both back ends differ from the reference machine on %v (another property's finding)", p["desc"]))
				agree++
			default:
				agree++
				if agree%199 == 1 {
					c.Sample(map[string]any{"desc": p["desc"], "output_of_machine_vm_and_native": want})
				}
			}
		}
		if (nr.ExitCode != 0) != (vr.ErrClass != "" || vr.GoPanic != "") {
			rec := map[string]any{"kind": "exit_status_differs", "source": srcs[bi], "desc": descs(b), "tags": tagsOfBatch(b), "native_exit": nr.ExitCode, "native_stderr": nr.Stderr, "vm_error": vr.ErrClass + " " + vr.ErrMsg,
				"summary": fmt.Sprintf("batch %d: native exit status %d, VM error %q", bi, nr.ExitCode, vr.ErrClass)}
			c.Violation(rec)
		}
	}
	c.Cov("traces_validated_against_impl", agree)
	c.Cov("programs", len(progs))
	c.Cov("outside_backend_subset", outOfSubset)
	c.Logf("%d programs agree on machine/VM/native, %d outside the backend's subset, %d violations", agree, outOfSubset, c.Violations())
	if agree == 0 && c.Violations() == 0 {
		return core.Inconclusivef("nothing compared")
	}
	return nil
}
