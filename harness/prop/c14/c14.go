// Package c14: structured control flow follows the reference semantics of spec/ElkCore.
package c14

import (
	"elkverif/internal/core"
	. "elkverif/internal/elkcore"
)

func init() {
	core.Register(&core.Check{ID: "C14", Level: "model_checking", Run: run})
}

func run(c *core.Ctx) error {
	// ---- the bounded instance
	var progs []M
	id := 0
	add := func(chain []string, ex Exit) {
		id++
		progs = append(progs, Spine(id, chain, ex))
	}
	// quick: all chains to depth 2 with every exit + a sample of depth 3. thorough: additionally EVERY chain of
	// depth 3 (with two seeded exits each; all exits would be 48 000 programs, > 30 min of TLC on a loaded
	// machine) and samples of depth 4 and 5
	fullDepth := 2
	for d := 1; d <= fullDepth; d++ {
		for _, ch := range AllChains(d) {
			for _, ex := range exitsFor(ch) {
				add(ch, ex)
			}
		}
	}
	d3 := AllChains(3)
	if c.Thorough() {
		fullDepth = 3
		for _, ch := range d3 {
			exs := exitsFor(ch)
			k := c.Rand.Intn(len(exs))
			add(ch, exs[k])
			add(ch, exs[(k+1+c.Rand.Intn(len(exs)-1))%len(exs)])
		}
		for _, n := range []int{4, 5} {
			for k := 0; k < map[int]int{4: 5000, 5: 1500}[n]; k++ {
				ch := make([]string, n)
				for j := range ch {
					ch[j] = Positions[c.Rand.Intn(len(Positions))]
				}
				exs := exitsFor(ch)
				add(ch, exs[c.Rand.Intn(len(exs))])
			}
		}
	} else {
		for _, i := range c.SampleIdx(len(d3), 600) {
			exs := exitsFor(d3[i])
			add(d3[i], exs[c.Rand.Intn(len(exs))])
		}
	}
	nSpine := len(progs)
	sc := ShortCircuitProgs(id+1, 2, 40, c.Pick(2000, 0), c.Rand)
	progs = append(progs, sc...)
	c.Logf("instance: %d spine programs (all chains to depth %d + sampled deeper), %d short-circuit programs", nSpine, fullDepth, len(sc))

	return RunAndCompare(c, progs, "C14.cfg", 40)
}

