// Package c14: structured control flow follows the reference semantics of spec/ElkCore.
package c14

import (
	"elkverif/internal/core"
	. "elkverif/internal/elkcore"
)

func init() {
	core.Register(&core.Check{ID: "C14", Level: "model_checking", Run: run})
}

func run(c *core.Ctx) error {
	// ---- the bounded instance
	var progs []M
	id := 0
	add := func(chain []string, ex Exit) {
		id++
		progs = append(progs, Spine(id, chain, ex))
	}
	fullDepth := c.Pick(2, 3)
	for d := 1; d <= fullDepth; d++ {
		for _, ch := range AllChains(d) {
			for _, ex := range exitsFor(ch) {
				add(ch, ex)
			}
		}
	}
	// one level deeper: seeded sample
	deeper := AllChains(fullDepth + 1)
	nDeeper := c.Pick(600, 12000)
	for _, i := range c.SampleIdx(len(deeper), nDeeper) {
		exs := exitsFor(deeper[i])
		add(deeper[i], exs[c.Rand.Intn(len(exs))])
	}
	if c.Thorough() {
		d5 := 3000
		for k := 0; k < d5; k++ {
			ch := make([]string, fullDepth+2)
			for j := range ch {
				ch[j] = Positions[c.Rand.Intn(len(Positions))]
			}
			exs := exitsFor(ch)
			add(ch, exs[c.Rand.Intn(len(exs))])
		}
	}
	nSpine := len(progs)
	sc := ShortCircuitProgs(id+1, 2, 40, c.Pick(2000, 0), c.Rand)
	progs = append(progs, sc...)
	c.Logf("instance: %d spine programs (all chains to depth %d + sampled deeper), %d short-circuit programs", nSpine, fullDepth, len(sc))

	return RunAndCompare(c, progs, "C14.cfg", 40)
}

