package c14

import (
	"fmt"
	"math/rand"
	"strings"

	. "elkverif/internal/elkcore"
)

// Spine programs: a chain of nested constructs C1 > C2 > ... > Cd with ONE exit statement at the
// innermost level and a print before and after every level, inside every finally and in a defer at
// every call boundary. Enumerating all chains x all exits is exactly the property's quantifier:
// "all nestings of the listed constructs up to a bounded depth, with every exit kind at every
// nesting level".

// construct positions
var Positions = []string{
	"loop", "while", "until", "forin", "fornum", // loop kinds (2 iterations each)
	"try_cf",  // do B catch :a ... finally ... end
	"try_f",   // do B finally ... end
	"try_c",   // do B catch :a ... end
	"catch_f", // do throw :a catch :a B finally ... end
	"catch",   // do throw :a catch :a B end
	"fin",     // do ... finally B end
	"fin_thr", // do throw :b finally B end   (finally entered by a throw; B may replace it)
	"if",      // if true B end
	"call",    // r = f()  where f's body is B (with a defer)
	"callc",   // r = c.() where the closure's body is B
	"tcall",   // return f()  where f's body is B: a call in tail position (frame re-use must be invisible)
}

// exits
type Exit struct {
	Kind  string // none break continue return throw_a throw_b defer
	Level int    // for break/continue: 0 = unlabelled, k>0 = k-th enclosing loop of the current function counting from the innermost
}

type spineGen struct {
	inTry int // number of enclosing do-expressions in the current function
	id    int // print id counter
	vars  int
	defs  map[string]M
	nfun  int
}

func (g *spineGen) pid() M {
	g.id++
	return Int(g.id)
}
func (g *spineGen) v(prefix string) string {
	g.vars++
	return fmt.Sprintf("%s%d", prefix, g.vars)
}

// loopsInFn: labels of the enclosing loops in the current function, innermost last
func (g *spineGen) build(chain []string, ex Exit, loopsInFn []string) L {
	if len(chain) == 0 {
		return g.exit(ex, loopsInFn)
	}
	pos := chain[0]
	rest := chain[1:]
	pre := Print(g.pid())
	var mid L
	saved := g.inTry
	defer func() { g.inTry = saved }()
	switch pos {
	case "try_cf", "try_f", "try_c", "catch_f", "catch", "fin", "fin_thr":
		g.inTry++
	case "call", "callc":
		g.inTry = 0
	case "tcall":
		if g.inTry > 0 {
			// inside a do-expression the compiler's choice between a real tail call and an ordinary
			// call depends on the finally bookkeeping; keep the family to unambiguous tail positions
			pos = "call"
		}
		g.inTry = 0
	}
	switch pos {
	case "loop", "while", "until", "forin", "fornum":
		label := g.v("l")
		inner := func() L { return B(Print(g.pid()), g.build(rest, ex, append(append([]string{}, loopsInFn...), label)), Print(g.pid())) }
		switch pos {
		case "forin":
			mid = B(ForIn(label, g.v("i"), L{Int(1), Int(2)}, inner()))
		case "fornum":
			iv := g.v("i")
			mid = B(ForNum(label, iv, Int(0), Bin("<", Var(iv), Int(2)), Bin("+", Var(iv), Int(1)), inner()))
		case "while":
			cv := g.v("c")
			mid = B(Let(cv, "Int", Int(0)), While(label, Bin("<", Var(cv), Int(2)), B(Set(cv, Bin("+", Var(cv), Int(1))), inner())))
		case "until":
			cv := g.v("c")
			mid = B(Let(cv, "Int", Int(0)), Until(label, Bin(">=", Var(cv), Int(2)), B(Set(cv, Bin("+", Var(cv), Int(1))), inner())))
		case "loop":
			cv := g.v("c")
			mid = B(Let(cv, "Int", Int(0)), Loop(label, B(If(Bin(">=", Var(cv), Int(2)), B(Break("")), L{}), Set(cv, Bin("+", Var(cv), Int(1))), inner())))
		}
	case "try_cf":
		mid = B(Try(B(Print(g.pid()), g.build(rest, ex, loopsInFn), Print(g.pid())), L{CatchSym(1, B(Print(g.pid())))}, true, B(Print(g.pid()))))
	case "try_f":
		mid = B(Try(B(Print(g.pid()), g.build(rest, ex, loopsInFn), Print(g.pid())), nil, true, B(Print(g.pid()))))
	case "try_c":
		mid = B(Try(B(Print(g.pid()), g.build(rest, ex, loopsInFn), Print(g.pid())), L{CatchSym(1, B(Print(g.pid())))}, false, nil))
	case "catch_f":
		mid = B(Try(B(Print(g.pid()), Throw(Sym(1))), L{CatchSym(1, B(Print(g.pid()), g.build(rest, ex, loopsInFn), Print(g.pid())))}, true, B(Print(g.pid()))))
	case "catch":
		mid = B(Try(B(Print(g.pid()), Throw(Sym(1))), L{CatchSym(1, B(Print(g.pid()), g.build(rest, ex, loopsInFn), Print(g.pid())))}, false, nil))
	case "fin":
		mid = B(Try(B(Print(g.pid())), nil, true, B(Print(g.pid()), g.build(rest, ex, loopsInFn), Print(g.pid()))))
	case "fin_thr":
		mid = B(Try(B(Print(g.pid()), Throw(Sym(2))), nil, true, B(Print(g.pid()), g.build(rest, ex, loopsInFn), Print(g.pid()))))
	case "if":
		mid = B(If(True(), B(Print(g.pid()), g.build(rest, ex, loopsInFn), Print(g.pid())), L{}))
	case "call":
		g.nfun++
		fn := fmt.Sprintf("f%d", g.nfun)
		body := B(Defer(Pr(g.id+1000, Int(0))), Print(g.pid()), g.build(rest, ex, nil), Print(g.pid()), Return(Int(7)))
		g.defs[fn] = Def(nil, "Int", false, body)
		r := g.v("r")
		mid = B(Let(r, "Int", Int(0)), Call(r, fn), Print(Var(r)))
	case "tcall":
		g.nfun++
		fn := fmt.Sprintf("f%d", g.nfun)
		body := B(Defer(Pr(g.id+1000, Int(0))), Print(g.pid()), g.build(rest, ex, nil), Print(g.pid()), Return(Int(7)))
		g.defs[fn] = Def(nil, "Int", false, body)
		mid = B(TCall(fn))
	case "callc":
		cn := g.v("k")
		body := B(Print(g.pid()), g.build(rest, ex, nil), Print(g.pid()), Return(Int(8)))
		r := g.v("r")
		mid = B(Lam(cn, nil, "Int", body), Let(r, "Int", Int(0)), CallC(r, cn), Print(Var(r)))
	default:
		panic(pos)
	}
	return B(pre, mid, Print(g.pid()))
}

func (g *spineGen) exit(ex Exit, loopsInFn []string) L {
	switch ex.Kind {
	case "none":
		return B(Print(g.pid()))
	case "break", "continue":
		l := ""
		if ex.Level > 0 {
			l = loopsInFn[len(loopsInFn)-ex.Level]
		}
		if ex.Kind == "break" {
			return B(Break(l))
		}
		return B(Continue(l))
	case "return":
		return B(Return(Int(5)))
	case "throw_a":
		return B(Throw(Sym(1)))
	case "throw_b":
		return B(Throw(Sym(2)))
	case "defer":
		return B(Defer(Pr(g.id+2000, Int(1))), Print(g.pid()))
	}
	panic(ex.Kind)
}

// exitsFor lists the exits applicable under the chain (break/continue need an enclosing loop in
// the same function).
// ExitsFor is exported for the other ElkCore properties.
func ExitsFor(chain []string) []Exit { return exitsFor(chain) }

func exitsFor(chain []string) []Exit {
	loops := 0
	for _, p := range chain {
		switch p {
		case "loop", "while", "until", "forin", "fornum":
			loops++
		case "call", "callc", "tcall":
			loops = 0
		}
	}
	ex := []Exit{{"none", 0}, {"return", 0}, {"throw_a", 0}, {"throw_b", 0}, {"defer", 0}}
	for l := 0; l <= loops && loops > 0; l++ {
		ex = append(ex, Exit{"break", l}, Exit{"continue", l})
	}
	return ex
}

// Spine builds one program.
func Spine(id int, chain []string, ex Exit) M {
	g := &spineGen{defs: map[string]M{}}
	body := B(Defer(Pr(9000, Int(0))), g.build(chain, ex, nil), Return(Int(1)))
	g.defs["main_"] = Def(nil, "Int", false, body)
	p := Prog(id, g.defs)
	p["desc"] = fmt.Sprintf("%v exit=%s/%d", chain, ex.Kind, ex.Level)
	p["tags"] = strings.Join(Tags(chain, ex), " ")
	return p
}

// Tags names structural features of a spine program; known findings are keyed by them.
func Tags(chain []string, ex Exit) []string {
	var tags []string
	isLoop := func(p string) bool {
		switch p {
		case "loop", "while", "until", "forin", "fornum":
			return true
		}
		return false
	}
	in := func(p string, set ...string) bool {
		for _, x := range set {
			if p == x {
				return true
			}
		}
		return false
	}
	// landing position of the exit inside the chain (-1: leaves the chain / no jump)
	landing := -1
	var crossing []string // positions that make the transfer leave stale operands behind
	switch ex.Kind {
	case "break", "continue":
		var loops []int
		for i, p := range chain {
			if isLoop(p) {
				loops = append(loops, i)
			} else if p == "call" || p == "callc" || p == "tcall" {
				loops = nil
			}
		}
		lvl := ex.Level
		if lvl == 0 {
			lvl = 1
		}
		if lvl <= len(loops) {
			landing = loops[len(loops)-lvl]
		}
		crossing = []string{"catch", "catch_f", "fin", "fin_thr"}
	case "throw_a":
		// innermost enclosing do-expression whose BODY contains the exit and that catches :a
		for i, p := range chain {
			if in(p, "try_c", "try_cf") {
				landing = i
			}
		}
		crossing = []string{"call", "callc", "tcall", "catch", "catch_f", "fin", "fin_thr"}
	}
	if landing >= 0 {
		thrownFin, crossed := false, false
		for i, p := range chain {
			if i < landing && p == "fin_thr" {
				thrownFin = true
			}
			if i > landing && in(p, crossing...) {
				crossed = true
			}
		}
		if thrownFin && crossed {
			// a transfer out of a handler / finally block / call that lands inside a finally block
			// which was entered by a throw
			tags = append(tags, "abrupt_exit_lands_inside_thrown_finally")
		}
	}
	return tags
}

// AllChains enumerates every chain of the given depth.
func AllChains(depth int) [][]string {
	if depth == 0 {
		return [][]string{{}}
	}
	var out [][]string
	for _, rest := range AllChains(depth - 1) {
		for _, p := range Positions {
			out = append(out, append([]string{p}, rest...))
		}
	}
	return out
}

// ---- short-circuit family: all expression trees of && || ?? over probe leaves ----------------

var scLeaves = []func() M{func() M { return Nil() }, func() M { return False() }, func() M { return True() }, func() M { return Int(0) }, func() M { return Int(3) }}

func scTrees(depth int, id *int) []func() M {
	var out []func() M
	for _, lf := range scLeaves {
		lf := lf
		out = append(out, func() M { *id++; return Pr(*id, lf()) })
	}
	if depth == 0 {
		return out
	}
	sub := scTrees(depth-1, id)
	for _, op := range []func(a, b M) M{And, Or, NilC} {
		op := op
		for _, a := range sub {
			for _, b := range sub {
				a, b := a, b
				out = append(out, func() M { return op(a(), b()) })
			}
		}
	}
	return out
}

// ShortCircuitProgs packs the expression trees of the given depth, `per` prints per program.
func ShortCircuitProgs(firstID int, depth int, per int, sample int, rng *rand.Rand) []M {
	idc := 0
	trees := scTrees(depth, &idc)
	idx := make([]int, len(trees))
	for i := range idx {
		idx[i] = i
	}
	if sample > 0 && sample < len(trees) {
		rng.Shuffle(len(idx), func(i, j int) { idx[i], idx[j] = idx[j], idx[i] })
		idx = idx[:sample]
	}
	var progs []M
	for i := 0; i < len(idx); i += per {
		j := i + per
		if j > len(idx) {
			j = len(idx)
		}
		var body L
		idc = 0
		for _, k := range idx[i:j] {
			body = append(body, Print(trees[k]()))
			// the same tree as a bare statement (value ignored): the compiler takes another path
			body = append(body, ExprS(trees[k]()))
		}
		body = append(body, Return(Int(0)))
		p := Prog(firstID+len(progs), map[string]M{"main_": Def(nil, "Int", false, body)})
		p["desc"] = fmt.Sprintf("short-circuit trees depth %d [%d..%d)", depth, i, j)
		progs = append(progs, p)
	}
	return progs
}
