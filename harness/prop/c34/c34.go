// Package c34: `elk test` runs exactly the selected cases, each once, and exits with failure exactly
// when a case that ran failed or errored. Specification: spec/TestRunner.
//
//  1. TLC model-checks the runner of TestRunner.tla against its reference relation on the whole
//     bounded family of suite trees x filter sequences x outcomes (MC_TestRunnerFamily) and prints
//     one record per (tree, filters);
//  2. a seeded, stratified sample of them gets planned outcomes and is given back to TLC
//     (MC_TestRunnerReplay), which predicts the observation of each: cases run, failures, exit status;
//  3. every sampled instance is written as real .elk.test files at the modelled lines and run with the
//     real `elk test --main .. --grep .. --path ..` binary built from $VERIF_REPO;
//  4. differences are re-predicted with the specification's NAMED deviations enabled, so that a
//     recorded known finding is recognised exactly and anything else is a violation.
package c34

import (
	"encoding/json"
	"fmt"
	"os"
	"os/exec"
	"path/filepath"
	"sort"
	"strconv"
	"strings"
	"sync"
	"time"

	"elkverif/internal/core"
	"elkverif/internal/tlc"
)

func init() {
	core.Register(&core.Check{ID: "C34", Level: "model_checking", Run: run})
}

const invariants = "TypeOK RunsNoOtherCase NeverTwice RegistersSelected RunsExactlySelectedOnce ExitIffFailure"

var specDeviations = []string{"suite_line_only_when_sole_filter", "zero_cases_exit_failure"}

type bounds struct {
	MaxTokens, MaxCases, MaxDepth, MaxPaths, MaxTokens2 int
	GrepPairs                                           bool
}

func familyCfg(b bounds, devs []string, emit string) string {
	gp := "FALSE"
	if b.GrepPairs {
		gp = "TRUE"
	}
	return fmt.Sprintf("CONSTANTS\n  Instances <- MCInstances\n  DeviationSets = {%s}\n  Emit = %q\n  MaxTokens = %d\n  MaxCases = %d\n  MaxDepth = %d\n  MaxPaths = %d\n  MaxTokens2 = %d\n  GrepPairs = %s\nINIT Init\nNEXT Next\nINVARIANTS %s\nCHECK_DEADLOCK TRUE\n",
		tlaSet(devs), emit, b.MaxTokens, b.MaxCases, b.MaxDepth, b.MaxPaths, b.MaxTokens2, gp, invariants)
}

// replayCfg: the intended runner (checked against the reference) plus one run per deviation set.
func replayCfg(devSets [][]string) string {
	sets := []string{"{}"}
	for _, d := range devSets {
		sets = append(sets, tlaSet(d))
	}
	return fmt.Sprintf("CONSTANTS\n  Instances <- MCInstances\n  DeviationSets = {%s}\n  Emit = \"done\"\nINIT Init\nNEXT Next\nINVARIANTS TypeOK NeverTwice Reference\nCHECK_DEADLOCK TRUE\n", strings.Join(sets, ", "))
}

func tlaSet(l []string) string {
	q := make([]string, len(l))
	for i, s := range l {
		q[i] = fmt.Sprintf("%q", s)
	}
	return "{" + strings.Join(q, ", ") + "}"
}

// Filter and Instance mirror the instance records of TestRunner.tla.
type Filter struct {
	Kind  string   `json:"kind"`
	Words []string `json:"words"`
	File  string   `json:"file"`
	Line  int      `json:"line"`
}

type Instance struct {
	ID       int        `json:"id"`
	Files    [][]string `json:"files"`
	Filters  []Filter   `json:"filters"`
	Outcomes [][]string `json:"outcomes"`
	Sel      []string   `json:"sel,omitempty"` // family record only: the reference selection
}

// Prediction is the GEN record of a finished run.
type Prediction struct {
	ID     int      `json:"id"`
	Dev    []string `json:"dev"`
	Ran    []string `json:"ran"`
	Twice  []string `json:"twice"`
	Failed []string `json:"failed"`
	Errors []string `json:"errors"`
	Sel    []string `json:"sel"`
	Exit   int      `json:"exit"`
}

func (p *Prediction) key() string {
	return fmt.Sprintf("ran=%v failed=%v errors=%v exit=%d", sorted(p.Ran), sorted(p.Failed), sorted(p.Errors), p.Exit)
}

func sorted(l []string) []string {
	o := append([]string{}, l...)
	sort.Strings(o)
	return o
}

func run(c *core.Ctx) error {
	specDir := filepath.Join(core.VerifRoot, "spec", "TestRunner")
	b := bounds{MaxTokens: 5, MaxCases: 3, MaxDepth: 2, MaxPaths: 2, MaxTokens2: 3}
	if c.Thorough() {
		b = bounds{MaxTokens: 6, MaxCases: 3, MaxDepth: 2, MaxPaths: 2, MaxTokens2: 4, GrepPairs: true} // 7 tokens / 4 cases (about 125 000 instances) did not finish within an hour on the shared machine
	}
	nSample := c.Pick(300, 900) // the replay run of TLC predicts 4 deviation sets per instance: 3 000 instances did not finish in 40 minutes
	// developer aid (kill-testing mutants on a busy machine): VERIF_C34_MAXTOKENS shrinks the family
	if v, err := strconv.Atoi(os.Getenv("VERIF_C34_MAXTOKENS")); err == nil && v >= 3 {
		b.MaxTokens = v
		c.Note(fmt.Sprintf("family shrunk by VERIF_C34_MAXTOKENS=%d", v))
	}

	// ---- the real binary, built while TLC works
	elkBin := filepath.Join(c.Scratch, "elk")
	buildErr := make(chan error, 1)
	go func() { buildErr <- buildElk(elkBin) }()

	// ---- negative control of the specification: with the two named deviations (what the pinned
	// implementation does) TLC must find the runner violating the reference
	ctlErr := make(chan error, 1)
	go func() {
		small := bounds{MaxTokens: 5, MaxCases: 2, MaxDepth: 2, MaxPaths: 1, MaxTokens2: 0}
		for _, dev := range specDeviations {
			r, err := tlc.Run(tlc.Opts{SpecDir: specDir, Module: "MC_TestRunnerFamily", Cfg: "ctl.cfg", Scratch: c.Scratch, Workers: 2, Timeout: 30 * time.Minute,
				Extra: map[string][]byte{"ctl.cfg": []byte(familyCfg(small, []string{dev}, "none"))}})
			if err != nil {
				ctlErr <- err
				return
			}
			if r.Verdict != "invariant" {
				ctlErr <- core.Inconclusivef("negative control failed: with deviation %s TLC should find the runner violating the reference, got %s %s", dev, r.Verdict, r.What)
				return
			}
			c.Note(fmt.Sprintf("negative control: with deviation %s TLC finds invariant %s violated", dev, r.What))
		}
		ctlErr <- nil
	}()

	// ---- 1. model checking of the family; one record per (tree, filters)
	var family []Instance
	t0 := time.Now()
	fam, err := tlc.Run(tlc.Opts{SpecDir: specDir, Module: "MC_TestRunnerFamily", Cfg: "family.cfg", Scratch: c.Scratch, Workers: c.Workers, Timeout: 40 * time.Minute,
		Coverage: c.Thorough(),
		Extra:    map[string][]byte{"family.cfg": []byte(familyCfg(b, nil, "registered"))},
		OnGen: func(rec []byte) {
			var in Instance
			if json.Unmarshal(rec, &in) == nil {
				family = append(family, in)
			}
		}})
	if err != nil {
		return err
	}
	if !fam.OK {
		return core.Inconclusivef("TLC: the runner of TestRunner.tla (Deviations = {}) does not implement its reference: %s %s\n%s", fam.Verdict, fam.What, tail(fam.ErrorTrace, 3000))
	}
	if c.Thorough() {
		for _, a := range []string{"Describe", "EndDescribe", "TestCase", "NextFile", "RunCase", "Finish"} {
			if fam.ActionCov[a] == 0 {
				return core.Inconclusivef("vacuous model: action %s never fired (coverage %v)", a, fam.ActionCov)
			}
		}
	}
	c.CovAdd("states", int(fam.Distinct))
	c.CovAdd("transitions", int(fam.Generated))
	c.Cov("family_instances", len(family))
	c.Cov("family_bounds", b)
	c.Cov("spec", "spec/TestRunner/TestRunner.tla + MC_TestRunnerFamily.tla: invariants "+invariants+"; deadlock check; Deviations = {}")
	c.Logf("TLC family: %d (tree, filters) instances, %d distinct states, depth %d, %.0fs", len(family), fam.Distinct, fam.Depth, time.Since(t0).Seconds())
	if len(family) == 0 {
		return core.Inconclusivef("TLC produced no instance: %s", tail(fam.Output, 1500))
	}
	if err := <-ctlErr; err != nil {
		return err
	}

	// ---- 2. seeded stratified sample with planned outcomes, predictions by TLC
	insts := sample(c, family, nSample)
	// (the real runs of step 3 start now, next to TLC)
	if err := <-buildErr; err != nil {
		return core.Inconclusivef("cannot build elk from %s: %v", core.RepoRoot, err)
	}
	t1 := time.Now()
	obsCh := make(chan []*Observation, 1)
	go func() { obsCh <- runAll(c, elkBin, insts) }()
	devSets := deviationSets(c)
	allPred, res, err := predict(c, specDir, insts, devSets)
	if err != nil {
		return err
	}
	pred := allPred[""]
	if !res.OK {
		return core.Inconclusivef("TLC replay model: %s %s\n%s", res.Verdict, res.What, tail(res.ErrorTrace, 3000))
	}
	c.CovAdd("states", int(res.Distinct))
	c.CovAdd("transitions", int(res.Generated))
	for _, in := range insts {
		if pred[in.ID] == nil {
			return core.Inconclusivef("no prediction for instance %d", in.ID)
		}
	}

	// ---- 3. the real binary
	obs := <-obsCh
	c.Logf("real `elk test` runs: %d in %.0fs", len(obs), time.Since(t1).Seconds())

	// ---- 4. compare
	type mism struct {
		in  *Instance
		o   *Observation
		rec map[string]any
	}
	var mismatches []mism
	agree := 0
	classes := map[string]int{}
	for i := range insts {
		in := &insts[i]
		o := obs[i]
		p := pred[in.ID]
		if o.Broken != "" {
			return core.Inconclusivef("instance %d could not be run: %s", in.ID, o.Broken)
		}
		rec := map[string]any{
			"args": cliArgs(in), "files": in.Files, "filters": in.Filters, "outcomes": in.Outcomes,
			"sources": sources(in), "predicted": p, "observed": o, "deviation": "",
		}
		if o.Crash != "" {
			rec["kind"] = "crash"
			rec["summary"] = fmt.Sprintf("elk test %s: %s", strings.Join(cliArgs(in), " "), firstLine(o.Crash))
			mismatches = append(mismatches, mism{in, o, rec})
			continue
		}
		if d := diff(p, o); d != "" {
			rec["kind"] = "mismatch"
			rec["summary"] = fmt.Sprintf("elk test %s on %v: %s", strings.Join(cliArgs(in), " "), in.Files, d)
			mismatches = append(mismatches, mism{in, o, rec})
			continue
		}
		agree++
		cl := fmt.Sprintf("%d filters, %d selected", len(in.Filters), len(p.Ran))
		classes[cl]++
		if classes[cl] == 1 && len(classes) <= 6 {
			c.Sample(map[string]any{"files": in.Files, "args": cliArgs(in), "ran": sorted(o.Ran), "exit": o.Exit})
		}
	}
	// explain differences by the specification's named deviations (the ones known findings refer
	// to): the same TLC run predicted every instance under each of them, smallest set first
	for _, m := range mismatches {
		if m.rec["kind"] == "mismatch" {
			for _, devs := range devSets {
				k := strings.Join(devs, "+")
				if p := allPred[k][m.in.ID]; p != nil && diff(p, m.o) == "" {
					m.rec["deviation"] = k
					m.rec["deviating_prediction"] = p
					break
				}
			}
		}
		c.Violation(m.rec)
	}
	c.Cov("traces_validated_against_impl", len(insts))
	c.Cov("instances_agreeing_with_reference", agree)
	c.Cov("instances_differing", len(mismatches))
	c.Cov("classes_compared", classes)
	c.Logf("compared %d instances with the real binary: %d agree with the reference, %d differ, %d violations", len(insts), agree, len(mismatches), c.Violations())
	if agree == 0 && c.Violations() == 0 {
		return core.Inconclusivef("no instance agreed with the reference: the binding is probably broken")
	}
	return nil
}

// deviationSets lists the subsets of the specification's deviations that known findings name
// ("a" or "a+b"), singletons first.
func deviationSets(c *core.Ctx) [][]string {
	var out [][]string
	for _, d := range c.KnownDeviations() {
		l := strings.Split(d, "+")
		sort.Strings(l)
		out = append(out, l)
	}
	sort.SliceStable(out, func(i, j int) bool { return len(out[i]) < len(out[j]) })
	return out
}

// sample draws n family instances, evenly over strata (filter kinds x empty/non-empty selection x
// whether a path line names the first line of a suite), and plans an outcome for every case.
func sample(c *core.Ctx, family []Instance, n int) []Instance {
	sort.Slice(family, func(i, j int) bool { return instKey(&family[i]) < instKey(&family[j]) }) // TLC's order depends on its workers
	strata := map[string][]int{}
	var names []string
	for i := range family {
		k := stratum(&family[i])
		if _, ok := strata[k]; !ok {
			names = append(names, k)
		}
		strata[k] = append(strata[k], i)
	}
	sort.Strings(names)
	for _, k := range names {
		l := strata[k]
		c.Rand.Shuffle(len(l), func(i, j int) { l[i], l[j] = l[j], l[i] })
	}
	var out []Instance
	for round := 0; len(out) < n; round++ {
		took := false
		for _, k := range names {
			if round < len(strata[k]) && len(out) < n {
				out = append(out, family[strata[k][round]])
				took = true
			}
		}
		if !took {
			break
		}
	}
	outcomes := []string{"pass", "pass", "fail", "error"}
	for i := range out {
		in := &out[i]
		in.ID = i + 1
		in.Outcomes = make([][]string, len(in.Files))
		// one instance in three: all cases pass (exit status 0 must be reachable with cases run)
		allPass := c.Rand.Intn(3) == 0
		for f, toks := range in.Files {
			in.Outcomes[f] = make([]string, len(toks))
			for t, tok := range toks {
				if tok == "C" {
					if allPass {
						in.Outcomes[f][t] = "pass"
					} else {
						in.Outcomes[f][t] = outcomes[c.Rand.Intn(len(outcomes))]
					}
				}
			}
		}
	}
	return out
}

func instKey(in *Instance) string {
	b, _ := json.Marshal([]any{in.Files, in.Filters})
	return string(b)
}

func stratum(in *Instance) string {
	var k []string
	for _, f := range in.Filters {
		s := f.Kind
		if f.Kind == "path" {
			switch {
			case f.Line == 0:
				s += "-noline"
			default:
				if hit, outer := suiteStartsAt(in, f); hit && outer {
					s += "-outersuiteline"
				} else if hit {
					s += "-suiteline"
				}
			}
			if f.File == "*" {
				s += "-glob"
			}
		}
		k = append(k, s)
	}
	sel := "none"
	if len(in.Sel) > 0 {
		sel = "some"
	}
	// a case declared inside an outer suite AFTER a nested suite has ended: state written while the
	// nested suite was open must not leak into it (own stratum, so that the sample always has some)
	tail := 0
	for _, toks := range in.Files {
		depth, closedNested := 0, false
		for _, t := range toks {
			switch t {
			case "D":
				depth++
			case "E":
				if depth >= 2 {
					closedNested = true
				}
				if depth == 1 {
					closedNested = false
				}
				depth--
			case "C":
				if depth >= 1 && closedNested {
					tail = 1
				}
			}
		}
	}
	return fmt.Sprintf("%v/%s/files=%d/tail=%d", k, sel, len(in.Files), tail)
}

// suiteStartsAt reports whether the path filter's line is the first line of a suite, and if so
// whether that suite contains a nested suite ("outer").
func suiteStartsAt(in *Instance, f Filter) (bool, bool) {
	hit, outer := false, false
	for fi, toks := range in.Files {
		if f.File != "*" && f.File != string(rune('a'+fi)) {
			continue
		}
		line := 2
		for i, t := range toks {
			if t == "D" && line == f.Line {
				hit = true
				depth := 0
				for _, u := range toks[i+1:] {
					if u == "D" {
						if depth == 0 {
							outer = true
						}
						depth++
					} else if u == "E" {
						if depth == 0 {
							break
						}
						depth--
					}
				}
			}
			if t == "C" {
				line += 3
			} else {
				line++
			}
		}
	}
	return hit, outer
}

// predict runs the replay model on the instances: the prediction of each under the intended runner
// (key "") and under every deviation set (key "a+b").
func predict(c *core.Ctx, specDir string, insts []Instance, devSets [][]string) (map[string]map[int]*Prediction, *tlc.Result, error) {
	var nd strings.Builder
	for _, in := range insts {
		cp := in
		cp.Sel = nil
		b, _ := json.Marshal(cp)
		nd.Write(b)
		nd.WriteByte('\n')
	}
	pred := map[string]map[int]*Prediction{}
	var bad error
	res, err := tlc.Run(tlc.Opts{SpecDir: specDir, Module: "MC_TestRunnerReplay", Cfg: "replay.cfg", Scratch: c.Scratch, Workers: c.Workers, Timeout: 40 * time.Minute,
		Extra: map[string][]byte{"replay.cfg": []byte(replayCfg(devSets)), "instances.ndjson": []byte(nd.String())},
		OnGen: func(rec []byte) {
			var p Prediction
			if err := json.Unmarshal(rec, &p); err != nil {
				bad = err
				return
			}
			k := strings.Join(sorted(p.Dev), "+")
			if pred[k] == nil {
				pred[k] = map[int]*Prediction{}
			}
			// one record per run ORDER: the observation must not depend on it
			if q := pred[k][p.ID]; q != nil && q.key() != p.key() {
				bad = fmt.Errorf("instance %d: the model's observation depends on the run order: %s vs %s", p.ID, q.key(), p.key())
			}
			pred[k][p.ID] = &p
		}})
	if err != nil {
		return nil, nil, err
	}
	if bad != nil {
		return nil, nil, core.Inconclusivef("replay model: %v", bad)
	}
	if res.Verdict != "ok" && res.Verdict != "invariant" {
		return nil, nil, core.Inconclusivef("TLC replay run failed: %s %s\n%s", res.Verdict, res.What, tail(res.Output, 2000))
	}
	return pred, res, nil
}

func buildElk(out string) error {
	cmd := exec.Command("go", "build", "-o", out, "./cmd/elk")
	cmd.Dir = core.RepoRoot
	cmd.Env = append(os.Environ(), "GOFLAGS=", "GOPROXY=off", "GOTOOLCHAIN=auto")
	b, err := cmd.CombinedOutput()
	if err != nil {
		return fmt.Errorf("%v: %s", err, tail(string(b), 2000))
	}
	return nil
}

func runAll(c *core.Ctx, elkBin string, insts []Instance) []*Observation {
	obs := make([]*Observation, len(insts))
	next := make(chan int, len(insts))
	for i := range insts {
		next <- i
	}
	close(next)
	var wg sync.WaitGroup
	for w := 0; w < c.Workers; w++ {
		wg.Add(1)
		go func() {
			defer wg.Done()
			for i := range next {
				obs[i] = runReal(c.Scratch, elkBin, &insts[i])
			}
		}()
	}
	wg.Wait()
	return obs
}

// diff compares a prediction with an observation of the real binary; "" = equal.
func diff(p *Prediction, o *Observation) string {
	var d []string
	if fmt.Sprint(sorted(p.Ran)) != fmt.Sprint(sorted(o.Ran)) {
		d = append(d, fmt.Sprintf("cases run %v, specified %v", sorted(o.Ran), sorted(p.Ran)))
	}
	if p.Exit != o.Exit {
		d = append(d, fmt.Sprintf("exit status %d, specified %d", o.Exit, p.Exit))
	}
	bad := append(append([]string{}, p.Failed...), p.Errors...)
	if fmt.Sprint(sorted(bad)) != fmt.Sprint(sorted(o.Reported)) {
		d = append(d, fmt.Sprintf("failures reported for %v, specified %v", sorted(o.Reported), sorted(bad)))
	}
	if o.Summary != nil {
		if o.Summary[0] != len(o.Ran) {
			d = append(d, fmt.Sprintf("summary counts %d cases, %d bodies ran", o.Summary[0], len(o.Ran)))
		}
		if o.Summary[3] != len(p.Failed) || o.Summary[4] != len(p.Errors) {
			d = append(d, fmt.Sprintf("summary counts %d failed %d errors, specified %d and %d", o.Summary[3], o.Summary[4], len(p.Failed), len(p.Errors)))
		}
	} else {
		d = append(d, "no summary line")
	}
	return strings.Join(d, "; ")
}

func firstLine(s string) string {
	if i := strings.IndexByte(s, '\n'); i >= 0 {
		return s[:i]
	}
	return s
}

func tail(s string, n int) string {
	if len(s) <= n {
		return s
	}
	return s[len(s)-n:]
}
