package c34

import (
	"bytes"
	"context"
	"fmt"
	"os"
	"os/exec"
	"path/filepath"
	"regexp"
	"strconv"
	"strings"
	"time"

	"elkverif/internal/core"
)

// The concrete syntax of an instance. Line numbers are the model's: line 1 is the header, "D" and
// "E" take one line, "C" three.
const header = `import "std/test"; using Std::Test::*; using Std::Test::Assertions::*`

// The main file owns the recorder: every case body appends its name to Rec::RAN, and the root
// suite's after_all hook (which runs with the real stdout; case output is captured by the runner
// and shown only for failures) prints them. The report of the runner is a second witness.
const mainFile = header + `
module Rec
  const RAN: ArrayList[String] = ArrayList::[String]()
end
after_all() ->
  println ""
  for x in Rec::RAN
    println "@RAN:" + x + "@"
  end
end
`

func fileLetter(f int) string { return string(rune('a' + f)) }

func name(f int, tok string, i int) string {
	p := "s"
	if tok == "C" {
		p = "c"
	}
	return fmt.Sprintf("%s%s%d", p, fileLetter(f), i+1)
}

// sources renders the files of an instance.
func sources(in *Instance) map[string]string {
	out := map[string]string{}
	main := mainFile
	for f, toks := range in.Files {
		var b strings.Builder
		b.WriteString(header + "\n")
		depth := 0
		for i, t := range toks {
			ind := strings.Repeat("  ", depth)
			switch t {
			case "D":
				fmt.Fprintf(&b, "%sdescribe %q, ->\n", ind, name(f, t, i))
				depth++
			case "E":
				depth--
				fmt.Fprintf(&b, "%send\n", strings.Repeat("  ", depth))
			case "C":
				n := name(f, t, i)
				stmt := map[string]string{"pass": "assert!(true)", "fail": "assert!(false)", "error": "throw unchecked :boom"}[in.Outcomes[f][i]]
				fmt.Fprintf(&b, "%stest %q, ->\n%s  Rec::RAN << %q; %s\n%send\n", ind, n, ind, n, stmt, ind)
			}
		}
		fn := fileLetter(f) + ".elk.test"
		out[fn] = b.String()
		main += fmt.Sprintf("import \"./%s\"\n", fn)
	}
	out["main.elk.test"] = main
	return out
}

// cliArgs renders the filters in registration order: main.go registers --grep first, then every --path.
func cliArgs(in *Instance) []string {
	args := []string{"test", "--main", "main.elk.test"}
	for _, f := range in.Filters {
		switch f.Kind {
		case "grep":
			args = append(args, "--grep", strings.Join(f.Words, "|"))
		case "path":
			p := "**/" + f.File + ".elk.test"
			if f.Line > 0 {
				p += ":" + strconv.Itoa(f.Line)
			}
			args = append(args, "--path", p)
		}
	}
	return args
}

// Observation is what one run of the real binary showed.
type Observation struct {
	Ran      []string `json:"ran"`      // case bodies executed, with multiplicity
	Reported []string `json:"reported"` // cases listed under "Failures:"
	Summary  []int    `json:"summary"`  // cases, passed, skipped, failed, errors
	Exit     int      `json:"exit"`
	Output   string   `json:"output,omitempty"`
	Crash    string   `json:"crash,omitempty"`  // Go panic / diagnostics / signal
	Broken   string   `json:"broken,omitempty"` // harness-level problem
}

var (
	reRan     = regexp.MustCompile(`@RAN:(\w+)@`)
	reSummary = regexp.MustCompile(`Summary: (\d+) cases, (\d+) passed, (\d+) skipped, (\d+) failed, (\d+) errors`)
	reFailure = regexp.MustCompile(`(?m)> (c[a-c]\d):$`)
)

func runReal(scratch, elkBin string, in *Instance) *Observation {
	dir, err := os.MkdirTemp(scratch, "case-")
	if err != nil {
		return &Observation{Broken: err.Error()}
	}
	defer os.RemoveAll(dir)
	for fn, src := range sources(in) {
		if err := os.WriteFile(filepath.Join(dir, fn), []byte(src), 0o644); err != nil {
			return &Observation{Broken: err.Error()}
		}
	}
	ctx, cancel := context.WithTimeout(context.Background(), 3*time.Minute)
	defer cancel()
	cmd := exec.CommandContext(ctx, elkBin, cliArgs(in)...)
	cmd.Dir = dir
	cmd.Env = append(os.Environ(), "ELKPATH="+core.RepoRoot, "NO_COLOR=1")
	var out bytes.Buffer
	cmd.Stdout = &out
	cmd.Stderr = &out
	err = cmd.Run()
	o := &Observation{}
	text := out.String()
	if ctx.Err() != nil {
		return &Observation{Broken: "elk test did not finish within 3 minutes: " + tail(text, 500)}
	}
	if err != nil {
		ee, ok := err.(*exec.ExitError)
		if !ok {
			return &Observation{Broken: err.Error()}
		}
		o.Exit = ee.ExitCode()
	}
	for _, m := range reRan.FindAllStringSubmatch(text, -1) {
		o.Ran = append(o.Ran, m[1])
	}
	for _, m := range reFailure.FindAllStringSubmatch(text, -1) {
		o.Reported = append(o.Reported, m[1])
	}
	if m := reSummary.FindStringSubmatch(text); m != nil {
		for _, s := range m[1:] {
			n, _ := strconv.Atoi(s)
			o.Summary = append(o.Summary, n)
		}
	}
	switch {
	case strings.Contains(text, "panic:") || strings.Contains(text, "goroutine ") || o.Exit < 0 || o.Exit > 1:
		o.Crash = "the runner crashed: " + tail(text, 1500)
	case strings.Contains(text, "[FAIL]") && o.Summary == nil:
		// the generated files did not type check: the emitter is wrong, not the runner
		return &Observation{Broken: "generated test files rejected: " + tail(text, 800)}
	}
	if o.Summary == nil || o.Crash != "" || len(text) < 600 {
		o.Output = tail(text, 1500)
	}
	return o
}
