package all

import _ "elkverif/prop/c11"
