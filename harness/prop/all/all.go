// Package all links every property adapter into vcheck. One file per property (cNN.go), so that
// adapters can be added independently.
package all
