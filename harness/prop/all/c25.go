package all

import _ "elkverif/prop/c25"
