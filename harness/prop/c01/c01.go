// Package c01: programs the type checker accepts never crash the interpreter. The ElkCore machine
// has exactly two terminal outcomes, a value or an uncaught Elk error with a stack trace; the
// real run of every accepted program must end in one of them: never a Go panic, a Go fatal error
// (process death) or a hang. The corpus is the union of the program families of C13, C14, C15 and
// C32 (TLC executes each program; a model run that itself ends in a throw predicts elk_error,
// otherwise ok), and the std-call sweep shared with C28 (every declared method of the pure std
// classes with pooled, checker-accepted arguments), whose outcome class is the observation.
package c01

import (
	"fmt"
	"strings"
	"time"

	"elkverif/internal/core"
	. "elkverif/internal/elkcore"
	"elkverif/prop/c02"
	"elkverif/prop/c13"
	"elkverif/prop/c14"
	"elkverif/prop/c15"
)

func init() {
	core.Register(&core.Check{ID: "C01", Level: "model_checking", Run: run})
}

func run(c *core.Ctx) error {
	var progs []M
	id := 0
	// control flow: every chain to depth 2, one seeded exit each (thorough: all exits)
	for d := 1; d <= 2; d++ {
		for _, ch := range c14.AllChains(d) {
			exs := c14.ExitsFor(ch)
			if !c.Thorough() {
				exs = []c14.Exit{exs[c.Rand.Intn(len(exs))]}
			}
			for _, ex := range exs {
				id++
				progs = append(progs, c14.Spine(id, ch, ex))
			}
		}
	}
	d3 := c14.AllChains(3)
	for _, i := range c.SampleIdx(len(d3), c.Pick(200, 3000)) {
		exs := c14.ExitsFor(d3[i])
		id++
		progs = append(progs, c14.Spine(id, d3[i], exs[c.Rand.Intn(len(exs))]))
	}
	cl := c13.Corpus(c.Rand, c.Pick(150, 2000), id+1, 400)
	progs = append(progs, cl...)
	id += len(cl)
	ga := c15.Corpus(c, 1, c.Pick(20, 300), id+1)
	progs = append(progs, ga...)
	id += len(ga)
	MaxSteps = 20000
	c.Logf("instance: %d programs (control flow, closures, generators/async)", len(progs))

	batch := 20
	for i := 0; i < len(progs); i += batch {
		j := i + batch
		if j > len(progs) {
			j = len(progs)
		}
		EmitBatch(progs[i:j])
	}
	mr, err := Predict(c, progs, "C14.cfg", MaxSteps, 15*time.Minute)
	if err != nil {
		return err
	}
	c.Cov("states", int(mr.TLC.Distinct))
	c.Cov("transitions", int(mr.TLC.Generated))
	c.Cov("spec", "spec/ElkCore/ElkCore.tla: terminal outcomes are Finish(ret) and Finish(thrown); nothing else exists")
	pool := c.NewPool(c.Workers)
	real := RunReal(c, pool, progs, batch, nil)
	okRuns, rejected := 0, 0
	for _, p := range progs {
		pid := p["id"].(int)
		rr := real[pid]
		if rr.Broken != "" {
			return core.Inconclusivef("worker problem: %s", rr.Broken)
		}
		rec := map[string]any{"desc": p["desc"], "tags": p["tags"], "program": p, "source": EmitBatch([]M{p})}
		switch {
		case rr.Res.GoPanic != "":
			rec["kind"] = "go_panic"
			rec["panic"] = rr.Res.GoPanic
			rec["summary"] = fmt.Sprintf("Go panic (%s) in an accepted program: %v: %s", rr.Res.PanicStage, p["desc"], strings.SplitN(rr.Res.GoPanic, "\n", 2)[0])
			c.Violation(rec)
		case rr.Res.Hung:
			rec["kind"] = "hang"
			rec["summary"] = fmt.Sprintf("an accepted, terminating program does not finish: %v", p["desc"])
			c.Violation(rec)
		case !rr.Res.Accepted:
			rejected++
		default:
			okRuns++
			if okRuns%499 == 1 {
				c.Sample(map[string]any{"desc": p["desc"], "outcome": rr.Res.Outcome(), "model_outcome": mr.Obs[pid].Outcome.K})
			}
		}
	}
	c.Logf("programs: %d end in a value or an Elk error, %d rejected by the checker, %d violations", okRuns, rejected, c.Violations())

	// ---- std-call sweep (shared with C28): outcome class of every checker-accepted call
	sw, err := c02.RunStdSweep(c, pool, c.Pick(2, 4), c.Pick(2500, 0))
	if err != nil {
		return err
	}
	calls, crashes := 0, 0
	seen := map[string]bool{}
	for i := range sw.Results {
		r := &sw.Results[i]
		call := &sw.Calls[i]
		if !r.Accepted || r.NoRun {
			continue
		}
		calls++
		if r.Panic == "" && !r.Hung {
			continue
		}
		crashes++
		what := panicClass(r)
		key := call.NS + "#" + call.Method + " " + what
		if seen[key] {
			continue
		}
		seen[key] = true
		c.Violation(map[string]any{"kind": "go_panic", "class": call.NS, "method": call.Method, "what": what, "call": call.Expr, "panic": r.Panic, "hung": r.Hung,
			"summary": fmt.Sprintf("%s: %s instead of a result or an Elk error: %.200s", call.Expr, what, r.Panic)})
	}
	c.Cov("traces_validated_against_impl", okRuns)
	c.Cov("programs", len(progs))
	c.Cov("std_calls_run", calls)
	c.Cov("std_calls_crashing", crashes)
	c.Logf("std sweep: %d accepted calls run, %d crash or hang (all must be recorded findings)", calls, crashes)
	if okRuns == 0 {
		return core.Inconclusivef("nothing ran")
	}
	return nil
}

// panicClass classifies a Go panic / hang of a call by its cause (same classes as C28).
func panicClass(r *c02.CallResult) string {
	switch {
	case r.Hung && r.Panic == "":
		return "hang"
	case strings.Contains(r.Panic, "tried to call an invalid method: <nil>"):
		return "invalid method <nil>"
	case strings.Contains(r.Panic, "nil pointer dereference"):
		return "nil pointer dereference"
	case strings.Contains(r.Panic, "worker process died"):
		return "process died"
	case strings.Contains(r.Panic, "uncaught:"):
		return "error escaped catch"
	case strings.Contains(r.Panic, "interface conversion"):
		return "interface conversion"
	case strings.Contains(r.Panic, "index out of range"):
		return "index out of range"
	}
	return "go panic"
}
