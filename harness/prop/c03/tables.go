package c03

import (
	"sort"

	"github.com/elk-language/elk/token"
)

// Kind is a token kind of the abstract input space with its canonical spelling.
type Kind struct {
	Name string
	Text string
}

// coreKinds is the small alphabet enumerated to greater length (DESIGN.md §4 C03).
var coreKinds = []Kind{
	{"pipe", "|"}, {"or_or", "||"}, {"arrow", "->"}, {"lparen", "("}, {"rparen", ")"}, {"lbracket", "["},
	{"rbracket", "]"}, {"lbrace", "{"}, {"rbrace", "}"}, {"comma", ","}, {"colon", ":"}, {"colon_eq", ":="},
	{"eq", "="}, {"ident", "a"}, {"const", "Foo"}, {"int", "1"}, {"string", `"s"`}, {"do", "do"}, {"end", "end"},
	{"if", "if"}, {"def", "def"}, {"class", "class"}, {"dot", "."}, {"star", "*"}, {"newline", "\n"},
}

var punctuation = []string{
	"|", "||", "->", "(", ")", "[", "]", "{", "}", ",", ":", ":=", "=", ".", "*", "\n", ";", "=>", "<", ">", "<=", ">=",
	"==", "!=", "===", "!==", "=~", "!~", "+", "-", "/", "%", "**", "++", "--", "&", "&&", "&~", "&!", "|>", "|!", "^", "~", "~>",
	"<<", ">>", "<<<", ">>>", "<:", ":>", "<=>", "<-", "<<:", ":>>", "??", "?", "?.", "?..", "..", "...", "<..", "<.<", "..<",
	"::", "::[", "+=", "-=", "*=", "/=", "**=", "%=", "&=", "|=", "^=", "<<=", ">>=", "<<<=", ">>>=", "&&=", "||=", "??=",
	"!", "!{", "@{", "%[", "%{", "^[", "?[", "%|", "@", "$", "§", "\\", "#", "+@", "-@", "<<@", "%=",
}

var literals = []Kind{
	{"ident", "a"}, {"ident_b", "b"}, {"priv_ident", "_a"}, {"const", "Foo"}, {"priv_const", "_Foo"}, {"ivar", "@a"},
	{"dollar_ident", "$a"}, {"int", "1"}, {"int_i8", "1i8"}, {"int_u64", "1u64"}, {"float", "1.5"}, {"bigfloat", "1.5bf"},
	{"float32", "1f32"}, {"hex", "0xff"}, {"string", `"s"`}, {"raw_string", `'s'`}, {"interp_string", `"a${b}c"`},
	{"inspect_interp", `"a#{b}"`}, {"interp_local", `"$a"`}, {"char", "`c`"}, {"raw_char", "r`c`"}, {"symbol", ":a"},
	{"quoted_symbol", `:"a b"`}, {"regex", "%/a+/i"}, {"regex_interp", "%/a${b}/"}, {"word_list", `\w[a b]`},
	{"sym_tuple", "%s[a b]"}, {"hex_set", "^x[ff 1]"}, {"bin_list", `\b[1 0]`}, {"doc_comment", "##[ d ]##"},
	{"comment", "# c\n"}, {"block_comment", "#[ c ]#"}, {"label", "$a:"}, {"unterminated_string", `"s`},
	{"bad_escape", `"\q"`}, {"unterminated_regex", "%/a"}, {"bad_char", "`ab`"}, {"invalid_byte", "\xff"},
	{"short_unquote", "!{"}, {"setter_name", "a="}, {"macro_call", "a!"}, {"quoted_ident", `$"a b"`},
}

// fullKinds: every keyword of token.Keywords, every operator/punctuation spelling, the literal forms.
func fullKinds() []Kind {
	var ks []Kind
	var kw []string
	for k := range token.Keywords {
		kw = append(kw, k)
	}
	sort.Strings(kw)
	for _, k := range kw {
		ks = append(ks, Kind{"kw_" + k, k})
	}
	for _, p := range punctuation {
		ks = append(ks, Kind{"op " + p, p})
	}
	ks = append(ks, literals...)
	return ks
}

// mediumKinds: the alphabet for length-3 enumeration: the keywords that open or separate syntactic
// forms, the brackets and the operators with special parser paths, a few literals.
var mediumTexts = []string{
	"|", "||", "->", "(", ")", "[", "]", "{", "}", ",", ":", ":=", "=", ".", "*", "\n", "=>", "<", ">", "-", "&", "?", "!",
	"..", "::", "?.", "%[", "%{", "^[", "!{", "@", "a", "Foo", "@a", "1", `"s"`, ":a", "%/a/", "$a:", "`ab`",
	"do", "end", "if", "else", "then", "def", "class", "module", "var", "val", "for", "in", "switch", "case", "catch",
	"fornum", "loop", "return", "macro", "quote", "unquote", "sig", "init", "type", "typedef", "using", "as", "self",
	"async", "await", "go", "try", "must", "new", "enum", "struct", "interface", "mixin", "include", "import", "extend",
	"where", "of", "with", "is", "match", "alias", "getter", "const", "singleton", "abstract", "throw", "break",
}

func mediumKinds() []Kind {
	var ks []Kind
	for _, t := range mediumTexts {
		ks = append(ks, Kind{t, t})
	}
	return ks
}

// regexAtoms: building blocks of regex literal bodies.
const regexCoreN = 22

// the first regexCoreN atoms form the core regex alphabet (enumerated to greater length)
var regexAtoms = []string{
	"a", ".", "*", "+", "?", "|", "(", ")", "[", "]", "^", "$", "{", "}", ",", "1", `\`, `\d`, `\p{`, `\x`, "#", "-",
	`\w`, `\pL`, `\P{Latin}`, `\x{`, `\xff`, `\u`, "é", `\U`, "(?:", "(?<", "(?P<", ">", `\b`, `\A`, `\z`, "[[:alpha:]]", "[:", ":]", "[^",
	`\Q`, `\E`, "\xff", " ", "\n", `\1`, `\o`, `\o{`, `\c`, `\cA`, `\h`, `\N`, "(?i)", "(?", "{1,2}", "{,", "*?", "++", `\/`, "/",
	`\e`, `\a`, `\-`, "&&", "_",
}

// corpus: syntactically rich, valid programs; their prefixes and one-token edits are what a user
// types into the REPL.
var corpus = []string{
	// a generic class that structurally implements a generic interface through a polymorphically recursive method:
	// the subtype check must terminate although every unfolding has a bigger type argument
	"class Foo[T]\n  def wrap: Foo[Foo[T]] then loop; end\nend\ninterface Bar[T]\n  def wrap: Bar[Bar[T]]; end\nend\nvar a: Bar[Int] = Foo::[Int]()\n",
	"f := |a: Int|: Int -> a + 1\nf.(2)\n",
	"f := || -> 1\nf.()\n",
	"g := |a| -> a\n",
	"def foo(a: Int, b: String = \"x\"): String then b * a\nfoo(1)\n",
	"class Foo < Object\n  var @a: Int\n  init(@a); end\n  def bar: Int\n    @a + 1\n  end\nend\nFoo(1).bar\n",
	"module M\n  def self.x; end\nend\n",
	"a := [1, 2, 3]\nfor i in a\n  println i.to_string\nend\n",
	"x := 1\nif x > 0\n  println \"pos\"\nelsif x < 0\n  println \"neg\"\nelse\n  println \"zero\"\nend\n",
	"switch 3\ncase 1 then println \"a\"\ncase > 2 then println \"b\"\ncase [a, *b] then nil\ncase {k: 1, v} then nil\nelse println \"c\"\nend\n",
	"do\n  throw unchecked :a\ncatch :a\n  println \"caught\"\nfinally\n  println \"fin\"\nend\n",
	"$l: loop\n  break[l] 1\nend\n",
	"fornum i := 0; i < 2; i = i + 1\n  continue\nend\n",
	"h := { a: 1, \"b\" => 2, 3 => [4, %[5]] }\nr := %{ x: 1 }\nt := %[1, 2.5, 'c']\ns := ^[1, 2]\n",
	"s := \"a ${1 + 2} b #{:c} $x\"\n",
	"r := %/a+(b|c)[d-f]\\d${x}/im\n\"abc\" =~ r\n",
	"w := \\w[foo bar]\ny := %s[a b]\nz := ^x[ff 1e]\n",
	"v := 1..5\nu := 1<.<5\nq := ...5\n",
	"var a: Int? = nil\nb := a ?? 3\nc := a?.to_string\nd := a as Int\n",
	"typedef Foo = Int | String\ndef id[T](a: T): T then a\nid::[Int](1)\n",
	"interface Bar\n  sig baz(a: Int): String\nend\nmixin Qux\n  def q; end\nend\nclass C\n  include Qux\n  implement Bar\n  def baz(a: Int): String then \"\"\nend\n",
	"macro m(a: Elk::AST::ExpressionNode): Elk::AST::ExpressionNode\n  quote\n    1 + !{a}\n  end\nend\nm!(2)\n",
	"x := quote_expr 1 + 2\ny := quote_type Int | String\nz := quote_pattern [a, b]\n",
	"async def af: Int then 1\np := af()\nawait p\n",
	"go println(\"x\")\n",
	"struct Pt\n  x: Int\n  y: Int = 2\nend\n",
	"enum E\n  A\n  B\nend\n",
	"using Std::String::*\nusing Std::{Int, Float as F}\nimport \"./foo\"\n",
	"a, b := [1, 2]\n[c, *d] := [1, 2, 3]\n%{e, f: g} := %{e: 1, f: 2}\n",
	"println 1 |> to_string\nfoo.bar.baz(1, b: 2) do |x| x end\nfoo&.bar ||= 3\n",
	"1 + 2 * 3 ** 4 - -5 % 6 <=> 7 <<< 8 && !true || nil ?? false\n",
	"a = b = c += 1\nx.y = 2\nz[0] = 3\n",
	"getter foo: Int\nsetter bar: String\nattr baz: Float\nalias q foo\nconst K: Int = 3\nval w = 2\n",
	"sealed abstract primitive noinit class Z; end\nsingleton\n  def s; end\nend\n",
	"def +(other: Int): Int then 1\ndef []=(k: Int, v: Int); end\ndef foo=(v: Int); end\n",
	"must nil\ntry foo()\ntypeof 1\nunsafe do 1 end\n",
	"while true\n  break\nend until false\nprintln 1 if true\nprintln 2 unless false\n",
	"##[ doc ]##\ndef documented; end # trailing\n#[ block ]#\n",
	"extend where T < Int\n  def x; end\nend\n",
	"a := 1 as Int\nb := a is Int\nc := a <: Int\nd := a :> Int\n",
	"f := |a, b = 2, *c, **d| -> a\n",
}
