// Package c03: the front end is total: every input gets diagnostics, never a crash or a hang.
//
// spec/Frontend is the bounded-exhaustive input space (TLC enumerates it and hands every input to
// this adapter) and the outcome model of the front-end stages. Every input is replayed into the real
// parser.Parse (+ the REPL's completeness questions), checker.CheckSource (macro expansion + type
// checking, for texts that parse without diagnostics), regex parser and regex.Transpile, and the
// diagnostics renderer, under recover() in crash-isolated workers with a time budget. The distinct
// observed (stage, outcome) sequences are validated against the outcome model (FrontendTrace).
package c03

import (
	"encoding/json"
	"fmt"
	"path/filepath"
	"sort"
	"strings"
	"time"

	"github.com/elk-language/elk/lexer"

	"elkverif/internal/core"
	"elkverif/internal/tlc"
	"elkverif/prop/c04"
)

func init() {
	core.Register(&core.Check{ID: "C03", Level: "exploration", Run: run})
}

func specDir() string { return filepath.Join(core.VerifRoot, "spec", "Frontend") }

type genInput struct {
	Kind string `json:"kind"`
	Fam  string `json:"fam"`
	Seq  []int  `json:"seq"`
	Prog int    `json:"prog"`
	Op   string `json:"op"`
	At   int    `json:"at"`
}

type item struct {
	in   genInput
	text string
	note string // "" or "sampled beyond the exhaustive bound"
}

func (it *item) describe() map[string]any {
	m := map[string]any{"kind": it.in.Kind, "text": fmt.Sprintf("%q", it.text)}
	switch it.in.Kind {
	case "toks", "regex", "bytes":
		m["seq"] = it.in.Seq
		if it.in.Fam != "" {
			m["family"] = it.in.Fam
		}
	case "mut":
		m["program"] = it.in.Prog
		m["edit"] = fmt.Sprintf("%s at token %d", it.in.Op, it.in.At)
	}
	return m
}

type progToks struct {
	src  string
	s, e []int // byte spans of its tokens
}

func lexCorpus() []progToks {
	var out []progToks
	for _, src := range corpus {
		p := progToks{src: src}
		for _, t := range lexer.Lex(src) {
			sp := t.Span()
			if sp.EndPos.ByteOffset < sp.StartPos.ByteOffset || sp.EndPos.ByteOffset >= len(src) {
				continue
			}
			p.s = append(p.s, sp.StartPos.ByteOffset)
			p.e = append(p.e, sp.EndPos.ByteOffset)
		}
		out = append(out, p)
	}
	return out
}

func (p *progToks) edit(op string, at int) (string, bool) {
	i := at - 1
	if i < 0 || i >= len(p.s) {
		return "", false
	}
	tok := func(k int) string { return p.src[p.s[k] : p.e[k]+1] }
	switch op {
	case "prefix":
		return p.src[:p.e[i]+1], true
	case "delete":
		return p.src[:p.s[i]] + p.src[p.e[i]+1:], true
	case "dup":
		return p.src[:p.e[i]+1] + " " + tok(i) + p.src[p.e[i]+1:], true
	case "swap":
		if i+1 >= len(p.s) || p.s[i+1] <= p.e[i] {
			return "", false
		}
		return p.src[:p.s[i]] + tok(i+1) + p.src[p.e[i]+1:p.s[i+1]] + tok(i) + p.src[p.e[i+1]+1:], true
	}
	return "", false
}

func run(c *core.Ctx) error {
	full, medium := fullKinds(), mediumKinds()
	var rxAll, rxCore []Kind
	for i, a := range regexAtoms {
		rxAll = append(rxAll, Kind{a, a})
		if i < regexCoreN {
			rxCore = append(rxCore, Kind{a, a})
		}
	}
	var byteKinds []Kind
	for _, a := range c04.CoreAtomTexts() {
		byteKinds = append(byteKinds, Kind{a, a})
	}
	families := []struct {
		name, kind string
		kinds      []Kind
		n          int
	}{
		{"full", "toks", full, 2},
		{"medium", "toks", medium, c.Pick(2, 3)},
		{"core", "toks", coreKinds, c.Pick(3, 4)},
		{"regex_all", "regex", rxAll, 2},
		{"regex_core", "regex", rxCore, c.Pick(3, 4)},
		{"bytes", "bytes", byteKinds, c.Pick(3, 4)},
	}
	famKinds := map[string][]Kind{}
	var famDefs, famText []string
	for _, f := range families {
		famKinds[f.name] = f.kinds
		famDefs = append(famDefs, fmt.Sprintf("[name |-> %q, kind |-> %q, k |-> %d, n |-> %d]", f.name, f.kind, len(f.kinds), f.n))
		famText = append(famText, fmt.Sprintf("%s (%s, %d symbols) to length %d", f.name, f.kind, len(f.kinds), f.n))
	}
	progs := lexCorpus()
	var progLens []string
	for _, p := range progs {
		progLens = append(progLens, fmt.Sprint(len(p.s)))
	}
	mc := fmt.Sprintf(`---- MODULE MC_Frontend ----
EXTENDS Frontend
MCFamilies == <<%s>>
MCProgTokens == <<%s>>
====
`, strings.Join(famDefs, ",\n  "), strings.Join(progLens, ", "))

	// ---- 1. the outcome model itself (tiny instance: invariants + termination)
	res, err := tlc.Run(tlc.Opts{SpecDir: specDir(), Module: "MC_Pipe", Cfg: "FrontendPipe.cfg", Scratch: c.Scratch, Workers: 2, Timeout: 5 * time.Minute})
	if err != nil {
		return err
	}
	if !res.OK {
		return core.Inconclusivef("TLC on Frontend (pipeline model): verdict=%s %s\n%s", res.Verdict, res.What, tail(res.Output, 2000))
	}
	c.CovAdd("states", int(res.Distinct))
	c.CovAdd("transitions", int(res.Generated))

	// ---- 2. TLC enumerates the input space
	var items []*item
	var perr error
	t0 := time.Now()
	res, err = tlc.Run(tlc.Opts{
		SpecDir: specDir(), Module: "MC_Frontend", Cfg: "FrontendGen.cfg", Scratch: c.Scratch, Workers: c.Workers,
		Timeout: 20 * time.Minute, Extra: map[string][]byte{"MC_Frontend.tla": []byte(mc)},
		OnGen: func(rec []byte) {
			var g genInput
			if e := json.Unmarshal(rec, &g); e != nil {
				perr = fmt.Errorf("bad GEN record %s: %v", rec, e)
				return
			}
			it := &item{in: g}
			var sb strings.Builder
			switch g.Kind {
			case "toks", "regex", "bytes":
				ks := famKinds[g.Fam]
				for i, k := range g.Seq {
					if i > 0 && g.Kind == "toks" {
						sb.WriteByte(' ')
					}
					sb.WriteString(ks[k-1].Text)
				}
			case "mut":
				t, ok := progs[g.Prog-1].edit(g.Op, g.At)
				if !ok {
					return
				}
				sb.WriteString(t)
			default:
				perr = fmt.Errorf("unknown input kind %q", g.Kind)
				return
			}
			it.text = sb.String()
			items = append(items, it)
		},
	})
	if err != nil {
		return err
	}
	if perr != nil {
		return perr
	}
	if !res.OK {
		return core.Inconclusivef("TLC on Frontend (input space): verdict=%s %s\n%s", res.Verdict, res.What, tail(res.Output, 2000))
	}
	c.CovAdd("states", int(res.Distinct))
	c.CovAdd("transitions", int(res.Generated))
	c.Logf("TLC enumerated %d inputs (%d states) in %.1fs", len(items), res.Distinct, time.Since(t0).Seconds())
	// seeded inputs beyond the exhaustive bound: longer sequences over the core and medium alphabets
	nLong := c.Pick(20000, 300000)
	for k := 0; k < nLong; k++ {
		fam := "core"
		ks := coreKinds
		if k%3 == 0 {
			fam, ks = "medium", medium
		}
		n := 5 + c.Rand.Intn(6)
		g := genInput{Kind: "toks", Fam: fam}
		var sb strings.Builder
		for j := 0; j < n; j++ {
			x := c.Rand.Intn(len(ks))
			g.Seq = append(g.Seq, x+1)
			if j > 0 {
				sb.WriteByte(' ')
			}
			sb.WriteString(ks[x].Text)
		}
		items = append(items, &item{in: g, text: sb.String(), note: "seeded, beyond the exhaustive bound"})
	}
	c.Cov("instance", fmt.Sprintf("TLC-enumerated families: %s; %d corpus programs x {prefix, delete, dup, swap} at every token; regex bodies x %d flag sets; %d seeded token sequences of length 5..10",
		strings.Join(famText, "; "), len(progs), len(flagSets(c)), nLong))

	// ---- 3. replay into the real front end
	pool := c.NewPool(c.Workers)
	var srcItems, rxItems []*item
	for _, it := range items {
		if it.in.Kind == "regex" {
			rxItems = append(rxItems, it)
		} else {
			srcItems = append(srcItems, it)
		}
	}
	classes := map[string]*class{}
	groups := map[string]*group{}
	t1 := time.Now()
	parseOK, err := replay(c, pool, "src", srcItems, nil, 3000, 2000, classes, groups)
	if err != nil {
		return err
	}
	c.Logf("parser+REPL+report: %d texts in %.1fs, %d parse without diagnostics", len(srcItems), time.Since(t1).Seconds(), len(parseOK))
	t1 = time.Now()
	if _, err := replay(c, pool, "regex", rxItems, flagSets(c), 2000, 2000, classes, groups); err != nil {
		return err
	}
	c.Logf("regex parser+transpiler: %d bodies x %d flag sets in %.1fs", len(rxItems), len(flagSets(c)), time.Since(t1).Seconds())
	// checker stage: the error-free texts (all edits of corpus programs, a seeded sample of the rest), distinct texts only
	var checkItems []*item
	seen := map[string]bool{}
	var rest []*item
	for _, it := range parseOK {
		if seen[it.text] {
			continue
		}
		seen[it.text] = true
		if it.in.Kind == "mut" {
			checkItems = append(checkItems, it)
		} else {
			rest = append(rest, it)
		}
	}
	for _, i := range c.SampleIdx(len(rest), c.Pick(2500, 60000)) {
		checkItems = append(checkItems, rest[i])
	}
	// and a seeded sample of texts WITH syntax errors through the same entry point
	var bad []*item
	okSet := map[*item]bool{}
	for _, it := range parseOK {
		okSet[it] = true
	}
	for _, it := range srcItems {
		if !okSet[it] {
			bad = append(bad, it)
		}
	}
	nBad := 0
	for _, i := range c.SampleIdx(len(bad), c.Pick(800, 20000)) {
		checkItems = append(checkItems, bad[i])
		nBad++
	}
	c.Cov("checker_entry_runs_on_texts_with_syntax_errors", nBad)
	t1 = time.Now()
	if _, err := replay(c, pool, "check", checkItems, nil, 25, 15000, classes, groups); err != nil {
		return err
	}
	c.Logf("macro expansion + type checker: %d error-free texts (of %d distinct) in %.1fs", len(checkItems), len(seen), time.Since(t1).Seconds())

	// ---- 4. the observed outcome sequences must be behaviours of the outcome model
	if err := validateClasses(c, mc, classes); err != nil {
		return err
	}
	evaluations := 0
	nontrivial := 0
	var keys []string
	for k, cl := range classes {
		evaluations += cl.n
		keys = append(keys, k)
		if cl.ok {
			nontrivial++
		}
	}
	sort.Strings(keys)
	for _, k := range keys {
		cl := classes[k]
		c.Sample(map[string]any{"outcome_sequence": cl.kind + ": " + k, "runs": cl.n, "accepted_by_Frontend": cl.ok, "example": fmt.Sprintf("%q", cl.example)})
	}
	c.Cov("evaluations", evaluations)
	c.Cov("distinct_nontrivial", nontrivial)
	c.Cov("rule", "every run of the real stages must be a complete behaviour of spec/Frontend's pipeline (outcomes ok | diagnostics only): a Go panic, fatal error, error return of the renderer or a run that exceeds its time budget twice is a violation")
	c.Cov("checker_runs", len(checkItems))

	// ---- 5. report: one record per (stage, failure kind, faulting function)
	var gkeys []string
	for k := range groups {
		gkeys = append(gkeys, k)
	}
	sort.Strings(gkeys)
	for _, k := range gkeys {
		g := groups[k]
		sort.Slice(g.examples, func(i, j int) bool { return len(g.examples[i].text) < len(g.examples[j].text) })
		var exs []any
		for i, it := range g.examples {
			if i >= 8 {
				break
			}
			exs = append(exs, it.describe())
		}
		rec := map[string]any{
			"kind": g.what, "stage": g.stage, "site": g.site, "count": g.n, "message": g.msg,
			"shortest_input": fmt.Sprintf("%q", g.examples[0].text), "examples": exs,
			"summary": fmt.Sprintf("%s in stage %s at %s on %d inputs, e.g. %q: %s", g.what, g.stage, g.site, g.n, g.examples[0].text, firstLine(g.msg)),
		}
		c.Violation(rec)
	}
	c.Logf("runs=%d outcome classes=%d failure groups=%d violations=%d", evaluations, len(classes), len(groups), c.Violations())
	if nontrivial < 2 {
		return core.Inconclusivef("fewer than two distinct accepted outcome sequences were observed")
	}
	return nil
}

func flagSets(c *core.Ctx) []int {
	if c.Thorough() {
		out := make([]int, 64)
		for i := range out {
			out[i] = i
		}
		return out
	}
	return []int{0, 63, 1, 2, 4, 8, 16, 32}
}

type class struct {
	kind    string // source | regex
	n       int
	example string
	ok      bool
}

type group struct {
	stage, what, site, msg string
	n                      int
	examples               []*item
}

// replay runs the items through the batch job of the given mode and files the outcomes. Returns the
// items that parsed without diagnostics (src mode). A text whose stages do not finish inside the
// watchdog deadline is a hang CANDIDATE; the first candidates of every faulting function are run
// again alone with a long budget and only a confirmed hang is reported.
func replay(c *core.Ctx, pool *core.Pool, mode string, items []*item, flags []int, batch int, deadlineMs int, classes map[string]*class, groups map[string]*group) ([]*item, error) {
	kind := "source"
	if mode == "regex" {
		kind = "regex"
	}
	var parseOK []*item
	addFail := func(it *item, stage, what, site, msg string) {
		key := stage + "|" + what + "|" + site
		if site == "" {
			key += "|" + firstLine(msg)
		}
		g := groups[key]
		if g == nil {
			g = &group{stage: stage, what: what, site: site, msg: msg}
			groups[key] = g
		}
		g.n++
		if len(g.examples) < 200 {
			g.examples = append(g.examples, it)
		}
	}
	note := func(log, example string, n int) {
		cl := classes[kind+"|"+log]
		if cl == nil {
			cl = &class{kind: kind, example: example}
			classes[kind+"|"+log] = cl
		}
		cl.n += n
	}
	confirmed := map[string]int{} // hang site -> number of confirmation runs done
	var pending [][]*item
	for i := 0; i < len(items); i += batch {
		j := i + batch
		if j > len(items) {
			j = len(items)
		}
		pending = append(pending, items[i:j])
	}
	mk := func(its []*item, dl int) core.Job {
		var texts [][]byte
		for _, it := range its {
			texts = append(texts, []byte(it.text))
		}
		return core.Job{Kind: "c03batch", Payload: batchIn{Mode: mode, Texts: texts, Flags: flags, DeadlineMs: dl}, TimeoutMs: 240000 + dl}
	}
	for round := 0; len(pending) > 0; round++ {
		if round > 400 {
			return nil, core.Inconclusivef("mode %s: too many re-queue rounds", mode)
		}
		var jobs []core.Job
		for _, b := range pending {
			jobs = append(jobs, mk(b, deadlineMs))
		}
		results := pool.Map(jobs, nil)
		cur := pending
		pending = nil
		for bi, jr := range results {
			its := cur[bi]
			switch {
			case jr.Err != "" || jr.Panic != "":
				return nil, core.Inconclusivef("worker problem in mode %s: %s %s", mode, jr.Err, firstLine(jr.Panic))
			case jr.Crashed || jr.Timeout:
				// the worker process died (Go fatal error) or the watchdog itself was starved: bisect
				if len(its) == 1 {
					what := "fatal"
					if jr.Timeout {
						what = "hang"
					}
					addFail(its[0], stageFromLog(jr.CrashLog, mode), what, siteOfLog(jr.CrashLog), tail(jr.CrashLog, 3000))
					note(what, its[0].text, 1)
				} else {
					pending = append(pending, its[:len(its)/2], its[len(its)/2:])
				}
				continue
			}
			var out batchOut
			if err := jr.Decode(&out); err != nil {
				return nil, core.Inconclusivef("bad batch result: %v", err)
			}
			for ti, idx := range out.Idx {
				for _, li := range idx {
					note(out.Logs[li], its[ti].text, 1)
				}
			}
			for _, i := range out.ParseOK {
				parseOK = append(parseOK, its[i])
			}
			for _, f := range out.Fails {
				it := its[f.Text]
				if f.What != "hang" {
					addFail(it, f.Stage, f.What, f.Site, f.Msg)
					continue
				}
				// hang candidate: confirm the first two of every site with a long budget
				if confirmed[f.Site] < 2 {
					confirmed[f.Site]++
					again := pool.Map([]core.Job{mk([]*item{it}, 30000)}, nil)[0]
					var o2 batchOut
					if again.Crashed || again.Timeout || again.Decode(&o2) != nil {
						return nil, core.Inconclusivef("could not confirm the hang candidate %q", it.text)
					}
					stillHangs := false
					for _, f2 := range o2.Fails {
						if f2.What == "hang" {
							stillHangs = true
						}
					}
					if !stillHangs {
						c.Note(fmt.Sprintf("slow, not hanging (finished inside 30 s): %q", it.text))
						pending = append(pending, []*item{it})
						confirmed[f.Site] = 0
						continue
					}
				}
				addFail(it, f.Stage, "hang", f.Site, f.Msg)
				note(f.Stage+":hang", it.text, 1)
			}
			if out.Next < len(its) {
				// spread the remainder over several workers: texts that hang tend to be neighbours
				rest := its[out.Next:]
				step := (len(rest) + 3) / 4
				for i := 0; i < len(rest); i += step {
					j := i + step
					if j > len(rest) {
						j = len(rest)
					}
					pending = append(pending, rest[i:j])
				}
			}
		}
	}
	return parseOK, nil
}

func stageFromLog(log, mode string) string {
	switch {
	case strings.Contains(log, "types/checker"):
		return "check"
	case strings.Contains(log, "elk/parser"):
		return "parse"
	case strings.Contains(log, "elk/regex"):
		return "regex"
	}
	return mode
}

func siteOfLog(log string) string {
	if i := strings.Index(log, "goroutine "); i >= 0 {
		return siteOf(log[i:])
	}
	return siteOf(log)
}

// validateClasses asks TLC whether each distinct observed outcome sequence is a behaviour of Frontend.
func validateClasses(c *core.Ctx, mc string, classes map[string]*class) error {
	var keys []string
	for k := range classes {
		keys = append(keys, k)
	}
	sort.Strings(keys)
	var nd strings.Builder
	for id, k := range keys {
		parts := strings.SplitN(k, "|", 2)
		var log []map[string]string
		for _, st := range strings.Split(parts[1], ",") {
			so := strings.SplitN(st, ":", 2)
			if len(so) != 2 {
				so = []string{st, st} // "fatal" / "hang": the run has no outcome at all
			}
			log = append(log, map[string]string{"stage": so[0], "outcome": so[1]})
		}
		b, _ := json.Marshal(map[string]any{"id": id + 1, "kind": parts[0], "log": log})
		nd.Write(b)
		nd.WriteByte('\n')
	}
	mcT := strings.Replace(strings.Replace(mc, "MODULE MC_Frontend", "MODULE MC_FrontendTrace", 1), "EXTENDS Frontend", "EXTENDS FrontendTrace", 1)
	verdicts := map[int]bool{}
	res, err := tlc.Run(tlc.Opts{
		SpecDir: specDir(), Module: "MC_FrontendTrace", Cfg: "FrontendTrace.cfg", Scratch: c.Scratch, Workers: 2, Timeout: 5 * time.Minute,
		Extra: map[string][]byte{"MC_FrontendTrace.tla": []byte(mcT), "classes.ndjson": []byte(nd.String())},
		OnGen: func(rec []byte) {
			var v struct {
				ID int  `json:"id"`
				OK bool `json:"ok"`
			}
			if json.Unmarshal(rec, &v) == nil {
				verdicts[v.ID] = v.OK
			}
		},
	})
	if err != nil {
		return err
	}
	if !res.OK {
		return core.Inconclusivef("TLC on FrontendTrace: verdict=%s %s\n%s", res.Verdict, res.What, tail(res.Output, 2000))
	}
	c.CovAdd("states", int(res.Distinct))
	c.CovAdd("transitions", int(res.Generated))
	for id, k := range keys {
		ok, have := verdicts[id+1]
		if !have {
			return core.Inconclusivef("TLC gave no verdict for outcome sequence %q", k)
		}
		classes[k].ok = ok
		c.Logf("outcome sequence %-60s runs=%-8d %s", k, classes[k].n, map[bool]string{true: "accepted", false: "REJECTED by Frontend"}[ok])
	}
	return nil
}

func firstLine(s string) string {
	if i := strings.IndexByte(s, '\n'); i >= 0 {
		return s[:i]
	}
	return s
}

func tail(s string, n int) string {
	if len(s) <= n {
		return s
	}
	return s[len(s)-n:]
}
