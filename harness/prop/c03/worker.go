package c03

import (
	"encoding/json"
	"fmt"
	"regexp"
	"runtime"
	"runtime/debug"
	"strings"
	"time"

	"github.com/elk-language/elk"
	"github.com/elk-language/elk/bitfield"
	"github.com/elk-language/elk/lexer"
	"github.com/elk-language/elk/parser"
	"github.com/elk-language/elk/position/diagnostic"
	"github.com/elk-language/elk/regex"
	rparser "github.com/elk-language/elk/regex/parser"
	"github.com/elk-language/elk/types/checker"

	"elkverif/internal/core"
	"elkverif/internal/elkrun"
)

func init() {
	core.RegisterJob("c03batch", batchJob)
}

// batchIn: run the texts through the real front-end stages. Mode "src": parse, repl, report (and
// note which texts parse without diagnostics); "check": parse, repl, expand+check, report (one fresh
// global environment per text); "regex": regex parse, then transpile under each flag set, report.
// Every text runs in a goroutine of its own under a watchdog: when it does not finish within
// DeadlineMs the job records a hang candidate (with the stack of the stuck goroutine), stops, and
// asks for a fresh worker process; the driver re-queues the texts from Next on.
type batchIn struct {
	Mode       string   `json:"mode"`
	Texts      [][]byte `json:"texts"`
	Flags      []int    `json:"flags,omitempty"`
	DeadlineMs int      `json:"deadline_ms"`
}

type failure struct {
	Text  int    `json:"text"`  // index of the text
	Stage string `json:"stage"` // parse | repl | check | report | regex_parse | transpile
	What  string `json:"what"`  // panic | error | hang
	Site  string `json:"site"`  // innermost elk function on the stack
	Msg   string `json:"msg"`
}

type textOut struct {
	Logs    []string // one outcome log per run of this text ("stage:outcome,stage:outcome")
	ParseOK bool
	Fails   []failure
}

type batchOut struct {
	Logs    []string  `json:"logs"` // distinct outcome logs
	Idx     [][]int   `json:"idx"`  // per processed text: indices into Logs, one per run
	ParseOK []int     `json:"parse_ok,omitempty"`
	Fails   []failure `json:"fails,omitempty"`
	Next    int       `json:"next"` // number of texts processed (== len(Texts) unless a watchdog fired)
}

var reFrame = regexp.MustCompile(`github\.com/elk-language/elk/([^\s(]+(?:\([^)\s]*\))?[^\s(]*)\(`)

// siteOf returns the innermost elk function of a stack dump.
func siteOf(stack string) string {
	if m := reFrame.FindStringSubmatch(stack); m != nil {
		return m[1]
	}
	return ""
}

// stage runs f under recover and appends its outcome (ok | diagnostics | panic | error) to the log.
func stage(ti int, name string, log *[]string, fails *[]failure, f func() (bool, error)) bool {
	outcome := "ok"
	func() {
		defer func() {
			if r := recover(); r != nil {
				st := string(debug.Stack())
				if i := strings.Index(st, "panic("); i >= 0 {
					st = st[i:]
				}
				if len(st) > 2500 {
					st = st[:2500]
				}
				outcome = "panic"
				*fails = append(*fails, failure{Text: ti, Stage: name, What: "panic", Site: siteOf(st), Msg: fmt.Sprintf("%v\n%s", r, st)})
			}
		}()
		diags, err := f()
		if err != nil {
			outcome = "error"
			*fails = append(*fails, failure{Text: ti, Stage: name, What: "error", Msg: err.Error()})
		} else if diags {
			outcome = "diagnostics"
		}
	}()
	*log = append(*log, name+":"+outcome)
	return outcome == "ok" || outcome == "diagnostics"
}

// current stage of the text being processed (read by the watchdog)
var currentStage string

func report(ti int, log *[]string, fails *[]failure, dl diagnostic.DiagnosticList, name, src string) {
	currentStage = "report"
	stage(ti, "report", log, fails, func() (bool, error) {
		_, err := dl.HumanStringWithSourceMap(true, lexer.Colorizer{}, map[string]string{name: src})
		return false, err
	})
}

func runSource(ti int, src string, check bool) *textOut {
	o := &textOut{}
	var log []string
	defer func() {
		if log != nil {
			o.Logs = append(o.Logs, strings.Join(log, ","))
		}
	}()
	var dl diagnostic.DiagnosticList
	p := parser.New("main.elk", src)
	currentStage = "parse"
	if !stage(ti, "parse", &log, &o.Fails, func() (bool, error) {
		_, dl = p.Parse()
		return len(dl) > 0, nil
	}) {
		return o
	}
	currentStage = "repl"
	if !stage(ti, "repl", &log, &o.Fails, func() (bool, error) {
		_ = p.IsIncomplete()
		_ = p.ShouldIndent()
		return false, nil
	}) {
		return o
	}
	if len(dl) > 0 {
		if check {
			// checker.CheckSource is the entry point `elk run` uses: it must hand back the parser's
			// diagnostics for an erroneous text. Its outcome is not a stage of its own in the outcome
			// model (the run is parse -> repl -> report), so it is logged only when it fails.
			var probe []string
			currentStage = "check"
			if !stage(ti, "check", &probe, &o.Fails, func() (bool, error) {
				elk.InitGlobalEnvironment()
				var flags bitfield.BitField16
				_, cdl := checker.CheckSource("main.elk", src, nil, flags, nil)
				if len(cdl) == 0 {
					return false, fmt.Errorf("checker.CheckSource returned no diagnostics for a text with syntax errors")
				}
				return true, nil
			}) {
				log = append(log, probe...)
				return o
			}
		}
		report(ti, &log, &o.Fails, dl, "main.elk", src)
		return o
	}
	o.ParseOK = true
	if !check {
		// the run continues in the checker pass (mode "check"); no complete outcome sequence yet
		log = nil
		return o
	}
	if check {
		var cdl diagnostic.DiagnosticList
		currentStage = "check"
		if stage(ti, "check", &log, &o.Fails, func() (bool, error) {
			elk.InitGlobalEnvironment()
			var flags bitfield.BitField16
			_, cdl = checker.CheckSource("main.elk", src, nil, flags, nil)
			return len(cdl) > 0, nil
		}) && len(cdl) > 0 {
			report(ti, &log, &o.Fails, cdl, "main.elk", src)
		}
	}
	return o
}

func runRegex(ti int, body string, flags []int) *textOut {
	o := &textOut{}
	var dl diagnostic.DiagnosticList
	var plog []string
	currentStage = "regex_parse"
	ok := stage(ti, "regex_parse", &plog, &o.Fails, func() (bool, error) {
		_, dl = rparser.Parse(body)
		return len(dl) > 0, nil
	})
	if !ok || len(dl) > 0 {
		// the parser's verdict does not depend on the flags: one run
		if ok {
			report(ti, &plog, &o.Fails, dl, "regex", body)
		}
		o.Logs = append(o.Logs, strings.Join(plog, ","))
		return o
	}
	for _, fl := range flags {
		log := append([]string{}, plog...)
		var tdl diagnostic.DiagnosticList
		currentStage = "transpile"
		if stage(ti, "transpile", &log, &o.Fails, func() (bool, error) {
			_, tdl = regex.Transpile(body, bitfield.BitField8FromInt(fl))
			return len(tdl) > 0, nil
		}) && len(tdl) > 0 {
			report(ti, &log, &o.Fails, tdl, "regex", body)
		}
		o.Logs = append(o.Logs, strings.Join(log, ","))
	}
	return o
}

func batchJob(raw json.RawMessage) (any, error) {
	var in batchIn
	if err := json.Unmarshal(raw, &in); err != nil {
		return nil, err
	}
	if in.DeadlineMs <= 0 {
		in.DeadlineMs = 2000
	}
	elkrun.Setup()
	checker.MethodCheckConcurrencyLimit = 1
	out := &batchOut{}
	logIdx := map[string]int{}
	timer := time.NewTimer(time.Hour)
	defer timer.Stop()
	for i, t := range in.Texts {
		text := string(t)
		done := make(chan *textOut, 1)
		go func() {
			switch in.Mode {
			case "regex":
				done <- runRegex(i, text, in.Flags)
			default:
				done <- runSource(i, text, in.Mode == "check")
			}
		}()
		if !timer.Stop() {
			select {
			case <-timer.C:
			default:
			}
		}
		timer.Reset(time.Duration(in.DeadlineMs) * time.Millisecond)
		select {
		case o := <-done:
			var idx []int
			for _, l := range o.Logs {
				k, ok := logIdx[l]
				if !ok {
					k = len(out.Logs)
					logIdx[l] = k
					out.Logs = append(out.Logs, l)
				}
				idx = append(idx, k)
			}
			out.Idx = append(out.Idx, idx)
			if o.ParseOK {
				out.ParseOK = append(out.ParseOK, i)
			}
			out.Fails = append(out.Fails, o.Fails...)
			out.Next = i + 1
		case <-timer.C:
			// sample the stuck goroutine a few times: the function that contains the loop is the
			// innermost frame common to all samples (its callees come and go)
			var samples []string
			for k := 0; k < 5; k++ {
				buf := make([]byte, 1<<20)
				buf = buf[:runtime.Stack(buf, true)]
				samples = append(samples, stuckStack(string(buf)))
				time.Sleep(7 * time.Millisecond)
			}
			st := samples[0]
			out.Fails = append(out.Fails, failure{Text: i, Stage: currentStage, What: "hang", Site: loopSite(samples),
				Msg: fmt.Sprintf("no result within %d ms\n%s", in.DeadlineMs, st)})
			out.Idx = append(out.Idx, nil)
			out.Next = i + 1
			core.RequestWorkerRestart()
			return out, nil
		}
	}
	return out, nil
}

// stuckStack picks, from a dump of all goroutines, the one that is inside the front end.
func stuckStack(all string) string {
	for _, g := range strings.Split(all, "\n\n") {
		if strings.Contains(g, "c03.runSource") || strings.Contains(g, "c03.runRegex") {
			if len(g) > 2500 {
				g = g[:2500]
			}
			// drop the goroutine header line
			if i := strings.IndexByte(g, '\n'); i >= 0 {
				g = g[i+1:]
			}
			return g
		}
	}
	return ""
}

// loopSite returns the innermost elk function present in every stack sample (comparing the frame
// lists from the outermost frame inwards).
func loopSite(samples []string) string {
	var lists [][]string
	for _, s := range samples {
		var fs []string
		for _, m := range reFrame.FindAllStringSubmatch(s, -1) {
			fs = append(fs, m[1])
		}
		// outermost first
		for i, j := 0, len(fs)-1; i < j; i, j = i+1, j-1 {
			fs[i], fs[j] = fs[j], fs[i]
		}
		if len(fs) > 0 {
			lists = append(lists, fs)
		}
	}
	if len(lists) == 0 {
		return ""
	}
	site := ""
	for d := 0; ; d++ {
		if d >= len(lists[0]) {
			return site
		}
		f := lists[0][d]
		for _, l := range lists[1:] {
			if d >= len(l) || l[d] != f {
				return site
			}
		}
		site = f
	}
}
