package main

import (
	"bytes"
	"fmt"
	"go/format"
	"os"

	"github.com/elk-language/elk"
	"github.com/elk-language/elk/bitfield"
	"github.com/elk-language/elk/types/checker"
)

// developer aid: vcheck --native file.elk  prints the Go source the native backend generates
func nativeDev(path string) {
	b, err := os.ReadFile(path)
	if err != nil {
		fmt.Fprintln(os.Stderr, err)
		os.Exit(2)
	}
	elk.InitGlobalEnvironment()
	checker.MethodCheckConcurrencyLimit = 1
	var buf bytes.Buffer
	gc, diags := checker.CheckSourceNative("main.elk", string(b), nil, bitfield.BitField16{}, &buf, nil)
	if diags != nil {
		fmt.Fprintln(os.Stderr, diags.Error())
	}
	if gc == nil {
		os.Exit(1)
	}
	gc.Flush()
	out, err := format.Source(buf.Bytes())
	if err != nil {
		fmt.Fprintln(os.Stderr, "format:", err)
		os.Stdout.Write(buf.Bytes())
		os.Exit(1)
	}
	os.Stdout.Write(out)
}
