// vcheck is the single entry point of the harness: `vcheck <ID> quick|thorough`, `vcheck <ID> --replay <path>`,
// `vcheck --worker` (crash-isolated job worker), `vcheck --list`.
package main

import (
	"encoding/json"
	"errors"
	"fmt"
	"os"
	"strconv"

	"elkverif/internal/core"
	"elkverif/internal/elkrun"
	_ "elkverif/prop/all"
)

func main() {
	if len(os.Args) >= 2 && os.Args[1] == "--worker" {
		core.WorkerMain()
		return
	}
	if len(os.Args) >= 2 && os.Args[1] == "--list" {
		for _, id := range core.IDs() {
			fmt.Println(id)
		}
		return
	}
	if len(os.Args) >= 3 && os.Args[1] == "--native" {
		nativeDev(os.Args[2])
		return
	}
	if len(os.Args) >= 3 && os.Args[1] == "--elkjob" {
		// developer aid: run one elkrun.Job given as JSON (fields src, cfg, abort_check, cancel_ms, run_ms, ...)
		b, err := os.ReadFile(os.Args[2])
		if err != nil {
			fmt.Fprintln(os.Stderr, err)
			os.Exit(2)
		}
		var j elkrun.Job
		if err := json.Unmarshal(b, &j); err != nil {
			fmt.Fprintln(os.Stderr, err)
			os.Exit(2)
		}
		r := elkrun.Run(&j)
		out, _ := json.MarshalIndent(r, "", " ")
		fmt.Println(string(out))
		return
	}
	if len(os.Args) >= 3 && os.Args[1] == "--elk" {
		// developer aid: run one Elk source file through elkrun in this process and print the result
		b, err := os.ReadFile(os.Args[2])
		if err != nil {
			fmt.Fprintln(os.Stderr, err)
			os.Exit(2)
		}
		j := &elkrun.Job{Src: string(b)}
		if len(os.Args) >= 4 {
			j.Cfg = &elkrun.Cfg{}
			if err := json.Unmarshal([]byte(os.Args[3]), j.Cfg); err != nil {
				fmt.Fprintln(os.Stderr, err)
				os.Exit(2)
			}
		}
		r := elkrun.Run(j)
		fmt.Print(r.Stdout)
		r.Stdout = ""
		out, _ := json.MarshalIndent(r, "", " ")
		fmt.Println(string(out))
		return
	}
	if len(os.Args) < 3 {
		fmt.Fprintln(os.Stderr, "usage: vcheck <ID> quick|thorough | <ID> --replay <path>")
		os.Exit(2)
	}
	id := os.Args[1]
	tier := os.Args[2]
	replay := ""
	if tier == "--replay" {
		if len(os.Args) < 4 {
			fmt.Fprintln(os.Stderr, "missing replay path")
			os.Exit(2)
		}
		replay = os.Args[3]
		tier = "quick"
	}
	if t := os.Getenv("VERIF_TIER"); t != "" && replay == "" && (t == "quick" || t == "thorough") && tier == "" {
		tier = t
	}
	if tier != "quick" && tier != "thorough" {
		fmt.Fprintln(os.Stderr, "tier must be quick or thorough")
		os.Exit(2)
	}
	ch := core.Lookup(id)
	if ch == nil {
		fmt.Fprintln(os.Stderr, "unknown check", id)
		os.Exit(2)
	}
	seed := int64(1)
	if s := os.Getenv("VERIF_SEED"); s != "" {
		if v, err := strconv.ParseInt(s, 10, 64); err == nil {
			seed = v
		}
	}
	ctx, err := core.NewCtx(id, tier, seed, ch.Level)
	if err != nil {
		fmt.Fprintln(os.Stderr, err)
		os.Exit(2)
	}
	ctx.Replay = replay
	code := run(ch, ctx)
	ctx.Cleanup()
	os.Exit(code)
}

func run(ch *core.Check, ctx *core.Ctx) (code int) {
	var err error
	func() {
		defer func() {
			if r := recover(); r != nil {
				if inc, ok := r.(*core.Inconclusive); ok {
					err = inc
				} else {
					err = fmt.Errorf("harness panic: %v", r)
					fmt.Fprintf(os.Stderr, "%v\n", r)
					panic(r)
				}
			}
		}()
		err = ch.Run(ctx)
	}()
	var inc *core.Inconclusive
	switch {
	case err != nil && errors.As(err, &inc):
		fmt.Fprintln(os.Stderr, err)
		ctx.WriteEvidence("inconclusive: " + inc.Msg)
		return core.ExitInconclusive
	case err != nil:
		fmt.Fprintln(os.Stderr, "ERROR:", err)
		ctx.WriteEvidence("error: " + err.Error())
		return core.ExitInconclusive
	}
	if ctx.Violations() > 0 {
		ctx.WriteEvidence("violation")
		return core.ExitViolation
	}
	if e := ctx.WriteEvidence("held"); e != nil {
		fmt.Fprintln(os.Stderr, "cannot write evidence:", e)
		return core.ExitInconclusive
	}
	fmt.Printf("OK property=%s tier=%s seed=%d\n", ctx.ID, ctx.Tier, ctx.Seed)
	return core.ExitOK
}
