package elkcore

import (
	"fmt"
	"sort"
	"strings"
)

// Helpers every emitted file starts with. o: observation by inspect; t: raw text line;
// p: the expression probe (prints its id and value, returns the value).
const Prelude = `def o(v: any) then println "#{v}"
def t(s: String) then println s
def p[T](id: Int, v: T): T
  println "p#{id}=#{v}"
  v
end
`

var SymNames = []string{"", "a", "b", "c", "stop_iteration"}

type emitter struct {
	sb     strings.Builder
	line   int
	suffix string // appended to method names (batch mode)
}

func (e *emitter) w(indent int, s string) {
	e.sb.WriteString(strings.Repeat("  ", indent))
	e.sb.WriteString(s)
	e.sb.WriteByte('\n')
	e.line++
}

func (e *emitter) raw(s string) {
	e.sb.WriteString(s)
	e.line += strings.Count(s, "\n")
}

func Expr(x M) string {
	switch x["k"] {
	case "int":
		v := x["v"].(int)
		if v < 0 {
			return fmt.Sprintf("(%d)", v)
		}
		return fmt.Sprintf("%d", v)
	case "nil":
		return "nil"
	case "sym":
		return ":" + SymNames[x["v"].(int)]
	case "true":
		return "true"
	case "false":
		return "false"
	case "var":
		return x["n"].(string)
	case "bin":
		return "(" + Expr(x["a"].(M)) + " " + x["op"].(string) + " " + Expr(x["b"].(M)) + ")"
	case "not":
		return "(!" + Expr(x["a"].(M)) + ")"
	case "paren":
		return "((" + Expr(x["a"].(M)) + "))"
	case "and":
		return "(" + Expr(x["a"].(M)) + " && " + Expr(x["b"].(M)) + ")"
	case "or":
		return "(" + Expr(x["a"].(M)) + " || " + Expr(x["b"].(M)) + ")"
	case "nilc":
		return "(" + Expr(x["a"].(M)) + " ?? " + Expr(x["b"].(M)) + ")"
	case "pr":
		return fmt.Sprintf("p(%d, %s)", x["id"].(int), Expr(x["a"].(M)))
	}
	panic(fmt.Sprintf("emit: unknown expression %v", x))
}

func args(l L) string {
	var parts []string
	for _, a := range l {
		parts = append(parts, Expr(a.(M)))
	}
	return strings.Join(parts, ", ")
}

func (e *emitter) block(ind int, b L) {
	for _, s := range b {
		e.stmt(ind, s.(M))
	}
}

// setLn gives every statement of a block that is not printed (the expansion of sugar) the line of
// the statement it stands for; statements that are printed get their own line afterwards.
func setLn(b L, ln int) {
	for _, x := range b {
		m := x.(M)
		m["ln"] = ln
		for _, k := range []string{"body", "a", "b", "fin", "desugared"} {
			if sub, ok := m[k].(L); ok {
				setLn(sub, ln)
			}
		}
		if cs, ok := m["catches"].(L); ok {
			for _, c := range cs {
				setLn(c.(M)["body"].(L), ln)
			}
		}
	}
}

// assign prints `dst = call`, `dst := call` (declaring) or the bare call.
func assign(s M, call string) string {
	d, _ := s["dst"].(string)
	if d == "" {
		return call
	}
	if s["k"] == "gen" {
		return d + " := " + call
	}
	if decl, _ := s["decl"].(bool); decl {
		return d + " := " + call
	}
	return d + " = " + call
}

func label(l string) string {
	if l == "" {
		return ""
	}
	return "[" + l + "]"
}

func (e *emitter) stmt(ind int, s M) {
	s["ln"] = e.line + 1
	switch s["k"] {
	case "print":
		e.w(ind, "o("+Expr(s["e"].(M))+")")
	case "expr":
		e.w(ind, Expr(s["e"].(M)))
	case "let":
		if ty, _ := s["ty"].(string); ty != "" {
			e.w(ind, fmt.Sprintf("var %s: %s = %s", s["n"], ty, Expr(s["e"].(M))))
		} else {
			e.w(ind, fmt.Sprintf("%s := %s", s["n"], Expr(s["e"].(M))))
		}
	case "set":
		e.w(ind, fmt.Sprintf("%s = %s", s["n"], Expr(s["e"].(M))))
	case "defer":
		e.w(ind, "defer "+Expr(s["e"].(M)))
	case "break":
		t := "break" + label(s["l"].(string))
		if s["hasv"].(bool) {
			t += " " + Expr(s["e"].(M))
		}
		e.w(ind, t)
	case "continue":
		e.w(ind, "continue"+label(s["l"].(string)))
	case "return":
		e.w(ind, "return "+Expr(s["e"].(M)))
	case "throw":
		e.w(ind, "throw unchecked "+Expr(s["e"].(M)))
	case "yield":
		e.w(ind, "yield "+Expr(s["e"].(M)))
	case "if":
		kw := "if"
		if s["neg"].(bool) {
			kw = "unless"
		}
		e.w(ind, kw+" "+Expr(s["c"].(M)))
		e.block(ind+1, s["a"].(L))
		if b := s["b"].(L); len(b) > 0 {
			e.w(ind, "else")
			e.block(ind+1, b)
		}
		e.w(ind, "end")
	case "loop":
		head := ""
		if d := s["dst"].(string); d != "" {
			head = d + " = "
		}
		if l := s["label"].(string); l != "" {
			head += "$" + l + ": "
		}
		switch s["kind"] {
		case "loop":
			head += "loop"
		case "while":
			head += "while " + Expr(s["c"].(M))
		case "until":
			head += "until " + Expr(s["c"].(M))
		case "forin":
			head += fmt.Sprintf("for %s in [%s]", s["var"], args(s["items"].(L)))
		case "fornum":
			head += fmt.Sprintf("fornum %s := %s; %s; %s = %s", s["var"], Expr(s["init"].(M)), Expr(s["c"].(M)), s["var"], Expr(s["step"].(M)))
		}
		e.w(ind, head)
		e.block(ind+1, s["body"].(L))
		e.w(ind, "end")
	case "try":
		e.w(ind, "do")
		e.block(ind+1, s["body"].(L))
		for _, c := range s["catches"].(L) {
			cm := c.(M)
			pat := cm["pat"].(M)
			if pat["kind"] == "sym" {
				e.w(ind, "catch :"+SymNames[pat["v"].(int)])
			} else {
				e.w(ind, "catch "+pat["n"].(string))
			}
			e.block(ind+1, cm["body"].(L))
		}
		if s["hasfin"].(bool) {
			e.w(ind, "finally")
			e.block(ind+1, s["fin"].(L))
		}
		e.w(ind, "end")
	case "call", "gen", "acall":
		c := fmt.Sprintf("%s%s(%s)", s["f"], e.suffix, args(s["args"].(L)))
		if s["k"] == "acall" {
			c += ".await_sync"
		}
		e.w(ind, assign(s, c))
	case "tcall":
		e.w(ind, fmt.Sprintf("return %s%s(%s)", s["f"], e.suffix, args(s["args"].(L))))
	case "callc":
		e.w(ind, assign(s, fmt.Sprintf("%s.(%s)", s["c"], args(s["args"].(L)))))
	case "next":
		e.w(ind, assign(s, fmt.Sprintf("%s.next", s["g"])))
	case "forgen":
		head := ""
		if l := s["label"].(string); l != "" {
			head = "$" + l + ": "
		}
		setLn(s["desugared"].(L), e.line+1)
		e.w(ind, fmt.Sprintf("%sfor %s in %s%s(%s)", head, s["var"], s["f"], e.suffix, args(s["args"].(L))))
		e.block(ind+1, s["body"].(L))
		e.w(ind, "end")
	case "lam":
		var ps []string
		for _, p := range s["params"].(L) {
			ps = append(ps, p.(string)+": Int")
		}
		head := fmt.Sprintf("%s := |%s|", s["n"], strings.Join(ps, ", "))
		if r, _ := s["ret"].(string); r != "" {
			head += ": " + r
		}
		e.w(ind, head+" ->")
		e.block(ind+1, s["body"].(L))
		e.w(ind, "end")
	default:
		panic(fmt.Sprintf("emit: unknown statement %v", s["k"]))
	}
}

func (e *emitter) defs(p M) {
	defs := p["defs"].(M)
	var names []string
	for n := range defs {
		names = append(names, n)
	}
	sort.Strings(names)
	if o, _ := p["def_order"].(string); o == "reverse" {
		for i, j := 0, len(names)-1; i < j; i, j = i+1, j-1 {
			names[i], names[j] = names[j], names[i]
		}
	}
	for _, n := range names {
		d := defs[n].(M)
		var ps []string
		pt, _ := d["ptypes"].(L)
		for i, q := range d["params"].(L) {
			ty := "Int"
			if i < len(pt) {
				ty = pt[i].(string)
			}
			ps = append(ps, q.(string)+": "+ty)
		}
		star := ""
		if d["gen"].(bool) {
			star = "*"
		}
		kw := "def "
		if a, _ := d["async"].(bool); a {
			kw = "async def "
		}
		head := fmt.Sprintf("%s%s%s%s", kw, star, n, e.suffix)
		if len(ps) > 0 {
			head += "(" + strings.Join(ps, ", ") + ")"
		}
		if r, _ := d["ret"].(string); r != "" {
			head += ": " + r
		}
		if th, _ := d["throws"].(string); th != "" {
			head += " ! " + th
		}
		e.w(0, head)
		e.block(1, d["body"].(L))
		e.w(0, "end")
	}
}

// Marker printed before each program's output in a batch.
func Marker(id int) string { return fmt.Sprintf("#prog %d", id) }

// EmitBatch prints programs as ONE Elk source (method names suffixed with _<id>) and assigns the
// "ln" field of every statement (needed by the model for stack traces), so it must run before the
// programs are handed to TLC. Each program runs inside its own do/catch and is preceded by a marker
// line.
func EmitBatch(progs []M) string {
	e := &emitter{}
	e.raw(Prelude)
	for _, p := range progs {
		e.suffix = fmt.Sprintf("_%d", p["id"].(int))
		e.defs(p)
	}
	for _, p := range progs {
		id := p["id"].(int)
		e.w(0, fmt.Sprintf("t '%s'", Marker(id)))
		e.w(0, "do")
		e.w(1, fmt.Sprintf("r := main__%d()", id))
		e.w(1, "t 'ret'")
		e.w(1, "o(r)")
		e.w(0, "catch e")
		e.w(1, "t 'thrown'")
		e.w(1, "o(e)")
		e.w(0, "end")
	}
	return e.sb.String()
}

// NativePrelude is the observation prelude for the native Go backend comparison (C09): Int
// observations only, no interpolation of `any` (the backend's subset).
const NativePrelude = `def o(v: Int) then println v.to_string
def t(s: String) then println s
`

// EmitBatchPlain is EmitBatch without the per-program do/catch wrapper and with the native prelude:
// for programs that cannot throw, compiled by both back ends from the SAME source text.
func EmitBatchPlain(progs []M) string {
	e := &emitter{}
	e.raw(NativePrelude)
	for _, p := range progs {
		e.suffix = fmt.Sprintf("_%d", p["id"].(int))
		e.defs(p)
	}
	for _, p := range progs {
		id := p["id"].(int)
		e.w(0, fmt.Sprintf("t '%s'", Marker(id)))
		e.w(0, fmt.Sprintf("r_%d := main__%d()", id, id))
		e.w(0, "t 'ret'")
		e.w(0, fmt.Sprintf("o(r_%d)", id))
	}
	return e.sb.String()
}

// SplitByMarker splits the stdout of a batch by program marker.
func SplitByMarker(stdout string) map[int][]string { return splitByMarker(stdout) }

// EmitUncaught prints one program whose main is called at top level without a handler, so that an
// error propagates out of the program (C32: stack trace report).
func EmitUncaught(p M) (src string, callLine int) {
	e := &emitter{}
	e.raw(Prelude)
	e.defs(p)
	callLine = e.line + 1
	e.w(0, "main_()")
	return e.sb.String(), callLine
}
