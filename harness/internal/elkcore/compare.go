package elkcore

import (
	"fmt"
	"strings"
	"time"

	"elkverif/internal/core"
	"elkverif/internal/elkrun"
)

// MaxSteps bounds the machine steps per program (runaway guard of the model).
var MaxSteps = 3000

type mismatch struct {
	p   M
	rr  *RealRun
	rec map[string]any
}

// RunAndCompare is the shared replay pipeline of the ElkCore properties: emit (assign lines) -> TLC
// executes the reference machine on every program, checking cfg's invariants on every state ->
// the real checker+compiler+VM runs the emitted Elk text -> outputs are compared line by line.
// A difference that is exactly what a recorded known deviation predicts (the machine re-run with
// that named deviation enabled) is tagged with it, so that KNOWN_FINDINGS can match it precisely.
func RunAndCompare(c *core.Ctx, progs []M, cfg string, batch int) error {
	return RunAndCompareCfg(c, progs, cfg, batch, nil)
}

func RunAndCompareCfg(c *core.Ctx, progs []M, cfg string, batch int, rcfg *elkrun.Cfg) error {
	emitBatches(progs, batch)
	t0 := time.Now()
	mr, err := Predict(c, progs, cfg, MaxSteps, 25*time.Minute)
	if err != nil {
		return err
	}
	c.Logf("TLC: %d states generated, %d distinct, depth %d, %d behaviours, %.1fs", mr.TLC.Generated, mr.TLC.Distinct, mr.TLC.Depth, len(mr.Obs), time.Since(t0).Seconds())
	if !mr.counted {
		mr.counted = true
		c.CovAdd("states", int(mr.TLC.Distinct))
		c.CovAdd("transitions", int(mr.TLC.Generated))
	}
	c.Cov("spec", "spec/ElkCore/ElkCore.tla + "+cfg+" (invariants checked on every state of every program's execution)")

	pool := c.NewPool(c.Workers)
	t1 := time.Now()
	real := RunReal(c, pool, progs, batch, rcfg)
	c.Logf("real runs: %d programs in %.1fs", len(real), time.Since(t1).Seconds())

	agree, ood, maxsteps := 0, 0, 0
	var mism []mismatch
	for _, p := range progs {
		id := p["id"].(int)
		obs := mr.Obs[id]
		rr := real[id]
		if obs == nil || rr == nil {
			return core.Inconclusivef("program %d lost (obs=%v real=%v)", id, obs != nil, rr != nil)
		}
		if rr.Broken != "" {
			return core.Inconclusivef("worker problem on program %d: %s", id, rr.Broken)
		}
		if obs.Outcome.K == "maxsteps" || strings.HasPrefix(obs.Outcome.K, "stray") {
			maxsteps++
			continue
		}
		rec := map[string]any{"kind": "", "desc": p["desc"], "tags": p["tags"], "program": p, "source": srcOf(rr, p), "predicted": obs.Lines()}
		if rcfg != nil {
			rec["config"] = rcfg
		}
		switch {
		case rr.Res.GoPanic != "":
			rec["kind"] = "go_panic"
			rec["summary"] = fmt.Sprintf("Go panic (%s) running %v: %s", rr.Res.PanicStage, p["desc"], firstLine(rr.Res.GoPanic))
			rec["panic"] = rr.Res.GoPanic
			mism = append(mism, mismatch{p, rr, rec})
		case rr.Res.Hung:
			rec["kind"] = "hang"
			rec["summary"] = fmt.Sprintf("program did not terminate: %v", p["desc"])
			mism = append(mism, mismatch{p, rr, rec})
		case !rr.Res.Accepted:
			ood++
			if ood <= 3 {
				c.Note(fmt.Sprintf("out of domain (rejected by the checker): %v: %s", p["desc"], firstLine(rr.Res.Diags)))
			}
		default:
			if rr.Res.ErrClass != "" {
				rec["kind"] = "escaped_error"
				rec["summary"] = fmt.Sprintf("error escaped the handler: %s %s (%v)", rr.Res.ErrClass, rr.Res.ErrMsg, p["desc"])
				rec["observed"] = rr.Lines
				mism = append(mism, mismatch{p, rr, rec})
				continue
			}
			if d := Diff(obs.Lines(), rr.Lines); d != "" {
				rec["kind"] = "output_mismatch"
				rec["observed"] = rr.Lines
				rec["summary"] = fmt.Sprintf("%v\n  %s", p["desc"], strings.ReplaceAll(d, "\n", "\n  "))
				mism = append(mism, mismatch{p, rr, rec})
			} else {
				agree++
				if agree%997 == 1 {
					c.Sample(map[string]any{"desc": p["desc"], "predicted_and_observed": obs.Lines()})
				}
			}
		}
	}
	// explain differences by recorded known deviations (one deviating model run per deviation)
	if len(mism) > 0 {
		devSets := [][]string{}
		for _, d := range c.KnownDeviations() {
			devSets = append(devSets, []string{d})
		}
		if all := c.KnownDeviations(); len(all) > 1 {
			devSets = append(devSets, all) // several recorded deviations in one program
		}
		for _, devs := range devSets {
			dev := strings.Join(devs, "+")
			var todo []M
			for _, m := range mism {
				if m.rec["deviation"] == nil && m.rec["kind"] == "output_mismatch" {
					todo = append(todo, m.p)
				}
			}
			if len(todo) == 0 {
				break
			}
			dr, err := Predict(c, todo, "Deviant.cfg", MaxSteps, 20*time.Minute, devs...)
			if err != nil {
				return err
			}
			for _, m := range mism {
				if o := dr.Obs[m.p["id"].(int)]; o != nil && m.rec["deviation"] == nil && m.rec["kind"] == "output_mismatch" {
					if Diff(o.Lines(), m.rr.Lines) == "" {
						m.rec["deviation"] = dev
					}
				}
			}
		}
		for _, m := range mism {
			c.Violation(m.rec)
		}
	}
	c.CovAdd("traces_validated_against_impl", agree)
	c.CovAdd("programs", len(progs))
	c.CovAdd("out_of_domain", ood)
	c.CovAdd("model_gave_up", maxsteps)
	c.Logf("agree=%d out_of_domain=%d model_gave_up=%d differences=%d violations=%d", agree, ood, maxsteps, len(mism), c.Violations())
	if ood*5 > len(progs) {
		return core.Inconclusivef("%d of %d generated programs were rejected by the checker: the generator left the domain", ood, len(progs))
	}
	if agree == 0 {
		return core.Inconclusivef("no program was compared")
	}
	return nil
}

func emitBatches(progs []M, batch int) {
	// emission assigns the line numbers the model needs; batches must be the ones RunReal uses
	for i := 0; i < len(progs); i += batch {
		j := i + batch
		if j > len(progs) {
			j = len(progs)
		}
		EmitBatch(progs[i:j])
	}
}

func srcOf(rr *RealRun, p M) string {
	if rr.Alone {
		return rr.Src
	}
	return EmitBatch([]M{p})
}

func firstLine(s string) string {
	if i := strings.IndexByte(s, '\n'); i >= 0 {
		return s[:i]
	}
	return s
}
