// Package elkcore is the Go side of spec/ElkCore: program ASTs as JSON-able maps (the same records
// the TLA+ machine executes), the emitter that prints them as Elk source, the TLC runner that
// obtains the predicted observation of every program, and the comparison with the real VM.
package elkcore

// M is an AST node: a JSON object. The field names are the ones ElkCore.tla reads.
type M = map[string]any

// L is a list of nodes. Always non-nil so that it serialises as [] (TLA+ <<>>).
type L = []any

func B(stmts ...any) L {
	out := L{}
	for _, s := range stmts {
		if s == nil {
			continue
		}
		if l, ok := s.(L); ok {
			out = append(out, l...)
		} else {
			out = append(out, s)
		}
	}
	return out
}

// ---- expressions
func Int(v int) M            { return M{"k": "int", "v": v} }
func Nil() M                 { return M{"k": "nil"} }
func Sym(i int) M            { return M{"k": "sym", "v": i} } // 1=a 2=b 3=c 4=stop_iteration
func True() M                { return M{"k": "true"} }
func False() M               { return M{"k": "false"} }
func Var(n string) M         { return M{"k": "var", "n": n} }
func Bin(op string, a, b M) M { return M{"k": "bin", "op": op, "a": a, "b": b} }
func Not(a M) M              { return M{"k": "not", "a": a} }
func And(a, b M) M           { return M{"k": "and", "a": a, "b": b} }
func Or(a, b M) M            { return M{"k": "or", "a": a, "b": b} }
func NilC(a, b M) M          { return M{"k": "nilc", "a": a, "b": b} }
func Paren(a M) M            { return M{"k": "paren", "a": a} }
func Pr(id int, a M) M       { return M{"k": "pr", "id": id, "a": a} }

// ---- statements
func Print(e M) M { return M{"k": "print", "e": e} }
func ExprS(e M) M { return M{"k": "expr", "e": e} }

// Let declares a variable. ty: Elk type annotation ("" = inferred with :=).
func Let(n, ty string, e M) M { return M{"k": "let", "n": n, "ty": ty, "e": e} }
func Set(n string, e M) M    { return M{"k": "set", "n": n, "e": e} }
func Defer(e M) M            { return M{"k": "defer", "e": e} }
func Break(label string) M   { return M{"k": "break", "l": label, "e": Nil(), "hasv": false} }
func BreakV(label string, e M) M {
	return M{"k": "break", "l": label, "e": e, "hasv": true}
}
func Continue(label string) M { return M{"k": "continue", "l": label} }
func Return(e M) M           { return M{"k": "return", "e": e} }
func Throw(e M) M            { return M{"k": "throw", "e": e} }
func If(c M, a, b L) M       { return M{"k": "if", "c": c, "a": a, "b": b, "neg": false} }

func loopBase(kind, label string, body L) M {
	return M{"k": "loop", "kind": kind, "label": label, "dst": "", "body": body,
		"c": Nil(), "var": "", "items": L{}, "init": Nil(), "step": Nil()}
}
func Loop(label string, body L) M { return loopBase("loop", label, body) }
func While(label string, c M, body L) M {
	m := loopBase("while", label, body)
	m["c"] = c
	return m
}
func Until(label string, c M, body L) M {
	m := loopBase("until", label, body)
	m["c"] = c
	return m
}
func ForIn(label, v string, items L, body L) M {
	m := loopBase("forin", label, body)
	m["var"] = v
	m["items"] = items
	return m
}
func ForNum(label, v string, init, c, step M, body L) M {
	m := loopBase("fornum", label, body)
	m["var"] = v
	m["init"] = init
	m["c"] = c
	m["step"] = step
	return m
}

// Catch clause. pat: CatchSym(i) or CatchAny(name).
func CatchSym(i int, body L) M {
	return M{"pat": M{"kind": "sym", "v": i, "n": ""}, "body": body}
}
func CatchAny(n string, body L) M {
	return M{"pat": M{"kind": "any", "v": 0, "n": n}, "body": body}
}
func Try(body L, catches L, hasfin bool, fin L) M {
	if catches == nil {
		catches = L{}
	}
	if fin == nil {
		fin = L{}
	}
	return M{"k": "try", "body": body, "catches": catches, "hasfin": hasfin, "fin": fin}
}
func Call(dst, f string, args ...any) M {
	return M{"k": "call", "dst": dst, "decl": false, "f": f, "args": B(args...)}
}

// CallDecl declares dst with the result (`dst := f(args)`).
func CallDecl(dst, f string, args ...any) M {
	return M{"k": "call", "dst": dst, "decl": true, "f": f, "args": B(args...)}
}
func CallC(dst, c string, args ...any) M {
	return M{"k": "callc", "dst": dst, "decl": false, "c": c, "args": B(args...)}
}
func CallCDecl(dst, c string, args ...any) M {
	return M{"k": "callc", "dst": dst, "decl": true, "c": c, "args": B(args...)}
}

// TCall is `return f(args)`: a call in tail position.
func TCall(f string, args ...any) M {
	return M{"k": "tcall", "f": f, "args": B(args...)}
}

// ACall is `dst = f(args).await_sync` on an async method.
func ACall(dst, f string, args ...any) M {
	return M{"k": "acall", "dst": dst, "decl": false, "f": f, "args": B(args...)}
}

// Lam declares n as a closure. ret: Elk return type annotation of the closure.
func Lam(n string, params []string, ret string, body L) M {
	ps := L{}
	for _, p := range params {
		ps = append(ps, p)
	}
	return M{"k": "lam", "n": n, "params": ps, "ret": ret, "body": body, "fn": "<closure>"}
}
// Gen declares dst as a new generator object (`dst := f(args)` on a generator method).
func Gen(dst, f string, args ...any) M {
	return M{"k": "gen", "dst": dst, "f": f, "args": B(args...)}
}
func Next(dst, g string) M     { return M{"k": "next", "dst": dst, "decl": false, "g": g} }
func NextDecl(dst, g string) M { return M{"k": "next", "dst": dst, "decl": true, "g": g} }

// ForGen is `for v in f(args) ... end` over a generator method. The machine executes the expansion.
func ForGen(label, v, f string, args L, body L, uniq string) M {
	g := "g_" + uniq
	expansion := B(
		M{"k": "gen", "dst": g, "f": f, "args": args},
		Loop(label, B(
			Let(v, "Int", Int(0)),
			Try(B(Next(v, g)), L{CatchSym(4, B(Break("")))}, false, nil),
			body,
		)),
	)
	return M{"k": "forgen", "label": label, "var": v, "f": f, "args": args, "body": body, "desugared": expansion}
}
func Yield(e M) M          { return M{"k": "yield", "e": e} }

// Def is a method definition. ret: Elk return type; gen: generator method.
func Def(params []string, ret string, gen bool, body L) M {
	ps := L{}
	for _, p := range params {
		ps = append(ps, p)
	}
	return M{"params": ps, "ret": ret, "gen": gen, "async": false, "throws": "", "body": body}
}

// AsyncDef is an async method definition.
func AsyncDef(params []string, ret string, body L) M {
	d := Def(params, ret, false, body)
	d["async"] = true
	return d
}

// Prog builds a program; defs must contain "main_".
func Prog(id int, defs map[string]M) M {
	d := M{}
	for k, v := range defs {
		d[k] = v
	}
	return M{"id": id, "defs": d}
}
