package elkcore

import (
	"bytes"
	"crypto/sha1"
	"encoding/json"
	"fmt"
	"os"
	"path/filepath"
	"strings"
	"sync"
	"time"

	"elkverif/internal/core"
	"elkverif/internal/elkrun"
	"elkverif/internal/tlc"
)

// Obs is the observation ElkCore predicts for one program (the GEN record of Finish/GiveUp).
type Obs struct {
	ID      int      `json:"id"`
	Out     []string `json:"out"`
	Outcome struct {
		K     string   `json:"k"` // ret | thrown | maxsteps | stray_*
		V     string   `json:"v"`
		Trace []string `json:"trace"`
	} `json:"outcome"`
	Steps int `json:"steps"`
}

// Lines is the full expected stdout of the program when run inside its batch handler.
func (o *Obs) Lines() []string {
	l := append([]string{}, o.Out...)
	switch o.Outcome.K {
	case "ret":
		l = append(l, "ret", o.Outcome.V)
	case "thrown":
		l = append(l, "thrown", o.Outcome.V)
	}
	return l
}

type ModelRun struct {
	Obs     map[int]*Obs
	TLC     *tlc.Result
	counted bool
}

// Predict runs TLC on spec/ElkCore with the given programs (progs.ndjson) and returns the predicted
// observation of each. The invariants of cfg are checked on every state of every execution.
// The programs must already have been emitted (line numbers assigned).
var (
	predictMu    sync.Mutex
	predictCache = map[[20]byte]*ModelRun{}
)

// Predict memoises by (programs, cfg, bounds, deviations): properties that run the same programs
// under several runtime configurations ask TLC once.
func Predict(c *core.Ctx, progs []M, cfg string, maxSteps int, timeout time.Duration, deviations ...string) (*ModelRun, error) {
	h := sha1.New()
	fmt.Fprintf(h, "%s|%d|%v|", cfg, maxSteps, deviations)
	for _, p := range progs {
		b, _ := json.Marshal(p)
		h.Write(b)
	}
	var key [20]byte
	copy(key[:], h.Sum(nil))
	predictMu.Lock()
	if mr, ok := predictCache[key]; ok {
		predictMu.Unlock()
		return mr, nil
	}
	predictMu.Unlock()
	mr, err := predictUncached(c, progs, cfg, maxSteps, timeout, deviations...)
	if err == nil {
		predictMu.Lock()
		predictCache[key] = mr
		predictMu.Unlock()
	}
	return mr, err
}

func predictUncached(c *core.Ctx, progs []M, cfg string, maxSteps int, timeout time.Duration, deviations ...string) (*ModelRun, error) {
	// TLC holds the whole program file in memory as TLA+ values: shard large instances
	const shard = 2500
	par := 4
	if len(progs) <= shard {
		return predictShard(c, progs, cfg, maxSteps, timeout, c.Workers, deviations)
	}
	var shards [][]M
	for i := 0; i < len(progs); i += shard {
		j := i + shard
		if j > len(progs) {
			j = len(progs)
		}
		shards = append(shards, progs[i:j])
	}
	total := &ModelRun{Obs: map[int]*Obs{}, TLC: &tlc.Result{OK: true, Verdict: "ok"}}
	var mu sync.Mutex
	var firstErr error
	sem := make(chan struct{}, par)
	var wg sync.WaitGroup
	for _, sh := range shards {
		wg.Add(1)
		sem <- struct{}{}
		go func(sh []M) {
			defer wg.Done()
			defer func() { <-sem }()
			w := c.Workers / par
			if w < 2 {
				w = 2
			}
			mr, err := predictShard(c, sh, cfg, maxSteps, timeout, w, deviations)
			mu.Lock()
			defer mu.Unlock()
			if err != nil {
				if firstErr == nil {
					firstErr = err
				}
				return
			}
			for k, v := range mr.Obs {
				total.Obs[k] = v
			}
			total.TLC.Generated += mr.TLC.Generated
			total.TLC.Distinct += mr.TLC.Distinct
			if mr.TLC.Depth > total.TLC.Depth {
				total.TLC.Depth = mr.TLC.Depth
			}
		}(sh)
	}
	wg.Wait()
	if firstErr != nil {
		return total, firstErr
	}
	return total, nil
}

func predictShard(c *core.Ctx, progs []M, cfg string, maxSteps int, timeout time.Duration, workers int, deviations []string) (*ModelRun, error) {
	var nd bytes.Buffer
	for _, p := range progs {
		b, err := json.Marshal(p)
		if err != nil {
			return nil, err
		}
		nd.Write(b)
		nd.WriteByte('\n')
	}
	mr := &ModelRun{Obs: map[int]*Obs{}}
	var devs []string
	for _, d := range deviations {
		devs = append(devs, fmt.Sprintf("%q", d))
	}
	mc := fmt.Sprintf("---- MODULE MC_ElkCore ----\nEXTENDS ElkCore\nMCMaxSteps == %d\nMCDeviations == {%s}\n====\n", maxSteps, strings.Join(devs, ", "))
	var perr error
	res, err := tlc.Run(tlc.Opts{
		SpecDir: filepath.Join(core.VerifRoot, "spec", "ElkCore"), Module: "MC_ElkCore", Cfg: cfg,
		Scratch: c.Scratch, Workers: workers, Timeout: timeout, HeapMB: 5000,
		Extra: map[string][]byte{"progs.ndjson": nd.Bytes(), "MC_ElkCore.tla": []byte(mc)},
		OnGen: func(rec []byte) {
			var o Obs
			if e := json.Unmarshal(rec, &o); e != nil {
				perr = fmt.Errorf("bad GEN record: %v: %s", e, rec)
				return
			}
			mr.Obs[o.ID] = &o
		},
	})
	if err != nil {
		return nil, err
	}
	mr.TLC = res
	if perr != nil {
		return nil, perr
	}
	if !res.OK {
		dbg := filepath.Join(os.TempDir(), "elkcore-failed-progs.ndjson")
		os.WriteFile(dbg, nd.Bytes(), 0o644)
		return mr, core.Inconclusivef("TLC on ElkCore (%s): verdict=%s %s (programs kept in %s)\n%s", cfg, res.Verdict, res.What, dbg, tailStr(res.Output, 3000))
	}
	if len(mr.Obs) != len(progs) {
		return mr, core.Inconclusivef("ElkCore produced %d observations for %d programs", len(mr.Obs), len(progs))
	}
	return mr, nil
}

func tailStr(s string, n int) string {
	if len(s) <= n {
		return s
	}
	return s[len(s)-n:]
}

// RealRun is the outcome of one program on the real implementation.
type RealRun struct {
	ID     int
	Lines  []string // stdout lines of this program (between its marker and the next)
	Res    *elkrun.Result
	Src    string // the source that was run (batch or single)
	Alone  bool   // run in a file of its own
	Broken string // harness-level problem (worker error); "" normally
}

// RunReal runs the programs on the real checker+compiler+VM in batches of batchSize per source
// file. A batch that is rejected, crashes, hangs or whose markers are incomplete is re-run one
// program per file so that every failure is attributed to a single program.
func RunReal(c *core.Ctx, pool *core.Pool, progs []M, batchSize int, cfg *elkrun.Cfg) map[int]*RealRun {
	out := map[int]*RealRun{}
	var batches [][]M
	for i := 0; i < len(progs); i += batchSize {
		j := i + batchSize
		if j > len(progs) {
			j = len(progs)
		}
		batches = append(batches, progs[i:j])
	}
	run := func(bs [][]M) [][]M {
		var jobs []core.Job
		var srcs []string
		for _, b := range bs {
			src := EmitBatch(b)
			srcs = append(srcs, src)
			jobs = append(jobs, core.Job{Kind: "elk", Payload: elkrun.Job{Src: src, Cfg: cfg, RunMs: 20000}, TimeoutMs: 60000})
		}
		results := pool.Map(jobs, nil)
		var retry [][]M
		for bi, jr := range results {
			b := bs[bi]
			var r elkrun.Result
			broken := ""
			switch {
			case jr.Crashed:
				r.GoPanic = "worker process died:\n" + jr.CrashLog
				r.PanicStage = "fatal"
			case jr.Timeout:
				r.Hung = true
			case jr.Panic != "":
				r.GoPanic = jr.Panic
				r.PanicStage = "worker"
			case jr.Err != "":
				broken = jr.Err
			default:
				if err := jr.Decode(&r); err != nil {
					broken = err.Error()
				}
			}
			per := splitByMarker(r.Stdout)
			clean := broken == "" && r.Accepted && r.GoPanic == "" && !r.Hung && r.ErrClass == "" && len(per) == len(b)
			if !clean && len(b) > 1 {
				for _, p := range b {
					retry = append(retry, []M{p})
				}
				continue
			}
			for _, p := range b {
				id := p["id"].(int)
				rr := r
				out[id] = &RealRun{ID: id, Lines: per[id], Res: &rr, Src: srcs[bi], Alone: len(b) == 1, Broken: broken}
			}
		}
		return retry
	}
	retry := run(batches)
	if len(retry) > 0 {
		run(retry)
	}
	return out
}

func splitByMarker(stdout string) map[int][]string {
	per := map[int][]string{}
	cur := -1
	for _, line := range strings.Split(strings.TrimRight(stdout, "\n"), "\n") {
		var id int
		if n, _ := fmt.Sscanf(line, "#prog %d", &id); n == 1 && strings.HasPrefix(line, "#prog ") {
			cur = id
			per[cur] = []string{}
			continue
		}
		if cur >= 0 {
			per[cur] = append(per[cur], line)
		}
	}
	return per
}

// Diff compares the predicted and the observed lines; "" if equal.
func Diff(want, got []string) string {
	if len(want) == len(got) {
		same := true
		for i := range want {
			if want[i] != got[i] {
				same = false
				break
			}
		}
		if same {
			return ""
		}
	}
	return fmt.Sprintf("spec: %s\nreal: %s", strings.Join(want, " | "), strings.Join(got, " | "))
}
