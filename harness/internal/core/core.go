// Package core is the shared pipeline of the verification harness: check registry, run context,
// evidence writer, known-findings matching, violation reporting.
package core

import (
	"encoding/json"
	"fmt"
	"math/rand"
	"os"
	"path/filepath"
	"sort"
	"strings"
	"sync"
	"time"
)

// VerifRoot is the root of the verification tree (spec/, evidence/, KNOWN_FINDINGS.jsonl). The run
// script exports VERIF_ROOT (its own directory) so that a git worktree of /verif works by itself.
var VerifRoot = func() string {
	if r := os.Getenv("VERIF_ROOT"); r != "" {
		return r
	}
	return "/verif"
}()

// RepoRoot is the elk-language/elk tree the harness was built against (VERIF_REPO, default /repo).
var RepoRoot = func() string {
	if r := os.Getenv("VERIF_REPO"); r != "" {
		return r
	}
	return "/repo"
}()

// Exit codes of a check.
const (
	ExitOK           = 0
	ExitViolation    = 1
	ExitInconclusive = 2
)

// Inconclusive is returned (or panicked) by a check when it could not decide: build failure, TLC
// crash/timeout, model drift, vacuous coverage, generator out of domain. Never a violation.
type Inconclusive struct{ Msg string }

func (e *Inconclusive) Error() string { return "INCONCLUSIVE: " + e.Msg }

func Inconclusivef(format string, a ...any) error {
	return &Inconclusive{Msg: fmt.Sprintf(format, a...)}
}

type Check struct {
	ID    string
	Level string // evidence level: model_checking | exploration | other ...
	Run   func(c *Ctx) error
}

var registry = map[string]*Check{}

func Register(ch *Check) {
	if _, dup := registry[ch.ID]; dup {
		panic("duplicate check " + ch.ID)
	}
	registry[ch.ID] = ch
}

func Lookup(id string) *Check { return registry[id] }

func IDs() []string {
	var ids []string
	for id := range registry {
		ids = append(ids, id)
	}
	sort.Strings(ids)
	return ids
}

// Ctx is the run context handed to a check.
type Ctx struct {
	ID      string
	Tier    string // quick | thorough
	Seed    int64
	Rand    *rand.Rand
	Scratch string // private scratch directory, removed at exit
	Workers int
	Replay  string // non-empty: replay file given on the command line
	Start   time.Time

	mu         sync.Mutex
	violations int
	knownHits  map[string]int
	known      []KnownFinding
	cov        map[string]any
	samples    []any
	assume     []string
	level      string
	replayN    int
	notes      []string
}

func NewCtx(id, tier string, seed int64, level string) (*Ctx, error) {
	scratch, err := os.MkdirTemp("", "elkverif-"+id+"-")
	if err != nil {
		return nil, err
	}
	workers := 16
	if tier == "quick" {
		workers = 8
	}
	if w := os.Getenv("VERIF_WORKERS"); w != "" {
		fmt.Sscanf(w, "%d", &workers)
	}
	c := &Ctx{
		ID: id, Tier: tier, Seed: seed, Rand: rand.New(rand.NewSource(seed)),
		Scratch: scratch, Workers: workers, Start: time.Now(),
		knownHits: map[string]int{}, cov: map[string]any{}, level: level,
	}
	c.known, err = LoadKnown(id)
	if err != nil {
		return nil, err
	}
	return c, nil
}

func (c *Ctx) Thorough() bool { return c.Tier == "thorough" }

// Pick returns q for the quick tier and t for the thorough tier.
func (c *Ctx) Pick(q, t int) int {
	if c.Thorough() {
		return t
	}
	return q
}

func (c *Ctx) Cleanup() { os.RemoveAll(c.Scratch) }

func (c *Ctx) Logf(format string, a ...any) {
	fmt.Fprintf(os.Stderr, "[%s %s %6.1fs] %s\n", c.ID, c.Tier, time.Since(c.Start).Seconds(), fmt.Sprintf(format, a...))
}

// Cov sets a coverage key of the evidence file.
func (c *Ctx) Cov(key string, v any) {
	c.mu.Lock()
	defer c.mu.Unlock()
	c.cov[key] = v
}

// CovAdd adds n to an integer coverage key.
func (c *Ctx) CovAdd(key string, n int) {
	c.mu.Lock()
	defer c.mu.Unlock()
	cur, _ := c.cov[key].(int)
	c.cov[key] = cur + n
}

func (c *Ctx) CovInt(key string) int {
	c.mu.Lock()
	defer c.mu.Unlock()
	cur, _ := c.cov[key].(int)
	return cur
}

// Sample records one concrete explored case in the evidence (at most 6 are kept).
func (c *Ctx) Sample(v any) {
	c.mu.Lock()
	defer c.mu.Unlock()
	if len(c.samples) < 6 {
		c.samples = append(c.samples, v)
	}
}

func (c *Ctx) Assume(s string) {
	c.mu.Lock()
	defer c.mu.Unlock()
	for _, a := range c.assume {
		if a == s {
			return
		}
	}
	c.assume = append(c.assume, s)
}

func (c *Ctx) Note(s string) {
	c.mu.Lock()
	defer c.mu.Unlock()
	c.notes = append(c.notes, s)
}

// Violation reports behaviour of the real code that the specification forbids. rec describes the
// failing case (it becomes the replay file). If it matches a known finding of KNOWN_FINDINGS.jsonl
// a KNOWN-FINDING line is printed instead (once per finding) and the run is not failed.
func (c *Ctx) Violation(rec map[string]any) {
	c.mu.Lock()
	defer c.mu.Unlock()
	rec["property"] = c.ID
	for _, k := range c.known {
		if k.Status == "known" && k.Matches(rec) {
			c.knownHits[k.ID]++
			if c.knownHits[k.ID] == 1 {
				fmt.Printf("KNOWN-FINDING: property=%s %s: %s\n", c.ID, k.ID, k.What)
			}
			return
		}
	}
	c.violations++
	if c.violations > 25 {
		// enough replay files; keep a one-line trace of the rest on stderr
		if s, ok := rec["summary"].(string); ok && c.violations < 2000 {
			fmt.Fprintf(os.Stderr, "  (more) %s\n", strings.SplitN(s, "\n", 2)[0])
		}
		return
	}
	c.replayN++
	dir := filepath.Join(VerifRoot, "evidence", "replays", c.ID)
	os.MkdirAll(dir, 0o755)
	path := filepath.Join(dir, fmt.Sprintf("%s-%d-%d.json", c.Tier, c.Seed, c.replayN))
	b, _ := json.MarshalIndent(rec, "", " ")
	os.WriteFile(path, b, 0o644)
	fmt.Printf("VIOLATION property=%s replay=%s\n", c.ID, path)
	if s, ok := rec["summary"].(string); ok {
		fmt.Printf("  %s\n", s)
	}
}

// KnownDeviations lists the spec deviations named by this property's known findings.
func (c *Ctx) KnownDeviations() []string {
	var out []string
	seen := map[string]bool{}
	for _, k := range c.known {
		if k.Status == "known" && k.Deviation != "" && !seen[k.Deviation] {
			seen[k.Deviation] = true
			out = append(out, k.Deviation)
		}
	}
	return out
}

func (c *Ctx) Violations() int {
	c.mu.Lock()
	defer c.mu.Unlock()
	return c.violations
}

type evidence struct {
	PropertyID  string         `json:"property_id"`
	Tier        string         `json:"tier"`
	Seed        int64          `json:"seed"`
	Level       string         `json:"level"`
	Coverage    map[string]any `json:"coverage"`
	Assumptions []string       `json:"assumptions,omitempty"`
	WallS       float64        `json:"wall_s"`
	Violations  int            `json:"violations"`
	KnownHits   map[string]int `json:"known_findings_hit,omitempty"`
	Notes       []string       `json:"notes,omitempty"`
	Outcome     string         `json:"outcome"`
}

// WriteEvidence writes evidence/<ID>.json from what actually ran.
func (c *Ctx) WriteEvidence(outcome string) error {
	c.mu.Lock()
	defer c.mu.Unlock()
	cov := map[string]any{}
	for k, v := range c.cov {
		cov[k] = v
	}
	if len(c.samples) > 0 {
		cov["samples"] = c.samples
	}
	ev := evidence{
		PropertyID: c.ID, Tier: c.Tier, Seed: c.Seed, Level: c.level, Coverage: cov,
		Assumptions: c.assume, WallS: time.Since(c.Start).Seconds(), Violations: c.violations,
		KnownHits: c.knownHits, Notes: c.notes, Outcome: outcome,
	}
	b, err := json.MarshalIndent(ev, "", " ")
	if err != nil {
		return err
	}
	dir := filepath.Join(VerifRoot, "evidence")
	os.MkdirAll(dir, 0o755)
	return os.WriteFile(filepath.Join(dir, c.ID+".json"), append(b, '\n'), 0o644)
}

// ---- known findings -----------------------------------------------------------------------------

// KnownFinding is one line of /verif/KNOWN_FINDINGS.jsonl. Match is a conjunction over fields of the
// violation record: a string/number/bool must be equal; a string starting with "~" must be
// contained in the record's (stringified) field.
type KnownFinding struct {
	Status   string         `json:"status"` // known | fixed
	Property string         `json:"property"`
	ID       string         `json:"id"`
	Match    map[string]any `json:"match"`
	What     string         `json:"what"`
	Commit   string         `json:"commit,omitempty"`
	// Deviation names a guarded deviation branch of the specification that reproduces this finding;
	// checks re-run the model with it to recognise the finding exactly.
	Deviation string `json:"deviation,omitempty"`
	// Also lists further properties whose checks reach the same defect through the same record shape.
	Also []string `json:"also,omitempty"`
}

func LoadKnown(property string) ([]KnownFinding, error) {
	files := []string{filepath.Join(VerifRoot, "KNOWN_FINDINGS.jsonl")}
	more, _ := filepath.Glob(filepath.Join(VerifRoot, "known", "*.jsonl"))
	sort.Strings(more)
	files = append(files, more...)
	var out []KnownFinding
	for _, f := range files {
		b, err := os.ReadFile(f)
		if os.IsNotExist(err) {
			continue
		}
		if err != nil {
			return nil, err
		}
		for i, line := range strings.Split(string(b), "\n") {
			line = strings.TrimSpace(line)
			if line == "" || strings.HasPrefix(line, "#") {
				continue
			}
			var k KnownFinding
			if err := json.Unmarshal([]byte(line), &k); err != nil {
				return nil, fmt.Errorf("%s line %d: %v", f, i+1, err)
			}
			if k.Property == property {
				out = append(out, k)
			} else {
				for _, a := range k.Also {
					if a == property {
						out = append(out, k)
					}
				}
			}
		}
	}
	return out, nil
}

func (k *KnownFinding) Matches(rec map[string]any) bool {
	if len(k.Match) == 0 {
		return false
	}
	for field, want := range k.Match {
		got, ok := rec[field]
		if !ok {
			return false
		}
		gs := stringify(got)
		ws := stringify(want)
		if strings.HasPrefix(ws, "~") {
			if !strings.Contains(gs, ws[1:]) {
				return false
			}
		} else if gs != ws {
			return false
		}
	}
	return true
}

func stringify(v any) string {
	switch x := v.(type) {
	case string:
		return x
	case float64:
		if x == float64(int64(x)) {
			return fmt.Sprintf("%d", int64(x))
		}
		return fmt.Sprintf("%v", x)
	default:
		b, _ := json.Marshal(v)
		return string(b)
	}
}
