package core

import (
	"runtime/debug"
	"sort"
)

func stackString() string {
	s := string(debug.Stack())
	if len(s) > 6000 {
		s = s[:6000]
	}
	return s
}

// SampleIdx returns k distinct indices of 0..n-1 chosen with the context's seeded RNG (all of
// them if k >= n), in ascending order.
func (c *Ctx) SampleIdx(n, k int) []int {
	if k >= n {
		out := make([]int, n)
		for i := range out {
			out[i] = i
		}
		return out
	}
	perm := c.Rand.Perm(n)[:k]
	sort.Ints(perm)
	return perm
}
