package core

import (
	"bufio"
	"encoding/json"
	"fmt"
	"io"
	"os"
	"os/exec"
	"path/filepath"
	"strings"
	"sync"
	"time"
)

// Crash-isolated worker processes. The driver (vcheck) starts N copies of itself with --worker; each
// reads one JSON job per line on stdin and answers one JSON line on fd 3. The worker's own
// stdout/stderr go to a per-worker log file, which is where a Go "fatal error:" banner ends up.

type JobHandler func(payload json.RawMessage) (any, error)

var handlers = map[string]JobHandler{}

var restartRequested bool

// RequestWorkerRestart is called by a job handler (inside a worker process) whose job left
// goroutines or global state behind (e.g. a deliberately deadlocked runtime): the pool replaces the
// worker process after the current job's result has been delivered.
func RequestWorkerRestart() { restartRequested = true }

// RegisterJob registers a job kind executed inside worker processes.
func RegisterJob(kind string, h JobHandler) {
	if _, dup := handlers[kind]; dup {
		panic("duplicate job kind " + kind)
	}
	handlers[kind] = h
}

type Job struct {
	Kind      string `json:"kind"`
	Payload   any    `json:"payload"`
	TimeoutMs int    `json:"timeout_ms,omitempty"` // 0 = default 30 s
}

type wireJob struct {
	Seq     int             `json:"seq"`
	Kind    string          `json:"kind"`
	Payload json.RawMessage `json:"payload"`
}

type wireResult struct {
	Seq    int             `json:"seq"`
	Result json.RawMessage `json:"result,omitempty"`
	Err    string          `json:"err,omitempty"`
	Panic  string          `json:"panic,omitempty"` // Go panic recovered by the worker loop itself
	Restart bool           `json:"restart,omitempty"` // the handler left the process in a state that must not be reused
}

// JobResult is what the driver gets back for one job.
type JobResult struct {
	Result  json.RawMessage // handler result
	Err     string          // handler returned an error (harness-level problem)
	Panic   string          // handler panicked (recovered in the worker; Go panic text + stack)
	Crashed bool            // the worker process died while running this job
	CrashLog string         // tail of the worker's stderr/stdout when it died
	Timeout bool            // killed after the job's timeout
	Restart bool            // the worker asked to be replaced after this job
}

func (r *JobResult) Decode(v any) error { return json.Unmarshal(r.Result, v) }

// WorkerMain is the worker-process loop.
func WorkerMain() {
	out := os.NewFile(3, "results")
	if out == nil {
		fmt.Fprintln(os.Stderr, "worker: fd 3 missing")
		os.Exit(3)
	}
	w := bufio.NewWriter(out)
	rd := bufio.NewReaderSize(os.Stdin, 1<<20)
	for {
		line, err := rd.ReadBytes('\n')
		if len(line) > 0 {
			var j wireJob
			if e := json.Unmarshal(line, &j); e != nil {
				fmt.Fprintln(os.Stderr, "worker: bad job:", e)
				os.Exit(3)
			}
			res := runJob(&j)
			res.Restart = restartRequested
			b, _ := json.Marshal(res)
			w.Write(b)
			w.WriteByte('\n')
			w.Flush()
		}
		if err != nil {
			return
		}
	}
}

func runJob(j *wireJob) (res wireResult) {
	res.Seq = j.Seq
	h := handlers[j.Kind]
	if h == nil {
		res.Err = "unknown job kind " + j.Kind
		return
	}
	defer func() {
		if r := recover(); r != nil {
			res.Panic = fmt.Sprintf("%v\n%s", r, stackString())
		}
	}()
	v, err := h(j.Payload)
	if err != nil {
		res.Err = err.Error()
		return
	}
	b, err := json.Marshal(v)
	if err != nil {
		res.Err = "marshal result: " + err.Error()
		return
	}
	res.Result = b
	return
}

type worker struct {
	cmd     *exec.Cmd
	stdin   io.WriteCloser
	results *bufio.Reader
	rfile   *os.File
	logPath string
}

type Pool struct {
	n       int
	scratch string
	env     []string
	self    string
}

// NewPool creates a pool of n worker processes (started lazily by Map). extraEnv entries
// ("K=V") are added to the workers' environment.
func (c *Ctx) NewPool(n int, extraEnv ...string) *Pool {
	self, _ := os.Executable()
	return &Pool{n: n, scratch: c.Scratch, env: extraEnv, self: self}
}

func (p *Pool) start(i int) (*worker, error) {
	logPath := filepath.Join(p.scratch, fmt.Sprintf("worker-%d-%d.log", os.Getpid(), i))
	logf, err := os.Create(logPath)
	if err != nil {
		return nil, err
	}
	defer logf.Close()
	pr, pw, err := os.Pipe()
	if err != nil {
		return nil, err
	}
	cmd := exec.Command(p.self, "--worker")
	cmd.Stdout = logf
	cmd.Stderr = logf
	cmd.ExtraFiles = []*os.File{pw}
	cmd.Env = append(os.Environ(), p.env...)
	stdin, err := cmd.StdinPipe()
	if err != nil {
		return nil, err
	}
	if err := cmd.Start(); err != nil {
		return nil, err
	}
	pw.Close()
	return &worker{cmd: cmd, stdin: stdin, results: bufio.NewReaderSize(pr, 1<<20), rfile: pr, logPath: logPath}, nil
}

func (w *worker) kill() {
	w.stdin.Close()
	w.cmd.Process.Kill()
	w.cmd.Wait()
	w.rfile.Close()
}

func (w *worker) logTail() string {
	b, _ := os.ReadFile(w.logPath)
	s := string(b)
	if len(s) > 6000 {
		s = s[:3000] + "\n...\n" + s[len(s)-3000:]
	}
	return s
}

// Map runs all jobs on the pool and returns their results in order. A worker that dies or times out
// is restarted; the in-flight job gets Crashed/Timeout.
func (p *Pool) Map(jobs []Job, progress func(done int)) []JobResult {
	results := make([]JobResult, len(jobs))
	next := make(chan int, len(jobs))
	for i := range jobs {
		next <- i
	}
	close(next)
	var wg sync.WaitGroup
	var doneMu sync.Mutex
	done := 0
	n := p.n
	if n > len(jobs) {
		n = len(jobs)
	}
	for wi := 0; wi < n; wi++ {
		wg.Add(1)
		go func(wi int) {
			defer wg.Done()
			var w *worker
			defer func() {
				if w != nil {
					w.kill()
				}
			}()
			for i := range next {
				if w == nil {
					var err error
					w, err = p.start(wi)
					if err != nil {
						results[i] = JobResult{Err: "cannot start worker: " + err.Error()}
						continue
					}
				}
				results[i] = p.runOne(w, i, &jobs[i])
				if results[i].Crashed || results[i].Timeout || results[i].Restart {
					w.kill()
					w = nil
				}
				doneMu.Lock()
				done++
				d := done
				doneMu.Unlock()
				if progress != nil {
					progress(d)
				}
			}
		}(wi)
	}
	wg.Wait()
	return results
}

func (p *Pool) runOne(w *worker, seq int, j *Job) JobResult {
	payload, err := json.Marshal(j.Payload)
	if err != nil {
		return JobResult{Err: "marshal payload: " + err.Error()}
	}
	b, _ := json.Marshal(wireJob{Seq: seq, Kind: j.Kind, Payload: payload})
	b = append(b, '\n')
	if _, err := w.stdin.Write(b); err != nil {
		return JobResult{Crashed: true, CrashLog: w.logTail()}
	}
	timeout := time.Duration(j.TimeoutMs) * time.Millisecond
	if timeout == 0 {
		timeout = 30 * time.Second
	}
	type rd struct {
		line []byte
		err  error
	}
	ch := make(chan rd, 1)
	go func() {
		line, err := w.results.ReadBytes('\n')
		ch <- rd{line, err}
	}()
	select {
	case r := <-ch:
		if r.err != nil {
			// worker died
			time.Sleep(20 * time.Millisecond)
			w.cmd.Wait()
			return JobResult{Crashed: true, CrashLog: w.logTail()}
		}
		var wr wireResult
		if e := json.Unmarshal(r.line, &wr); e != nil {
			return JobResult{Err: "bad worker result: " + e.Error()}
		}
		return JobResult{Result: wr.Result, Err: wr.Err, Panic: wr.Panic, Restart: wr.Restart}
	case <-time.After(timeout):
		return JobResult{Timeout: true, CrashLog: w.logTail()}
	}
}

// IsGoFatal reports whether a crash log shows the Go runtime killing the process.
func IsGoFatal(log string) bool {
	return strings.Contains(log, "fatal error:") || strings.Contains(log, "panic:") || strings.Contains(log, "SIGSEGV") || strings.Contains(log, "unexpected signal")
}

// RunHandlerForTest runs a registered job handler in the calling process (developer aid).
func RunHandlerForTest(kind string, payload json.RawMessage) (any, error) {
	h := handlers[kind]
	if h == nil {
		return nil, fmt.Errorf("unknown job kind %s", kind)
	}
	return h(payload)
}
