// Package tlc runs TLC on a specification in a private scratch copy, collects the behaviours the
// specification emits ("GEN" records printed from inside actions) and parses TLC's verdict.
package tlc

import (
	"bufio"
	"bytes"
	"context"
	"fmt"
	"io"
	"os"
	"os/exec"
	"path/filepath"
	"regexp"
	"strconv"
	"strings"
	"time"
)

const Jar = "/opt/veriftools/tla/tla2tools.jar"
const CommunityJar = "/opt/veriftools/tla/CommunityModules-deps.jar"

type Opts struct {
	SpecDir  string            // directory holding the .tla/.cfg files (copied to scratch)
	Module   string            // root module name (file Module.tla)
	Cfg      string            // config file name (default Module.cfg)
	Scratch  string            // parent scratch dir (a subdir is created)
	Workers  int               // default 8
	Timeout  time.Duration     // default 10 min
	Simulate string            // e.g. "num=500" -> -simulate num=500 ; empty = BFS model checking
	Depth    int               // -depth for simulation
	Seed     int64             // -seed (simulation)
	Extra    map[string][]byte // extra files written next to the spec (traces, generated MC modules)
	Coverage bool              // -coverage 1
	DFS      bool              // depth-first state queue (trace validation with unlogged variables)
	HeapMB   int               // -Xmx (default 6000)
	OnGen    func(rec []byte)  // called with the JSON text of each GEN record (sequentially)
	Deadlock bool              // pass -deadlock (i.e. do NOT check deadlock) when false is wanted use cfg
	KeepOut  bool              // keep full output in Result.Output (default: tail only)
}

type Result struct {
	Generated  int64
	Distinct   int64
	Depth      int
	ExitCode   int
	OK         bool   // "No error has been found"
	Verdict    string // ok | invariant | deadlock | temporal | postcondition | assume | error | timeout
	What       string // name of the violated invariant/property, or first error line
	Output     string // tail (or all) of TLC's stdout without GEN lines
	GenCount   int
	ActionCov  map[string]int64 // from -coverage: action name -> distinct states found by it
	WallS      float64
	ErrorTrace string // text of the counterexample, if any
}

var (
	reStates = regexp.MustCompile(`(\d+) states generated, (\d+) distinct states found`)
	reDepth  = regexp.MustCompile(`The depth of the complete state graph search is (\d+)`)
	reInv    = regexp.MustCompile(`Error: Invariant (\S+) is violated`)
	reActP   = regexp.MustCompile(`Error: Action property (\S+) is violated`)
	reCov    = regexp.MustCompile(`^<(\w+) line \d+, col \d+ to line \d+, col \d+ of module (\w+)>: (\d+):(\d+)`)
)

// ParseGen extracts the JSON text from a line `<<"GEN", "...">>`; ok=false if the line is not a record.
func ParseGen(line string) (string, bool) {
	const pre = `<<"GEN", `
	if !strings.HasPrefix(line, pre) || !strings.HasSuffix(line, ">>") {
		return "", false
	}
	q := line[len(pre) : len(line)-2]
	s, err := strconv.Unquote(q)
	if err != nil {
		// TLC escapes only \" \\ \n \t etc.; fall back to manual unescape
		s = strings.NewReplacer(`\"`, `"`, `\\`, `\`, `\n`, "\n", `\t`, "\t").Replace(q[1 : len(q)-1])
	}
	return s, true
}

func Run(o Opts) (*Result, error) {
	if o.Cfg == "" {
		o.Cfg = o.Module + ".cfg"
	}
	if o.Workers == 0 {
		o.Workers = 8
	}
	if o.Timeout == 0 {
		o.Timeout = 10 * time.Minute
	}
	if o.HeapMB == 0 {
		o.HeapMB = 6000
	}
	dir, err := os.MkdirTemp(o.Scratch, "tlc-")
	if err != nil {
		return nil, err
	}
	defer os.RemoveAll(dir)
	entries, err := os.ReadDir(o.SpecDir)
	if err != nil {
		return nil, err
	}
	for _, e := range entries {
		if e.IsDir() {
			continue
		}
		n := e.Name()
		if strings.HasSuffix(n, ".tla") || strings.HasSuffix(n, ".cfg") || strings.HasSuffix(n, ".json") || strings.HasSuffix(n, ".ndjson") {
			b, err := os.ReadFile(filepath.Join(o.SpecDir, n))
			if err != nil {
				return nil, err
			}
			if err := os.WriteFile(filepath.Join(dir, n), b, 0o644); err != nil {
				return nil, err
			}
		}
	}
	for n, b := range o.Extra {
		if err := os.WriteFile(filepath.Join(dir, n), b, 0o644); err != nil {
			return nil, err
		}
	}
	tmp := filepath.Join(dir, "jtmp")
	os.MkdirAll(tmp, 0o755)
	args := []string{
		fmt.Sprintf("-Xmx%dm", o.HeapMB), "-Xss64m", "-XX:+UseParallelGC",
		"-Djava.io.tmpdir=" + tmp,
	}
	if o.DFS {
		args = append(args, "-Dtlc2.tool.queue.IStateQueue=StateDeque")
	}
	cp := Jar
	if _, err := os.Stat(CommunityJar); err == nil {
		cp += ":" + CommunityJar
	}
	args = append(args, "-cp", classpath(), "tlc2.TLC",
		"-workers", strconv.Itoa(o.Workers), "-metadir", filepath.Join(dir, "meta"), "-config", o.Cfg, "-noGenerateSpecTE")
	_ = cp
	if o.Simulate != "" {
		args = append(args, "-simulate", o.Simulate)
		if o.Depth > 0 {
			args = append(args, "-depth", strconv.Itoa(o.Depth))
		}
		args = append(args, "-seed", strconv.FormatInt(o.Seed, 10))
	}
	if o.Coverage {
		args = append(args, "-coverage", "1")
	}
	args = append(args, o.Module+".tla")

	ctx, cancel := context.WithTimeout(context.Background(), o.Timeout)
	defer cancel()
	cmd := exec.CommandContext(ctx, "java", args...)
	cmd.Dir = dir
	cmd.Env = append(os.Environ(), "JAVA_TOOL_OPTIONS=")
	stdout, err := cmd.StdoutPipe()
	if err != nil {
		return nil, err
	}
	var stderr bytes.Buffer
	cmd.Stderr = &stderr
	start := time.Now()
	if err := cmd.Start(); err != nil {
		return nil, err
	}
	res := &Result{ActionCov: map[string]int64{}}
	var out []string
	rd := bufio.NewReaderSize(stdout, 1<<20)
	inTrace := false
	var trace strings.Builder
	for {
		line, err := rd.ReadString('\n')
		if len(line) > 0 {
			line = strings.TrimRight(line, "\r\n")
			if rec, ok := ParseGen(line); ok {
				res.GenCount++
				if o.OnGen != nil {
					o.OnGen([]byte(rec))
				}
			} else {
				if strings.HasPrefix(line, "Error:") {
					inTrace = true
				}
				if inTrace && trace.Len() < 200000 {
					trace.WriteString(line)
					trace.WriteByte('\n')
				}
				if m := reCov.FindStringSubmatch(line); m != nil {
					n, _ := strconv.ParseInt(m[3], 10, 64)
					res.ActionCov[m[1]] += n
				}
				out = append(out, line)
				if !o.KeepOut && len(out) > 4000 {
					out = out[2000:]
				}
			}
		}
		if err != nil {
			if err != io.EOF {
				return nil, err
			}
			break
		}
	}
	werr := cmd.Wait()
	res.WallS = time.Since(start).Seconds()
	res.Output = strings.Join(out, "\n")
	res.ErrorTrace = trace.String()
	if ee, ok := werr.(*exec.ExitError); ok {
		res.ExitCode = ee.ExitCode()
	}
	if ctx.Err() == context.DeadlineExceeded {
		res.Verdict = "timeout"
		return res, nil
	}
	if m := reStates.FindAllStringSubmatch(res.Output, -1); m != nil {
		last := m[len(m)-1]
		res.Generated, _ = strconv.ParseInt(last[1], 10, 64)
		res.Distinct, _ = strconv.ParseInt(last[2], 10, 64)
	}
	if m := reDepth.FindStringSubmatch(res.Output); m != nil {
		res.Depth, _ = strconv.Atoi(m[1])
	}
	switch {
	case strings.Contains(res.Output, "No error has been found"):
		res.OK = true
		res.Verdict = "ok"
	case o.Simulate != "" && res.ExitCode == 0:
		res.OK = true
		res.Verdict = "ok"
	case reInv.MatchString(res.Output):
		res.Verdict = "invariant"
		res.What = reInv.FindStringSubmatch(res.Output)[1]
	case reActP.MatchString(res.Output):
		res.Verdict = "invariant"
		res.What = reActP.FindStringSubmatch(res.Output)[1]
	case strings.Contains(res.Output, "Deadlock reached"):
		res.Verdict = "deadlock"
	case strings.Contains(res.Output, "Temporal properties were violated"):
		res.Verdict = "temporal"
	case strings.Contains(res.Output, "ostcondition"):
		res.Verdict = "postcondition"
	case strings.Contains(res.Output, "Assumption") && strings.Contains(res.Output, "is false"):
		res.Verdict = "assume"
	default:
		res.Verdict = "error"
		for _, l := range out {
			if strings.HasPrefix(l, "Error:") || strings.Contains(l, "***Parse Error***") || strings.Contains(l, "Semantic error") {
				res.What = l
				break
			}
		}
		if res.What == "" {
			res.What = tail(stderr.String()+"\n"+res.Output, 1500)
		}
	}
	return res, nil
}

func classpath() string {
	cp := Jar
	for _, extra := range []string{"/opt/veriftools/tla/CommunityModules-deps.jar", "/opt/veriftools/tla/CommunityModules.jar"} {
		if _, err := os.Stat(extra); err == nil {
			cp += ":" + extra
		}
	}
	return cp
}

func tail(s string, n int) string {
	if len(s) <= n {
		return s
	}
	return s[len(s)-n:]
}

// Sany parses a module (syntax + semantic check) and returns an error with SANY's output on failure.
func Sany(specDir, module string) error {
	cmd := exec.Command("java", "-cp", classpath(), "tla2sany.SANY", module+".tla")
	cmd.Dir = specDir
	b, err := cmd.CombinedOutput()
	if err != nil || bytes.Contains(b, []byte("*** Errors")) || bytes.Contains(b, []byte("Fatal errors")) {
		return fmt.Errorf("SANY %s: %s", module, tail(string(b), 2000))
	}
	return nil
}
