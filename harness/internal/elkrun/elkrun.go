// Package elkrun runs Elk programs through the real checker, compiler and VM in process (inside a
// crash-isolated worker) and classifies the outcome.
package elkrun

import (
	"bytes"
	"context"
	"encoding/json"
	"fmt"
	"os"
	"runtime/debug"
	"strings"
	"sync"
	"time"

	"github.com/elk-language/elk"
	"github.com/elk-language/elk/bitfield"
	"github.com/elk-language/elk/env"
	"github.com/elk-language/elk/types/checker"
	"github.com/elk-language/elk/value"
	"github.com/elk-language/elk/vm"

	"elkverif/internal/core"
)

// Prelude is prepended to generated programs: the single observation helper (inspect interpolation).
const Prelude = "def o(v: any) then println \"#{v}\"\n"

// Cfg are runtime sizing parameters (0 = leave the default).
type Cfg struct {
	InitStackSlots int `json:"init_stack_slots,omitempty"`
	MaxStackSlots  int `json:"max_stack_slots,omitempty"`
	CallStack      int `json:"call_stack,omitempty"`
	PoolSize       int `json:"pool_size,omitempty"`  // >0: run with a private thread pool of this size
	QueueSize      int `json:"queue_size,omitempty"` // task queue capacity of the private pool
	CheckLimit     int `json:"check_limit,omitempty"` // MethodCheckConcurrencyLimit (default 1)
}

type Job struct {
	Src        string `json:"src"`
	Cfg        *Cfg   `json:"cfg,omitempty"`
	AbortCheck bool   `json:"abort_check,omitempty"` // compile with AdditionalAbortChecks
	CancelMs   int    `json:"cancel_ms,omitempty"`   // >0: cancel the thread's aborter after this delay
	RunMs      int    `json:"run_ms,omitempty"`      // in-worker deadline for the run (default 10 s)
	CheckOnly  bool   `json:"check_only,omitempty"`
}

type Frame struct {
	Func string `json:"func"`
	Line int    `json:"line"`
	TCO  int    `json:"tco,omitempty"`
}

type Result struct {
	Accepted   bool     `json:"accepted"`
	Diags      string   `json:"diags,omitempty"` // diagnostics text (sorted lines) when not accepted, or warnings
	Stdout     string   `json:"stdout"`
	Stderr     string   `json:"stderr,omitempty"`
	Value      string   `json:"value,omitempty"`     // inspect of the returned value
	ErrClass   string   `json:"err_class,omitempty"` // class of the uncaught Elk error ("" = none)
	ErrMsg     string   `json:"err_msg,omitempty"`
	Trace      []Frame  `json:"trace,omitempty"`
	GoPanic    string   `json:"go_panic,omitempty"` // Go panic recovered around check or run
	PanicStage string   `json:"panic_stage,omitempty"`
	Hung       bool     `json:"hung,omitempty"` // run did not finish inside RunMs
	WallMs     int      `json:"wall_ms"`
}

// Outcome is the one-word classification used by C01-style oracles.
func (r *Result) Outcome() string {
	switch {
	case r.GoPanic != "":
		return "go_panic"
	case r.Hung:
		return "hung"
	case !r.Accepted:
		return "rejected"
	case r.ErrClass != "":
		return "elk_error"
	}
	return "ok"
}

type lockedBuf struct {
	mu sync.Mutex
	b  bytes.Buffer
}

func (l *lockedBuf) Write(p []byte) (int, error) {
	l.mu.Lock()
	defer l.mu.Unlock()
	if l.b.Len() > 1<<20 {
		return len(p), nil
	}
	return l.b.Write(p)
}
func (l *lockedBuf) String() string {
	l.mu.Lock()
	defer l.mu.Unlock()
	return l.b.String()
}

func init() {
	core.RegisterJob("elk", func(p json.RawMessage) (any, error) {
		var j Job
		if err := json.Unmarshal(p, &j); err != nil {
			return nil, err
		}
		return Run(&j), nil
	})
}

var defaults struct {
	once                       sync.Once
	initStack, maxStack, calls int
}

// Setup must be called before any Elk code runs in this process.
func Setup() {
	defaults.once.Do(func() {
		if p := os.Getenv("ELKPATH"); p == "" {
			env.ELKPATH = core.RepoRoot
		}
		defaults.initStack = vm.INIT_VALUE_STACK_SIZE
		defaults.maxStack = vm.MAX_VALUE_STACK_SIZE
		defaults.calls = vm.CALL_STACK_SIZE
	})
}

// Run checks, compiles and runs one program in this process.
func Run(j *Job) *Result {
	Setup()
	start := time.Now()
	res := &Result{}
	defer func() { res.WallMs = int(time.Since(start).Milliseconds()) }()

	cfg := j.Cfg
	if cfg == nil {
		cfg = &Cfg{}
	}
	vm.INIT_VALUE_STACK_SIZE = pick(cfg.InitStackSlots, defaults.initStack)
	vm.MAX_VALUE_STACK_SIZE = pick(cfg.MaxStackSlots, defaults.maxStack)
	vm.CALL_STACK_SIZE = pick(cfg.CallStack, defaults.calls)
	checker.MethodCheckConcurrencyLimit = pick(cfg.CheckLimit, 1)

	var flags bitfield.BitField16
	if j.AbortCheck {
		flags.SetFlag(checker.AdditionalAbortChecks)
	}

	var bc *vm.BytecodeFunction
	stage := "check"
	func() {
		defer func() {
			if r := recover(); r != nil {
				res.GoPanic = fmt.Sprintf("%v\n%s", r, trimStack(debug.Stack()))
				res.PanicStage = stage
			}
		}()
		elk.InitGlobalEnvironment()
		var diags interface {
			IsFailure() bool
		}
		b, d := checker.CheckSource("main.elk", j.Src, nil, flags, nil)
		bc = b
		if d != nil {
			diags = d
			var lines []string
			for _, x := range d {
				lines = append(lines, fmt.Sprintf("%s: %s", x.Location.StartPos.String(), x.Message))
			}
			res.Diags = strings.Join(lines, "\n")
		}
		res.Accepted = bc != nil && (diags == nil || !diags.IsFailure())
	}()
	if res.GoPanic != "" || !res.Accepted || j.CheckOnly {
		return res
	}

	stdout := &lockedBuf{}
	stderr := &lockedBuf{}
	opts := []vm.Option{vm.WithStdout(stdout), vm.WithStderr(stderr)}
	if cfg.PoolSize > 0 {
		q := cfg.QueueSize
		if q <= 0 {
			q = 256
		}
		tp := vm.NewThreadPool(cfg.PoolSize, q, vm.WithStdout(stdout), vm.WithStderr(stderr))
		opts = append(opts, vm.WithThreadPool(tp))
	}
	var aborter *value.Aborter
	var cancel context.CancelFunc
	if j.CancelMs > 0 {
		ctx, c := context.WithCancel(context.Background())
		cancel = c
		aborter = value.NewAborter(ctx, c)
		opts = append(opts, vm.WithAborter(aborter))
	}
	stage = "run"
	type runOut struct {
		val, err value.Value
		trace    *value.StackTrace
		pan      string
	}
	done := make(chan runOut, 1)
	go func() {
		var out runOut
		defer func() {
			if r := recover(); r != nil {
				out.pan = fmt.Sprintf("%v\n%s", r, trimStack(debug.Stack()))
			}
			done <- out
		}()
		v := vm.New(opts...)
		out.val, out.err = v.InterpretTopLevel(bc)
		if !out.err.IsUndefined() {
			out.trace = v.ErrStackTrace()
		}
	}()
	if cancel != nil {
		go func() {
			time.Sleep(time.Duration(j.CancelMs) * time.Millisecond)
			cancel()
		}()
	}
	runMs := j.RunMs
	if runMs == 0 {
		runMs = 10000
	}
	select {
	case out := <-done:
		res.Stdout = stdout.String()
		res.Stderr = stderr.String()
		if out.pan != "" {
			res.GoPanic = out.pan
			res.PanicStage = "run"
			return res
		}
		func() {
			defer func() {
				if r := recover(); r != nil {
					res.GoPanic = fmt.Sprintf("%v\n%s", r, trimStack(debug.Stack()))
					res.PanicStage = "report"
				}
			}()
			if !out.err.IsUndefined() {
				res.ErrClass, res.ErrMsg = DescribeError(out.err)
				if out.trace != nil {
					for _, f := range *out.trace {
						res.Trace = append(res.Trace, Frame{Func: f.FuncName, Line: f.LineNumber, TCO: f.TailCallCounter})
					}
				}
			} else if !out.val.IsUndefined() {
				res.Value = out.val.Inspect()
			}
		}()
	case <-time.After(time.Duration(runMs) * time.Millisecond):
		res.Hung = true
		res.Stdout = stdout.String()
		res.Stderr = stderr.String()
	}
	return res
}

// DescribeError returns the class name and message of a thrown value.
func DescribeError(err value.Value) (class, msg string) {
	if value.IsA(err, value.ErrorClass) {
		obj := (*value.Object)(err.Pointer())
		class = obj.Class().Name
		m := obj.Message()
		if m.IsReference() {
			if s, ok := m.AsReference().(value.String); ok {
				msg = string(s)
				return
			}
		}
		msg = m.Inspect()
		return
	}
	return "thrown:" + err.Class().Name, err.Inspect()
}

func pick(v, def int) int {
	if v > 0 {
		return v
	}
	return def
}

func trimStack(b []byte) string {
	s := string(b)
	if len(s) > 5000 {
		s = s[:5000]
	}
	return s
}
