---------------------------- MODULE HashColl ----------------------------
(* C17 -- hash maps, hash records and hash sets behave as finite maps and sets.

   Three layers, two registers.
     abstract : m[c]   a finite map  Key -> Val  (a set = a map onto the unit value 1)
     intended : t[c]   the open-addressing table of vm/hash_map.go / vm/hash_set.go as designed:
                         tb  slots  Empty | Tomb | Live(k, v)       (index i models Go index i-1)
                         el  `Elements`       (what `length` reports)
                         oc  `OccupiedSlots`  (live + tombstones, drives the load-factor resize)
                         bad  a Go panic ("no room in target hashmap ...") happened
     actual   : d[c]   the same table algorithm with the recorded DEVIATIONS of the pinned code
                        switched on; it rides along on the same history (d = t when Deviations = {})
   Two registers c \in {1, 2} hold two collections of the same kind so that the binary operations
   (concatenation, union, intersection, copy, equality) are ordinary steps of a history.

   Every operator below mirrors one function of the implementation, step for step
   (first parameter D = the set of deviations in force):
     Index       HashMapOfValueIndex / HashSetIndex         (probing, first-tombstone reuse)
     SetCap      HashMapOfValueSetCapacity                   (rehash, drops tombstones)
     Put         HashMapOfValueSetWithMaxLoad / HashSetOfValueAppendWithMaxLoad
     Delete      HashMapOfValueDelete / HashSetOfValueDelete
     Get, Has    HashMapOfValueGet, HashMapOfValueContainsKey / HashSetOfValueContains
     CopyInto    HashMapOfValueCopy(Interface) / HashSetOfValueCopy      (bulk copy)
     Concat      HashMapOfValueConcat = Clone + CopyInto
     Union, Inter  HashSetOfValueUnion / HashSetOfValueIntersection
     EqImpl      HashMapOfValueEqual / HashSetOfValueEqual
   `Hash` is a constant chosen by the instance, so collisions, wrap-around, tombstone chains and
   full tables are reached with 3-4 keys.  The harness imposes the same hash on the real tables.

   THE PROPERTY is the set of refinement invariants at the end, between the abstract layer and the
   intended table.  The places where the implementation at the pinned commit departs from the
   intended algorithm are NAMED guarded branches, `Dev(D, "...")`.  The actual layer d is not
   constrained by the invariants: it is a model of the actual code that the harness uses to recognise
   a recorded finding exactly (real observation = d's observation) and to check that the real
   table is laid out like the model's, slot for slot.

   One GEN record per transition (history variables hidden by VIEW): the history, the abstract
   expectation for its last step (the oracle) and the actual layer's prediction.                   *)
EXTENDS Integers, Sequences, FiniteSets, TLC, Json

CONSTANTS NKeys,      \* keys are 1..NKeys
          Vals,       \* values (maps); sets use {1}
          Hash,       \* sequence of naturals: Hash[k]
          Caps0,      \* set of <<cap1, cap2>>: initial capacities of the two registers
          MaxOps,     \* history length bound
          Kind,       \* "map" | "set"
          Deviations  \* SUBSET DevNames: the deviations of the actual layer

DevNames == {"CopyCountsEveryEntry", "GetReturnsTombstoneMarker", "FullLapForgetsTombstone",
             "SetIteratorYieldsTombstones", "SubscriptAbsentUndefined"}
ASSUME Deviations \subseteq DevNames
ASSUME Kind \in {"map", "set"}

Keys == 1..NKeys
R == {1, 2}
Other(c) == 3 - c
Absent == 0           \* "no value": nil at the language level (values are >= 1)
Marker == -1          \* the tombstone's payload (`true`) leaking out of a lookup
Undef == -2           \* the VM's internal `undefined` leaking out of a lookup

Empty == [t |-> "e", k |-> 0, v |-> 0]
Tomb  == [t |-> "d", k |-> 0, v |-> 0]
Live(k, v) == [t |-> "l", k |-> k, v |-> v]
EmptyTable(c) == [i \in 1..c |-> Empty]
New(c) == [tb |-> EmptyTable(c), el |-> 0, oc |-> 0, bad |-> FALSE]

VARIABLES m,      \* abstract layer:  [R -> finite map]
          t,      \* intended table:  [R -> [tb, el, oc, bad]]
          d,      \* actual table (Deviations in force)
          hist,   \* history: the operations taken so far, as tuples <<op, c, x, y, k, v>>; hidden by VIEW
          last,   \* the last step: results and observations after it; hidden by VIEW
          caps,   \* the initial capacities of this history; hidden by VIEW
          fired   \* deviation branches that made a difference in this history; hidden by VIEW
vars == <<m, t, d, hist, last, caps, fired>>

Dev(D, n) == n \in D

---------------------------------------------------------------------------
\* Probing: HashMapOfValueIndex.  Returns 0 for "no room" (Go: -1).
RECURSIVE Probe(_, _, _, _, _, _)
Probe(D, tb, k, i, start, del) ==
  LET e   == tb[i]
      nxt == IF i = Len(tb) THEN 1 ELSE i + 1
  IN  IF e.t = "e" THEN (IF del # 0 THEN del ELSE i)              \* empty bucket: reuse the first tombstone seen
      ELSE IF e.t = "l" /\ e.k = k THEN i                          \* present entry, equal key
      ELSE LET del2 == IF e.t = "d" /\ del = 0 THEN i ELSE del
           IN IF nxt = start
              THEN (IF Dev(D, "FullLapForgetsTombstone") THEN 0   \* DEVIATION: `return -1` after a full lap
                    ELSE del2)                                      \* intended: a tombstone seen on the lap is room
              ELSE Probe(D, tb, k, nxt, start, del2)
Index(D, tb, k) == LET s == (Hash[k] % Len(tb)) + 1 IN Probe(D, tb, k, s, s, 0)

LiveIdx(tb) == {i \in 1..Len(tb) : tb[i].t = "l"}
LiveCount(tb) == Cardinality(LiveIdx(tb))
TombCount(tb) == Cardinality({i \in 1..Len(tb) : tb[i].t = "d"})

\* HashMapOfValueSetCapacity: no-op when the capacity is unchanged, otherwise rehash the live entries
\* in table order into a fresh table; the counters are recomputed.
RECURSIVE Rehash(_, _, _, _, _)
Rehash(D, old, new, i, bad) ==
  IF i > Len(old) THEN [tb |-> new, el |-> LiveCount(new), oc |-> LiveCount(new), bad |-> bad]
  ELSE IF old[i].t # "l" THEN Rehash(D, old, new, i + 1, bad)
  ELSE LET j == IF Len(new) = 0 THEN 0 ELSE Index(D, new, old[i].k)
       IN IF j = 0 THEN Rehash(D, old, new, i + 1, TRUE)          \* panic("no room ... during resizing")
          ELSE Rehash(D, old, [new EXCEPT ![j] = old[i]], i + 1, bad)
SetCap(D, T, c) == IF Len(T.tb) = c THEN T ELSE Rehash(D, T.tb, EmptyTable(c), 1, T.bad)

\* HashMapOfValueSetWithMaxLoad with maxLoad = 3/4.  Returns <<T', isNew>>.
Put(D, T, k, v) ==
  LET T1 == IF Len(T.tb) = 0 THEN SetCap(D, T, 5)
            ELSE IF T.oc * 4 >= Len(T.tb) * 3 THEN SetCap(D, T, T.oc * 2)
            ELSE T
      i == IF Len(T1.tb) = 0 THEN 0 ELSE Index(D, T1.tb, k)
  IN  IF i = 0 THEN <<[T1 EXCEPT !.bad = TRUE], FALSE>>           \* panic("no room ... when trying to add")
      ELSE LET e == T1.tb[i]
           IN <<[tb  |-> [T1.tb EXCEPT ![i] = Live(k, v)],
                 el  |-> IF e.t = "l" THEN T1.el ELSE T1.el + 1,
                 oc  |-> IF e.t = "e" THEN T1.oc + 1 ELSE T1.oc,   \* a reused tombstone was already counted
                 bad |-> T1.bad], e.t # "l">>

\* HashMapOfValueDelete.  Returns <<T', removed>>.
Delete(D, T, k) ==
  IF T.el = 0 THEN <<T, FALSE>>
  ELSE LET i == Index(D, T.tb, k)
       IN IF i = 0 \/ T.tb[i].t # "l" THEN <<T, FALSE>>
          ELSE <<[T EXCEPT !.tb[i] = Tomb, !.el = T.el - 1], TRUE>>   \* oc unchanged: the slot stays occupied

\* HashMapOfValueGet: the value stored in the slot Index returns.
Get(D, T, k) ==
  IF T.el = 0 THEN Absent
  ELSE LET i == Index(D, T.tb, k)
       IN IF i = 0 THEN Absent
          ELSE IF T.tb[i].t = "l" THEN T.tb[i].v
          ELSE IF T.tb[i].t = "d" /\ Dev(D, "GetReturnsTombstoneMarker")
               THEN Marker                                         \* DEVIATION: returns Table[index].Value() of a tombstone
          ELSE Absent
\* the `[]` operator on a map/record as compiled to the SUBSCRIPT instruction (vm.SubscriptBuiltin)
Subscript(D, T, k) ==
  LET v == Get(D, T, k)
  IN IF v = Absent /\ Dev(D, "SubscriptAbsentUndefined")
     THEN Undef                                                    \* DEVIATION: uses GetValUndefined, pushes `undefined`
     ELSE v
\* HashMapOfValueContainsKey / HashSetOfValueContains
Has(D, T, k) ==
  IF T.el = 0 THEN FALSE
  ELSE LET i == Index(D, T.tb, k) IN i # 0 /\ T.tb[i].t = "l"

\* HashMapOfValueCopy / HashSetOfValueCopy: bulk copy of the source's live entries (table order) into T.
RECURSIVE CopyFrom(_, _, _, _)
CopyFrom(D, T, src, i) ==
  IF i > Len(src) THEN T
  ELSE IF src[i].t # "l" THEN CopyFrom(D, T, src, i + 1)
  ELSE LET j == IF Len(T.tb) = 0 THEN 0 ELSE Index(D, T.tb, src[i].k)
       IN IF j = 0 THEN [T EXCEPT !.bad = TRUE]                    \* panic("no room in target hashmap during copy")
          ELSE LET e == T.tb[j]
                   all == Dev(D, "CopyCountsEveryEntry")          \* DEVIATION: `OccupiedSlots++; Elements++` unconditionally
               IN CopyFrom(D, [tb  |-> [T.tb EXCEPT ![j] = src[i]],
                               el  |-> IF all \/ e.t # "l" THEN T.el + 1 ELSE T.el,
                               oc  |-> IF all \/ e.t = "e" THEN T.oc + 1 ELSE T.oc,
                               bad |-> T.bad], src, i + 1)
CopyInto(D, T, S) ==
  LET req == T.el + S.el
      T1  == IF Len(T.tb) < req THEN SetCap(D, T, req) ELSE T
  IN CopyFrom(D, T1, S.tb, 1)

Concat(D, X, Y) == CopyInto(D, X, Y)            \* HashMapOfValueConcat: result := x.Clone(); Copy(result, y)
CloneCap(D, X, c) == CopyInto(D, New(c), X)     \* CloneHashMap / CloneHashSet (capacity c)

\* HashSetOfValueUnion: copy the longer set into a fresh table, append the shorter one's values.
RECURSIVE AppendAll(_, _, _, _)
AppendAll(D, T, src, i) ==
  IF i > Len(src) THEN T
  ELSE IF src[i].t # "l" THEN AppendAll(D, T, src, i + 1)
  ELSE AppendAll(D, Put(D, T, src[i].k, src[i].v)[1], src, i + 1)
Union(D, X, Y) ==
  LET longer  == IF X.el > Y.el THEN X ELSE Y
      shorter == IF X.el > Y.el THEN Y ELSE X
  IN AppendAll(D, CopyInto(D, New(shorter.el + longer.el), longer), shorter.tb, 1)
\* HashSetOfValueIntersection: values of the shorter set contained in the longer one, capacity 5.
RECURSIVE AppendIfIn(_, _, _, _, _)
AppendIfIn(D, T, src, i, L) ==
  IF i > Len(src) THEN T
  ELSE IF src[i].t = "l" /\ Has(D, L, src[i].k) THEN AppendIfIn(D, Put(D, T, src[i].k, src[i].v)[1], src, i + 1, L)
  ELSE AppendIfIn(D, T, src, i + 1, L)
Inter(D, X, Y) ==
  LET longer  == IF X.el > Y.el THEN X ELSE Y
      shorter == IF X.el > Y.el THEN Y ELSE X
  IN AppendIfIn(D, New(5), shorter.tb, 1, longer)

\* The iterator object (HashMapOfValueIterator / HashSetOfValueIterator .NextValue): walks the table.
IterSeq(D, T) ==
  LET yields(e) == \/ e.t = "l"
                   \/ e.t = "d" /\ Kind = "set" /\ Dev(D, "SetIteratorYieldsTombstones")  \* DEVIATION: only skips empty slots
      RECURSIVE Walk(_)
      Walk(i) == IF i > Len(T.tb) THEN << >>
                 ELSE IF yields(T.tb[i]) THEN <<IF T.tb[i].t = "l" THEN T.tb[i].k * 100 + T.tb[i].v ELSE -1>> \o Walk(i + 1)
                 ELSE Walk(i + 1)
  IN Walk(1)

\* HashMapOfValueEqual / HashSetOfValueEqual (two distinct objects)
EqImpl(D, X, Y) ==
  /\ X.el = Y.el
  /\ \A i \in LiveIdx(X.tb) :
        IF Kind = "set" THEN Has(D, Y, X.tb[i].k)
        ELSE LET yv == Get(D, Y, X.tb[i].k) IN yv # Absent /\ yv = X.tb[i].v

---------------------------------------------------------------------------
\* The abstract layer
EmptyMap == [k \in {} |-> 0]
MapPut(f, k, v) == [x \in DOMAIN f \cup {k} |-> IF x = k THEN v ELSE f[x]]
MapDel(f, k) == [x \in DOMAIN f \ {k} |-> f[x]]
MapCat(f, g) == [x \in DOMAIN f \cup DOMAIN g |-> IF x \in DOMAIN g THEN g[x] ELSE f[x]]
MapCap(f, g) == [x \in DOMAIN f \cap DOMAIN g |-> f[x]]
Lookup(f, k) == IF k \in DOMAIN f THEN f[k] ELSE Absent

\* Operations.  An op is a record [op, c, x, y, k, v] (unused fields 0):
\*   set  c k v      t[c][k] := v                 (maps)         add c k   (sets: v = 1)
\*   del  c k        remove k from t[c]           (both)
\*   cat  c x y      t[c] := t[x] + t[y]          (maps: concatenation; sets: union)
\*   and  c x y      t[c] := t[x] & t[y]          (sets)
\*   dup  c x        t[c] := exact copy of t[x]   (Copy()/Clone(): the table is cloned, tombstones included)
\*   cln  c x k      t[c] := CloneHashMap(t[x], capacity k)
Op(o, c, x, y, k, v) == [op |-> o, c |-> c, x |-> x, y |-> y, k |-> k, v |-> v]
CloneCaps == {0, 3}
Pairs(c) == {<<c, Other(c)>>, <<Other(c), c>>, <<c, c>>}
Ops ==
  {Op("set", c, 0, 0, k, v) : c \in R, k \in Keys, v \in (IF Kind = "set" THEN {1} ELSE Vals)}
  \cup {Op("del", c, 0, 0, k, 0) : c \in R, k \in Keys}
  \cup UNION {{Op("cat", c, p[1], p[2], 0, 0) : p \in Pairs(c)} : c \in R}
  \cup (IF Kind = "set" THEN UNION {{Op("and", c, p[1], p[2], 0, 0) : p \in Pairs(c)} : c \in R} ELSE {})
  \cup {Op("dup", c, Other(c), 0, 0, 0) : c \in R}
  \cup {Op("cln", c, Other(c), 0, k, 0) : c \in R, k \in CloneCaps}

\* effect of an op on a table layer tt under deviations D: <<new table of o.c, result>>
TabEffect(D, tt, o) ==
  LET c == o.c IN
  CASE o.op = "set" -> LET p == Put(D, tt[c], o.k, o.v) IN <<p[1], IF p[2] THEN 1 ELSE 0>>
    [] o.op = "del" -> LET p == Delete(D, tt[c], o.k) IN <<p[1], IF p[2] THEN 1 ELSE 0>>
    [] o.op = "cat" -> <<IF Kind = "set" THEN Union(D, tt[o.x], tt[o.y]) ELSE Concat(D, tt[o.x], tt[o.y]), 0>>
    [] o.op = "and" -> <<Inter(D, tt[o.x], tt[o.y]), 0>>
    [] o.op = "dup" -> <<tt[o.x], 0>>
    [] o.op = "cln" -> <<CloneCap(D, tt[o.x], o.k), 0>>
\* effect on the abstract layer: <<new map of o.c, result (set/add: was new, del: was present)>>
AbsEffect(o) ==
  LET c == o.c IN
  CASE o.op = "set" -> <<MapPut(m[c], o.k, o.v), IF o.k \in DOMAIN m[c] THEN 0 ELSE 1>>
    [] o.op = "del" -> <<MapDel(m[c], o.k), IF o.k \in DOMAIN m[c] THEN 1 ELSE 0>>
    [] o.op = "cat" -> <<MapCat(m[o.x], m[o.y]), 0>>
    [] o.op = "and" -> <<MapCap(m[o.x], m[o.y]), 0>>
    [] o.op = "dup" -> <<m[o.x], 0>>
    [] o.op = "cln" -> <<m[o.x], 0>>

\* Observations: what the harness compares after every step.
SlotCode(e) == IF e.t = "e" THEN 0 ELSE IF e.t = "d" THEN -1 ELSE e.k * 100 + e.v
Layout(T) == [i \in 1..Len(T.tb) |-> SlotCode(T.tb[i])]
B(b) == IF b THEN 1 ELSE 0
AbsObs(mm, res) ==
  [len |-> <<Cardinality(DOMAIN mm[1]), Cardinality(DOMAIN mm[2])>>,
   get |-> <<[k \in 1..NKeys |-> Lookup(mm[1], k)], [k \in 1..NKeys |-> Lookup(mm[2], k)]>>,
   has |-> <<[k \in 1..NKeys |-> B(k \in DOMAIN mm[1])], [k \in 1..NKeys |-> B(k \in DOMAIN mm[2])]>>,
   sub |-> <<[k \in 1..NKeys |-> Lookup(mm[1], k)], [k \in 1..NKeys |-> Lookup(mm[2], k)]>>,
   eq  |-> <<B(mm[1] = mm[2]), B(mm[1] = mm[2])>>,
   res |-> res]
TabGet(D, T, k) == IF Kind = "set" THEN B(Has(D, T, k)) ELSE Get(D, T, k)
TabObs(D, tt, res) ==
  [len |-> <<tt[1].el, tt[2].el>>,
   get |-> <<[k \in 1..NKeys |-> TabGet(D, tt[1], k)], [k \in 1..NKeys |-> TabGet(D, tt[2], k)]>>,
   has |-> <<[k \in 1..NKeys |-> B(Has(D, tt[1], k))], [k \in 1..NKeys |-> B(Has(D, tt[2], k))]>>,
   sub |-> <<[k \in 1..NKeys |-> IF Kind = "set" THEN B(Has(D, tt[1], k)) ELSE Subscript(D, tt[1], k)],
             [k \in 1..NKeys |-> IF Kind = "set" THEN B(Has(D, tt[2], k)) ELSE Subscript(D, tt[2], k)]>>,
   it  |-> <<IterSeq(D, tt[1]), IterSeq(D, tt[2])>>,
   eq  |-> <<B(EqImpl(D, tt[1], tt[2])), B(EqImpl(D, tt[2], tt[1]))>>,
   res |-> res,
   lay |-> <<Layout(tt[1]), Layout(tt[2])>>,
   bad |-> B(tt[1].bad \/ tt[2].bad)]
OpTuple(o) == <<o.op, o.c, o.x, o.y, o.k, o.v>>

\* which deviation branches have made a difference so far (attribution of a finding)
FiredBy(o, dd) ==
  {n \in Deviations :
     \/ n = "CopyCountsEveryEntry" /\ o.op \in {"cat", "cln"} /\
          (dd[o.c].el # LiveCount(dd[o.c].tb) \/ dd[o.c].oc # LiveCount(dd[o.c].tb) + TombCount(dd[o.c].tb))
     \/ n = "GetReturnsTombstoneMarker" /\ Kind = "map" /\ \E c \in R, k \in Keys : Get(Deviations, dd[c], k) = Marker
     \/ n = "FullLapForgetsTombstone" /\ (dd[1].bad \/ dd[2].bad)
     \/ n = "SetIteratorYieldsTombstones" /\ Kind = "set" /\ \E c \in R : TombCount(dd[c].tb) > 0
     \/ n = "SubscriptAbsentUndefined" /\ Kind = "map" /\ \E c \in R, k \in Keys : Subscript(Deviations, dd[c], k) = Undef}

Emit(h, l, cp, f) == PrintT(<<"GEN", ToJson([caps |-> cp, ops |-> h, last |-> l, fired |-> f])>>)

Apply(o) ==
  LET ae == AbsEffect(o)
      te == TabEffect({}, t, o)
      de == TabEffect(Deviations, d, o)
      mm == [m EXCEPT ![o.c] = ae[1]]
      tt == [t EXCEPT ![o.c] = te[1]]
      dd == [d EXCEPT ![o.c] = de[1]]
  IN /\ ~d[1].bad /\ ~d[2].bad /\ ~t[1].bad /\ ~t[2].bad       \* a crashed process takes no more steps
     /\ m' = mm /\ t' = tt /\ d' = dd
     /\ hist' = Append(hist, OpTuple(o))
     /\ fired' = fired \cup FiredBy(o, dd)
     /\ last' = [tres |-> te[2],                                 \* result computed by the intended table
                 exp |-> AbsObs(mm, ae[2]),                      \* the oracle: abstract expectation
                 act |-> TabObs(Deviations, dd, de[2])]          \* the actual layer's prediction
     /\ UNCHANGED caps

Init == /\ \E cp \in Caps0 : /\ caps = cp
                             /\ t = [c \in R |-> New(cp[c])]
                             /\ d = [c \in R |-> New(cp[c])]
        /\ m = [c \in R |-> EmptyMap]
        /\ hist = << >> /\ fired = {}
        /\ last = [tres |-> 0, exp |-> [res |-> 0]]

Next == /\ Len(hist) < MaxOps
        /\ \E o \in Ops : Apply(o)
        /\ Emit(hist', last', caps, fired')
Spec == Init /\ [][Next]_vars

---------------------------------------------------------------------------
\* THE PROPERTY, as refinement invariants between the abstract layer and the intended table.
\* "agree with a mathematical finite map or set"
Refines == \A c \in R :
   /\ DOMAIN m[c] = {t[c].tb[i].k : i \in LiveIdx(t[c].tb)}
   /\ \A i \in LiveIdx(t[c].tb) : m[c][t[c].tb[i].k] = t[c].tb[i].v
\* "keys equal under == occupy one entry"; "iteration yields each live entry exactly once"
\* (iteration walks the table and yields every live slot, so one slot per key is exactly that)
OneSlotPerKey == \A c \in R : \A i, j \in LiveIdx(t[c].tb) : t[c].tb[i].k = t[c].tb[j].k => i = j
\* "length is the number of distinct keys" (+ the bookkeeping the resize policy relies on)
Counts == \A c \in R :
   /\ t[c].el = Cardinality(DOMAIN m[c])
   /\ t[c].oc = LiveCount(t[c].tb) + TombCount(t[c].tb)
\* "absent keys look up as nil", present keys as their value; contains agrees
LookupAgrees == \A c \in R, k \in Keys :
   /\ Kind = "map" => Get({}, t[c], k) = Lookup(m[c], k)
   /\ Has({}, t[c], k) = (k \in DOMAIN m[c])
\* every live key can be found again by probing (tombstones do not cut probe chains)
Findable == \A c \in R : \A i \in LiveIdx(t[c].tb) : Index({}, t[c].tb, t[c].tb[i].k) = i
\* equality tests
EqAgrees == EqImpl({}, t[1], t[2]) = (m[1] = m[2]) /\ EqImpl({}, t[2], t[1]) = (m[1] = m[2])
\* no operation sequence panics
NoPanic == ~t[1].bad /\ ~t[2].bad
\* results of set/add (was new) and del (was present) agree with the abstract layer
ResAgrees == last.exp.res = last.tres
\* with no deviation in force the actual layer is the intended one
ActualIsIntended == Deviations = {} => d = t

\* KEY FAULTS (crash points inside an operation).  Hash and == of a key of a user-defined class are
\* method calls that may raise in the middle of Index / SetCap / CopyInto.  The abstract layer then
\* allows exactly two outcomes for the operation o: it reports the error and is a STUTTERING step of
\* m (no register changes: Spec's [][Next]_vars already admits it), or it completes and is the Next
\* step for o.  FaultOutcomes is what prop/c17's fault stage compares the real collections with,
\* after the last operation of every history has been run with the hash (or ==) of one key raising:
\* "raised" must leave both registers at mPre, "completed" must reach mPost.
FaultOutcomes(mPre, mPost, raised) == IF raised THEN {mPre} ELSE {mPost}
FaultAtomic(mPre, mPost, raised, mReal) == mReal \in FaultOutcomes(mPre, mPost, raised)

View == <<m, t, d, Len(hist)>>   \* depth in the view: every state is expanded at every depth it is reachable at (deterministic with several workers)
=============================================================================
