CONSTANTS
  NKeys <- MCNKeys
  Vals <- MCVals
  Hash <- MCHash
  Caps0 <- MCCaps0
  MaxOps <- MCMaxOps
  Kind <- MCKind
  Deviations <- MCDeviations
INIT Init
NEXT Next
VIEW View
INVARIANTS Refines OneSlotPerKey Counts LookupAgrees Findable EqAgrees NoPanic ResAgrees ActualIsIntended
CHECK_DEADLOCK FALSE
