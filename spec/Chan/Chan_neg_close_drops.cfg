\* NEGATIVE CONTROL: close discards the buffer -> TLC must report ExactlyOnceInOrder violated
CONSTANTS
  NThreads = 2
  MaxOps = 2
  NCh = 1
  CapSet = {0, 1, 2}
  Kinds = {"push", "pop", "next", "close", "select"}
  SingleWaiter = FALSE
  NoBlock = FALSE
  DetSelect = FALSE
  Variant = "close_drops"
SPECIFICATION Spec
VIEW View
INVARIANTS TypeOK ExactlyOnceInOrder NoDuplicates PerProducerOrder BlockedJustified ErrorsOnlyWhenClosed RejectsPopsOnlyWhenDrained WokenErrorsOnlyWhenClosed
PROPERTIES ClosedStaysClosed ClosedRejectsPushes ClosedDrains DeliversHead SelectOnlyReady
CHECK_DEADLOCK FALSE
