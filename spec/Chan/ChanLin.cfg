\* trace validation (the check writes chanlin.ndjson next to the module); run with -workers 1
CONSTANTS
  MaxT = 6
  MaxC = 1
INIT Init
NEXT Next
CONSTRAINT HighWater
POSTCONDITION Accepted
CHECK_DEADLOCK FALSE
