------------------------------ MODULE ChanLin ------------------------------
(***************************************************************************)
(* Linearizability trace validation for Elk channels.  A trace is the      *)
(* sequence of hook events recorded from a free-running Elk program with   *)
(* `go` threads (chan.X.try = call, chan.X.ok / .err / .stop = return with *)
(* its result), in the order of a global atomic counter.  The channel      *)
(* semantics is the one of Chan.tla (FIFO buffer, capacity, closed flag,   *)
(* rendezvous on an unbuffered channel); because the hooks are outside the *)
(* native operation, its effect takes place at a silent step Lin between   *)
(* call and return.  The trace is ACCEPTED iff some behaviour consumes all *)
(* of it (CONSTRAINT HighWater records the furthest line reached,          *)
(* POSTCONDITION Accepted requires it to be the end); otherwise no         *)
(* linearization explains the recorded results.                            *)
(* Lines: [ev |-> "reset"|"call"|"ret", t, op |-> "push"|"pop"|"next"|"close", c, v, res, caps] *)
(***************************************************************************)
EXTENDS Integers, Sequences, FiniteSets, TLC, Json

CONSTANTS MaxT, MaxC
Trace == ndJsonDeserialize("chanlin.ndjson")
N == Len(Trace)
Threads == 1..MaxT
Chans == 1..MaxC

VARIABLES l, cap, buf, closed, pend
vars == <<l, cap, buf, closed, pend>>

NoOp == [op |-> "none", c |-> 0, v |-> 0, done |-> FALSE, res |-> "", rv |-> 0]

Init == /\ l = 1
        /\ cap = [c \in Chans |-> 0] /\ buf = [c \in Chans |-> <<>>] /\ closed = [c \in Chans |-> FALSE]
        /\ pend = [t \in Threads |-> NoOp]

Line == Trace[l]

Reset == /\ l <= N /\ Line.ev = "reset"
         /\ cap' = [c \in Chans |-> IF c <= Len(Line.caps) THEN Line.caps[c] ELSE 0]
         /\ buf' = [c \in Chans |-> <<>>] /\ closed' = [c \in Chans |-> FALSE]
         /\ pend' = [t \in Threads |-> NoOp]
         /\ l' = l + 1

Call == /\ l <= N /\ Line.ev = "call"
        /\ pend[Line.t].op = "none"
        /\ pend' = [pend EXCEPT ![Line.t] = [op |-> Line.op, c |-> Line.c, v |-> Line.v, done |-> FALSE, res |-> "", rv |-> 0]]
        /\ l' = l + 1 /\ UNCHANGED <<cap, buf, closed>>

Finish(t, res, rv) == [pend EXCEPT ![t].done = TRUE, ![t].res = res, ![t].rv = rv]

\* the effect of a pending operation (the channel semantics of Chan.tla)
Lin(t) ==
  /\ pend[t].op # "none" /\ ~pend[t].done
  /\ LET c == pend[t].c op == pend[t].op IN
     \/ /\ op = "push" /\ closed[c]
        /\ pend' = Finish(t, "err_push", 0) /\ UNCHANGED <<buf, closed>>
     \/ /\ op = "push" /\ ~closed[c] /\ Len(buf[c]) < cap[c]
        /\ buf' = [buf EXCEPT ![c] = Append(@, pend[t].v)]
        /\ pend' = Finish(t, "ok", 0) /\ UNCHANGED closed
     \/ /\ op \in {"pop", "next"} /\ buf[c] # <<>>
        /\ buf' = [buf EXCEPT ![c] = Tail(@)]
        /\ pend' = Finish(t, "val", Head(buf[c])) /\ UNCHANGED closed
     \/ /\ op \in {"pop", "next"} /\ buf[c] = <<>> /\ closed[c]
        /\ pend' = Finish(t, IF op = "pop" THEN "err_pop" ELSE "stop", 0) /\ UNCHANGED <<buf, closed>>
     \/ /\ op = "close" /\ ~closed[c]
        /\ closed' = [closed EXCEPT ![c] = TRUE]
        /\ pend' = Finish(t, "ok", 0) /\ UNCHANGED buf
     \/ /\ op = "close" /\ closed[c]
        /\ pend' = Finish(t, "err_close", 0) /\ UNCHANGED <<buf, closed>>
  /\ UNCHANGED <<l, cap>>

\* rendezvous: a sender and a receiver that are both inside their operations on an empty channel
LinPair(s, r) ==
  /\ s # r
  /\ pend[s].op = "push" /\ ~pend[s].done
  /\ pend[r].op \in {"pop", "next"} /\ ~pend[r].done /\ pend[r].c = pend[s].c
  /\ ~closed[pend[s].c] /\ buf[pend[s].c] = <<>>
  /\ pend' = [pend EXCEPT ![s].done = TRUE, ![s].res = "ok", ![r].done = TRUE, ![r].res = "val", ![r].rv = pend[s].v]
  /\ UNCHANGED <<l, cap, buf, closed>>

Ret == /\ l <= N /\ Line.ev = "ret"
       /\ pend[Line.t].done /\ pend[Line.t].op = Line.op /\ pend[Line.t].c = Line.c
       /\ pend[Line.t].res = Line.res
       /\ (Line.res = "val" => pend[Line.t].rv = Line.v)
       /\ pend' = [pend EXCEPT ![Line.t] = NoOp]
       /\ l' = l + 1 /\ UNCHANGED <<cap, buf, closed>>

Next == Reset \/ Call \/ Ret \/ (\E t \in Threads : Lin(t)) \/ (\E s, r \in Threads : LinPair(s, r))

\* acceptance: the furthest line reached by any behaviour (TLC register 1; run with -workers 1) is the end
HighWater == TLCSet(1, IF TLCGet(1) < l THEN l ELSE TLCGet(1))
Accepted  == TLCGet(1) = N + 1
ASSUME TLCSet(1, 0)
Capacity == \A c \in Chans : Len(buf[c]) <= cap[c]
=============================================================================
