-------------------------------- MODULE Chan --------------------------------
(***************************************************************************)
(* Elk channels (value/channel_of_value.go, vm/channel.go, SELECT in       *)
(* vm/thread.go): buffered FIFO with capacity, closed flag, blocked        *)
(* senders / receivers, push / pop / next (iteration) / close / select.    *)
(* Property C25, channel half: every pushed value is delivered exactly     *)
(* once and in push order; select takes only ready cases; a closed channel *)
(* rejects pushes, drains, then rejects pops -- with error OUTCOMES.       *)
(*                                                                         *)
(* GRANULARITY.  One action = "release one thread from the gate in front   *)
(* of its next operation and let the system run until it is quiescent":    *)
(* the operation either completes (result in the event), or the thread     *)
(* blocks inside it; threads that were blocked and are woken by the        *)
(* operation complete in the same step (field wake).  This is exactly what *)
(* the gate driver can observe on the real goroutines (hook events         *)
(* chan.*.try / chan.*.ok / chan.*.err, goroutine wait status), and the    *)
(* linearisation order of the operations is the order of the steps, so     *)
(* TLC explores every interleaving of the operations of all programs of    *)
(* NThreads threads with MaxOps operations each.                           *)
(***************************************************************************)
EXTENDS Integers, Sequences, FiniteSets, TLC, Json

CONSTANTS NThreads,      \* threads 1..NThreads
          MaxOps,        \* operations per thread
          NCh,           \* channels 1..NCh
          CapSet,        \* capacities a channel may have (chosen in Init)
          Kinds,         \* operation kinds in the alphabet: "push","pop","next","close","select"
          SingleWaiter,  \* TRUE: never let a second thread block in the same role on a channel
                         \*   (which of two waiters Go wakes first is not part of the contract;
                         \*    used for the behaviours that are replayed as forced schedules)
          DetSelect,     \* TRUE: a select is only taken when at most one of its cases is ready (its outcome is
                         \*   then a function of the state: used for generated sequential programs)
          NoBlock,       \* TRUE: operations that would block are not taken (sequential programs)
          Variant        \* "good" | "close_drops" (negative control: close discards the buffer)
                         \*        | "select_any" (negative control: select may take an unready case)

Threads == 1..NThreads
Chans   == 1..NCh

VARIABLES cap,      \* per channel: capacity (constant after Init)
          buf,      \* per channel: FIFO buffer
          closed,   \* per channel
          blk,      \* per thread: the operation it is blocked in ([k |-> "none"] if none)
          left,     \* per thread: operations still to start
          pushed,   \* per channel: values accepted, in order (history)
          popped,   \* per channel: values delivered, in order (history)
          last,     \* the last event (part of the state: result-based invariants)
          hist      \* all events (history variable hidden by VIEW; it is the schedule that is replayed)

vars == <<cap, buf, closed, blk, left, pushed, popped, last, hist>>
View == <<cap, buf, closed, blk, left, pushed, popped, last>>

None == [k |-> "none", c |-> 0, v |-> 0]
NoCases == <<>>

Senders(c) == {t \in Threads : blk[t].k = "push" /\ blk[t].c = c}
Recvs(c)   == {t \in Threads : blk[t].k \in {"pop", "next"} /\ blk[t].c = c}
Ready(t)   == blk[t].k = "none" /\ left[t] > 0

\* the value thread t pushes in its i-th operation: distinguishable, and ordered per producer
ValOf(t) == 10 * t + (MaxOps - left[t] + 1)

\* the result a receiver of kind k gets from a closed, drained channel
ClosedRes(k) == IF k = "next" THEN "stop" ELSE "err_pop"

Wk(a, r, rv) == [a |-> a, r |-> r, rv |-> rv]

\* event: thread a started operation k on channel c (value v); outcome r (rv = value received);
\* wake = the blocked threads that completed because of it; lens = buffer lengths afterwards;
\* cases/sel = the select cases and the index of the chosen one
Ev(a, k, c, v, r, rv, wake, cases, sel) ==
   [a |-> a, k |-> k, c |-> c, v |-> v, r |-> r, rv |-> rv, wake |-> wake,
    lens |-> [x \in Chans |-> Len(buf'[x])], cases |-> cases, sel |-> sel]
Log(e) == last' = e /\ hist' = Append(hist, e)

Init == /\ cap \in [Chans -> CapSet]
        /\ buf = [c \in Chans |-> <<>>] /\ closed = [c \in Chans |-> FALSE]
        /\ blk = [t \in Threads |-> None] /\ left = [t \in Threads |-> MaxOps]
        /\ pushed = [c \in Chans |-> <<>>] /\ popped = [c \in Chans |-> <<>>]
        /\ last = [a |-> 0, k |-> "init", c |-> 0, v |-> 0, r |-> "", rv |-> 0, wake |-> <<>>,
                   lens |-> [x \in Chans |-> 0], cases |-> NoCases, sel |-> 0]
        /\ hist = <<>>

Started(t) == left' = [left EXCEPT ![t] = @ - 1]

-----------------------------------------------------------------------------
(* the body of a send of v on c by t; k is "push" or "select" (a select never blocks here) *)
SendBody(t, c, v, k, cases, sel) ==
  \/ /\ closed[c]                                     \* rejected: error outcome, nothing changes
     /\ UNCHANGED <<cap, buf, closed, blk, pushed, popped>>
     /\ Log(Ev(t, k, c, v, "err_push", 0, <<>>, cases, sel))
  \/ /\ ~closed[c] /\ Recvs(c) # {}                   \* hand-off to a blocked receiver
     /\ \E r \in Recvs(c) :
          /\ blk' = [blk EXCEPT ![r] = None]
          /\ pushed' = [pushed EXCEPT ![c] = Append(@, v)]
          /\ popped' = [popped EXCEPT ![c] = Append(@, v)]
          /\ UNCHANGED <<cap, buf, closed>>
          /\ Log(Ev(t, k, c, v, "ok", 0, <<Wk(r, "val", v)>>, cases, sel))
  \/ /\ ~closed[c] /\ Recvs(c) = {} /\ Len(buf[c]) < cap[c]      \* room in the buffer
     /\ buf' = [buf EXCEPT ![c] = Append(@, v)]
     /\ pushed' = [pushed EXCEPT ![c] = Append(@, v)]
     /\ UNCHANGED <<cap, closed, blk, popped>>
     /\ Log(Ev(t, k, c, v, "ok", 0, <<>>, cases, sel))
  \/ /\ ~closed[c] /\ Recvs(c) = {} /\ Len(buf[c]) >= cap[c]     \* full: the sender blocks
     /\ k = "push" /\ ~NoBlock
     /\ SingleWaiter => Senders(c) = {}
     /\ blk' = [blk EXCEPT ![t] = [k |-> "push", c |-> c, v |-> v]]
     /\ UNCHANGED <<cap, buf, closed, pushed, popped>>
     /\ Log(Ev(t, k, c, v, "blocked", 0, <<>>, cases, sel))

(* the body of a receive on c by t; rk is "pop" or "next" (what a closed channel answers), k the event kind *)
RecvBody(t, c, rk, k, cases, sel) ==
  \/ /\ buf[c] # <<>> /\ Senders(c) = {}              \* take the head
     /\ buf' = [buf EXCEPT ![c] = Tail(@)]
     /\ popped' = [popped EXCEPT ![c] = Append(@, Head(buf[c]))]
     /\ UNCHANGED <<cap, closed, blk, pushed>>
     /\ Log(Ev(t, k, c, 0, "val", Head(buf[c]), <<>>, cases, sel))
  \/ /\ buf[c] # <<>> /\ Senders(c) # {}              \* take the head; a blocked sender's value enters the buffer
     /\ \E s \in Senders(c) :
          /\ buf' = [buf EXCEPT ![c] = Append(Tail(@), blk[s].v)]
          /\ pushed' = [pushed EXCEPT ![c] = Append(@, blk[s].v)]
          /\ popped' = [popped EXCEPT ![c] = Append(@, Head(buf[c]))]
          /\ blk' = [blk EXCEPT ![s] = None]
          /\ UNCHANGED <<cap, closed>>
          /\ Log(Ev(t, k, c, 0, "val", Head(buf[c]), <<Wk(s, "ok", 0)>>, cases, sel))
  \/ /\ buf[c] = <<>> /\ Senders(c) # {}              \* unbuffered: rendezvous with a blocked sender
     /\ \E s \in Senders(c) :
          /\ pushed' = [pushed EXCEPT ![c] = Append(@, blk[s].v)]
          /\ popped' = [popped EXCEPT ![c] = Append(@, blk[s].v)]
          /\ blk' = [blk EXCEPT ![s] = None]
          /\ UNCHANGED <<cap, buf, closed>>
          /\ Log(Ev(t, k, c, 0, "val", blk[s].v, <<Wk(s, "ok", 0)>>, cases, sel))
  \/ /\ buf[c] = <<>> /\ Senders(c) = {} /\ closed[c]   \* closed and drained: rejected
     /\ UNCHANGED <<cap, buf, closed, blk, pushed, popped>>
     /\ Log(Ev(t, k, c, 0, ClosedRes(rk), 0, <<>>, cases, sel))
  \/ /\ buf[c] = <<>> /\ Senders(c) = {} /\ ~closed[c]  \* empty: the receiver blocks
     /\ k # "select" /\ ~NoBlock
     /\ SingleWaiter => Recvs(c) = {}
     /\ blk' = [blk EXCEPT ![t] = [k |-> rk, c |-> c, v |-> 0]]
     /\ UNCHANGED <<cap, buf, closed, pushed, popped>>
     /\ Log(Ev(t, k, c, 0, "blocked", 0, <<>>, cases, sel))

DoPush(t, c) == /\ "push" \in Kinds /\ Ready(t) /\ Started(t)
                /\ SendBody(t, c, ValOf(t), "push", NoCases, 0)

DoPop(t, c, rk) == /\ rk \in Kinds /\ Ready(t) /\ Started(t)
                   /\ RecvBody(t, c, rk, rk, NoCases, 0)

\* the wake list is ordered by thread id so that an event is a deterministic function of the step
RECURSIVE WakeSeq(_, _)
WakeSeq(S, c) == IF S = {} THEN <<>>
                 ELSE LET t == CHOOSE x \in S : \A y \in S : x <= y IN
                      <<Wk(t, IF blk[t].k = "push" THEN "err_push" ELSE ClosedRes(blk[t].k), 0)>> \o WakeSeq(S \ {t}, c)

DoClose(t, c) ==
  /\ "close" \in Kinds /\ Ready(t) /\ Started(t)
  /\ \/ /\ closed[c]
        /\ UNCHANGED <<cap, buf, closed, blk, pushed, popped>>
        /\ Log(Ev(t, "close", c, 0, "err_close", 0, <<>>, NoCases, 0))
     \/ /\ ~closed[c]
        /\ closed' = [closed EXCEPT ![c] = TRUE]
        /\ buf' = IF Variant = "close_drops" THEN [buf EXCEPT ![c] = <<>>] ELSE buf
        /\ blk' = [t2 \in Threads |-> IF t2 \in Senders(c) \cup Recvs(c) THEN None ELSE blk[t2]]
        /\ UNCHANGED <<cap, pushed, popped>>
        /\ Log(Ev(t, "close", c, 0, "ok", 0, WakeSeq(Senders(c) \cup Recvs(c), c), NoCases, 0))

(* select: a sequence of cases [d |-> "send"|"recv", c |-> channel], optionally ended by the else branch [d |-> "else"] *)
ChanReady(cs) == IF cs.d = "send" THEN closed[cs.c] \/ Recvs(cs.c) # {} \/ Len(buf[cs.c]) < cap[cs.c]
                 ELSE buf[cs.c] # <<>> \/ Senders(cs.c) # {} \/ closed[cs.c]
RealCases(cases) == {i \in 1..Len(cases) : cases[i].d # "else"}
ReadyCases(cases) == {i \in RealCases(cases) : ChanReady(cases[i])}
CaseSet == [d : {"send", "recv"}, c : Chans]
ElseCase == [d |-> "else", c |-> 0]
SelectShapes == LET base == {<<a>> : a \in CaseSet} \cup {<<a, b>> : a \in CaseSet, b \in CaseSet} IN
                base \cup {Append(s, ElseCase) : s \in base}

DoSelect(t, cases) ==
  /\ "select" \in Kinds /\ Ready(t) /\ Started(t)
  /\ DetSelect => Cardinality(ReadyCases(cases)) <= 1
  /\ LET ready == ReadyCases(cases) IN
     \/ \E i \in ready :
          IF cases[i].d = "send"
          THEN SendBody(t, cases[i].c, ValOf(t), "select", cases, i)
          ELSE RecvBody(t, cases[i].c, "pop", "select", cases, i)
     \/ /\ Variant = "select_any"                      \* broken variant: an unready case is taken
        /\ \E i \in RealCases(cases) \ ready :
             /\ UNCHANGED <<cap, buf, closed, blk, pushed, popped>>
             /\ Log(Ev(t, "select", cases[i].c, 0, "ok", 0, <<>>, cases, i))
     \/ /\ ready = {}                                  \* nothing ready: the else branch
        /\ \E i \in 1..Len(cases) :
             /\ cases[i].d = "else"
             /\ UNCHANGED <<cap, buf, closed, blk, pushed, popped>>
             /\ Log(Ev(t, "select", 0, 0, "default", 0, <<>>, cases, i))
     \* nothing ready and no else branch: the select blocks; outside the modelled alphabet

Next == \E t \in Threads :
          \/ \E c \in Chans : DoPush(t, c) \/ DoPop(t, c, "pop") \/ DoPop(t, c, "next") \/ DoClose(t, c)
          \/ \E cases \in SelectShapes : DoSelect(t, cases)

Spec == Init /\ [][Next]_vars

-----------------------------------------------------------------------------
(* Properties *)
IsPrefix(s, t) == Len(s) <= Len(t) /\ \A i \in 1..Len(s) : s[i] = t[i]

TypeOK == /\ \A c \in Chans : Len(buf[c]) <= cap[c]
          /\ \A t \in Threads : left[t] \in 0..MaxOps

\* every pushed value is delivered exactly once and in push order: what was accepted is what was
\* delivered followed by what is still buffered -- nothing lost, duplicated or reordered
ExactlyOnceInOrder == \A c \in Chans : pushed[c] = popped[c] \o buf[c]
NoDuplicates == \A c \in Chans : \A i, j \in 1..Len(pushed[c]) : i # j => pushed[c][i] # pushed[c][j]
\* per-producer order: the values of one producer are delivered in the order it pushed them
PerProducerOrder == \A c \in Chans : \A i, j \in 1..Len(popped[c]) :
                      (i < j /\ popped[c][i] \div 10 = popped[c][j] \div 10) => popped[c][i] < popped[c][j]

\* a thread stays blocked only while its operation is impossible
BlockedJustified ==
  \A t \in Threads :
     /\ blk[t].k = "push" => ~closed[blk[t].c] /\ Len(buf[blk[t].c]) = cap[blk[t].c] /\ Recvs(blk[t].c) = {}
     /\ blk[t].k \in {"pop", "next"} => ~closed[blk[t].c] /\ buf[blk[t].c] = <<>> /\ Senders(blk[t].c) = {}

\* error outcomes only from a closed channel; a pop is rejected only once the channel is drained
ErrorsOnlyWhenClosed == last.r \in {"err_push", "err_close", "err_pop", "stop"} => closed[last.c]
RejectsPopsOnlyWhenDrained == last.r \in {"err_pop", "stop"} => buf[last.c] = <<>>
WokenErrorsOnlyWhenClosed == \A i \in 1..Len(last.wake) : last.wake[i].r \in {"err_push", "err_pop", "stop"} => closed[last.c]

\* action properties: a closed channel stays closed, accepts nothing, and delivers its buffer in order
ClosedStaysClosed   == [][\A c \in Chans : closed[c] => closed'[c]]_vars
ClosedRejectsPushes == [][\A c \in Chans : closed[c] => pushed'[c] = pushed[c]]_vars
ClosedDrains        == [][\A c \in Chans : (closed[c] /\ buf[c] # <<>> /\ last'.c = c /\ last'.k \in {"pop", "next"})
                                             => (last'.r = "val" /\ last'.rv = Head(buf[c]))]_vars
DeliversHead        == [][\A c \in Chans : popped'[c] # popped[c] =>
                             \/ (buf[c] # <<>> /\ popped'[c] = Append(popped[c], Head(buf[c])))
                             \/ (buf[c] = <<>> /\ Len(popped'[c]) = Len(popped[c]) + 1 /\ pushed'[c] = Append(pushed[c], popped'[c][Len(popped'[c])]))]_vars
\* select takes only ready cases, and the else branch only when no case is ready
SelectOnlyReady     == [][(last'.k = "select" /\ last' # last) =>
                             IF last'.cases[last'.sel].d = "else" THEN ReadyCases(last'.cases) = {}
                             ELSE ChanReady(last'.cases[last'.sel])]_vars

(* behaviours for the gate-scheduled replay / program generation: printed at the end of a simulation run *)
EmitAtEnd == (~ENABLED Next) =>
               PrintT(<<"GEN", ToJson([caps |-> cap, hist |-> hist])>>)
=============================================================================
