\* NEGATIVE CONTROL: select may take an unready case -> TLC must report SelectOnlyReady violated
CONSTANTS
  NThreads = 1
  MaxOps = 2
  NCh = 2
  CapSet = {0, 1, 2}
  Kinds = {"push", "pop", "next", "close", "select"}
  SingleWaiter = FALSE
  NoBlock = FALSE
  DetSelect = FALSE
  Variant = "select_any"
SPECIFICATION Spec
VIEW View
INVARIANTS TypeOK ExactlyOnceInOrder NoDuplicates PerProducerOrder BlockedJustified ErrorsOnlyWhenClosed RejectsPopsOnlyWhenDrained WokenErrorsOnlyWhenClosed
PROPERTIES ClosedStaysClosed ClosedRejectsPushes ClosedDrains DeliversHead SelectOnlyReady
CHECK_DEADLOCK FALSE
