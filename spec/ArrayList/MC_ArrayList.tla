---- MODULE MC_ArrayList ----
EXTENDS ArrayList
MCVals == 0..2
MCMaxLen == 3
MCInitLen == 1
MCSpares == {0, 2}
MCIdx == -4..4
MCBnd == -4..4
MCRangeKinds == {"closed", "open", "lopen", "ropen", "bl_closed", "bl_open", "el_closed", "el_open"}
MCGrowBy == {0, 2}
MCRepBy == {-1, 0, 2}
MCOthers == {<<>>, <<1>>, <<0, 2>>}
MCMaxHist == 5
MCMaxSlack == 3
MCKinds == {"list", "tuple"}
MCEmitAll == TRUE
MCDeviations == {"remove_skips_element_after_a_removed_one", "slice_moves_open_bound_before_normalising"}
====
