------------------------------ MODULE ArrayList ------------------------------
(***************************************************************************)
(* Property C24: ArrayList / ArrayTuple behave as plain sequences.         *)
(*                                                                         *)
(* State: the abstract sequence `seq` of a list (kind "list", mutable) or  *)
(* a tuple (kind "tuple", immutable), plus `slack`: the number of further  *)
(* appends the documented capacity contract guarantees not to reallocate   *)
(* (grow(n) adds n, an append consumes one).  Every operation named in the *)
(* property statement is one action.  An action computes the ALLOWED       *)
(* outcomes `alts` (result + sequence afterwards); where the statement     *)
(* leaves a choice (remove first / remove all occurrences, empty slice vs  *)
(* out-of-range error for a degenerate range) both are allowed and the     *)
(* action branches.  Deliberate deviations of the implementation are NAMED *)
(* guarded branches (constant Deviations): they never change the reference *)
(* behaviour, they only add a `dev` entry to the emitted step so that the  *)
(* harness recognises a recorded known finding exactly.                    *)
(*                                                                         *)
(* Binding (replay): every transition emits the behaviour that reaches it  *)
(* (`hist`, hidden from the VIEW, so TLC keeps one shortest witness per    *)
(* abstract state); harness/prop/c24 replays it on value.ArrayListOfValue, *)
(* ArrayTupleOfValue, NativeArrayList[T], NativeArrayTuple[T] through the  *)
(* Go API and the VM method wrappers, and as Elk programs, comparing the   *)
(* result, the full contents, the capacity rule and the snapshot after     *)
(* every step.                                                             *)
(***************************************************************************)
EXTENDS Integers, Sequences, FiniteSets, TLC, Json

CONSTANTS
  Vals,        \* element alphabet (small integers; the harness maps them to Int / String / Int64 ...)
  MaxLen,      \* bound on Len(seq)
  InitLen,     \* initial sequences have at most this length
  Spares,      \* initial spare capacities (realised by grow(n) after the literal)
  Idx,         \* index arguments of [] []= remove_at
  Bnd,         \* bounds of range arguments of slicing
  RangeKinds,  \* subset of the eight range kinds
  GrowBy,      \* arguments of grow
  RepBy,       \* arguments of *
  Others,      \* right operands of + and ==
  MaxHist,     \* bound on the number of operations of a behaviour
  MaxSlack,    \* bound on the tracked spare capacity
  Kinds,       \* subset of {"list", "tuple"}
  EmitAll,     \* TRUE: emit every transition (model checking); FALSE: emit complete behaviours only (simulation)
  Deviations   \* names of known deviations of the implementation to describe ({} = none)

VARIABLES kind, seq, slack, snap, hist
vars == <<kind, seq, slack, snap, hist>>
View == <<kind, seq, slack>>

-----------------------------------------------------------------------------
(* Outcomes of an operation, uniform records so that they serialise alike. *)
OVal(x)  == [t |-> "v", v |-> x, s |-> <<>>]                    \* a value
OBool(b) == [t |-> "b", v |-> IF b THEN 1 ELSE 0, s |-> <<>>]   \* a boolean
OSeq(q)  == [t |-> "s", v |-> 0, s |-> q]                       \* a new list/tuple with these elements
ONone    == [t |-> "n", v |-> 0, s |-> <<>>]                    \* result not part of the property (self / nil)
OErr     == [t |-> "e", v |-> 0, s |-> <<>>]                    \* an out-of-range error (never a crash)
OAnyErr  == [t |-> "x", v |-> 0, s |-> <<>>]                    \* some Elk error (never a crash)
Alt(out, after) == [out |-> out, after |-> after]

SeqsUpTo(n) == UNION { [1..k -> Vals] : k \in 0..n }

-----------------------------------------------------------------------------
(* Index normalisation: negative indices count from the end.               *)
NoIdx == -1000
Norm(i, n) == IF i >= n \/ i < -n THEN NoIdx ELSE IF i < 0 THEN n + i ELSE i   \* 0-based

RemoveIdx(s, k) == SubSeq(s, 1, k) \o SubSeq(s, k + 2, Len(s))                 \* k 0-based

RECURSIVE RemoveAll(_, _)
RemoveAll(s, v) == IF s = <<>> THEN <<>>
                   ELSE IF Head(s) = v THEN RemoveAll(Tail(s), v)
                   ELSE <<Head(s)>> \o RemoveAll(Tail(s), v)
FirstPos(s, v) == IF \E i \in 1..Len(s) : s[i] = v
                  THEN CHOOSE i \in 1..Len(s) : s[i] = v /\ \A j \in 1..(i - 1) : s[j] # v
                  ELSE 0
RemoveFirst(s, v) == IF FirstPos(s, v) = 0 THEN s ELSE RemoveIdx(s, FirstPos(s, v) - 1)

RECURSIVE Rep(_, _)
Rep(s, n) == IF n <= 0 THEN <<>> ELSE s \o Rep(s, n - 1)

-----------------------------------------------------------------------------
(* The reference semantics of every operation: the sequence of allowed     *)
(* alternatives.                                                           *)
GetAlts(s, i) == LET k == Norm(i, Len(s)) IN
  IF k = NoIdx THEN <<Alt(OErr, s)>> ELSE <<Alt(OVal(s[k + 1]), s)>>

SetAlts(s, i, v) == LET k == Norm(i, Len(s)) IN
  IF k = NoIdx THEN <<Alt(OErr, s)>> ELSE <<Alt(ONone, [s EXCEPT ![k + 1] = v])>>

RemoveAtAlts(s, i) == LET k == Norm(i, Len(s)) IN
  IF k = NoIdx THEN <<Alt(OErr, s)>> ELSE <<Alt(ONone, RemoveIdx(s, k))>>

PopAlts(s) == IF s = <<>> THEN <<Alt(OAnyErr, s)>>
              ELSE <<Alt(OVal(s[Len(s)]), SubSeq(s, 1, Len(s) - 1))>>

\* "Removes the element from the list": the statement does not say whether one or every occurrence
\* goes, so both are allowed; the result tells whether anything was removed.
RemoveAlts(s, v) ==
  IF RemoveAll(s, v) = RemoveFirst(s, v)
  THEN <<Alt(OBool(FirstPos(s, v) # 0), RemoveAll(s, v))>>
  ELSE <<Alt(OBool(TRUE), RemoveAll(s, v)), Alt(OBool(TRUE), RemoveFirst(s, v))>>

\* Range kinds: lo...hi  lo<.<hi  lo<..hi  lo..<hi  ...hi  ..<hi  lo...  lo<..
HasLo(rk)  == rk \in {"closed", "open", "lopen", "ropen", "el_closed", "el_open"}
HasHi(rk)  == rk \in {"closed", "open", "lopen", "ropen", "bl_closed", "bl_open"}
LoOpen(rk) == rk \in {"open", "lopen", "el_open"}
HiOpen(rk) == rk \in {"open", "ropen", "bl_open"}
NB(b, n)   == IF b < 0 THEN n + b ELSE b          \* a stated bound counts from the end when negative
FirstIx(rk, lo, n) == IF ~HasLo(rk) THEN 0     ELSE IF LoOpen(rk) THEN NB(lo, n) + 1 ELSE NB(lo, n)
LastIx(rk, hi, n)  == IF ~HasHi(rk) THEN n - 1 ELSE IF HiOpen(rk) THEN NB(hi, n) - 1 ELSE NB(hi, n)

\* A slice is the subsequence at the indices the range denotes.  A range that denotes no index may
\* give the empty collection or an out-of-range error (the statement does not choose); a range that
\* denotes an index outside the collection must give the out-of-range error.
SliceAlts(s, rk, lo, hi) ==
  LET n == Len(s)
      f == FirstIx(rk, lo, n)
      l == LastIx(rk, hi, n)
  IN IF f > l THEN <<Alt(OSeq(<<>>), s), Alt(OErr, s)>>
     ELSE IF f < 0 \/ l >= n THEN <<Alt(OErr, s)>>
     ELSE IF HasLo(rk) /\ LoOpen(rk) /\ NB(lo, n) = -1    \* open lower bound stated as -(n+1)
          THEN <<Alt(OSeq(SubSeq(s, f + 1, l + 1)), s), Alt(OErr, s)>>
     ELSE <<Alt(OSeq(SubSeq(s, f + 1, l + 1)), s)>>

RepeatAlts(s, n) == IF n < 0 THEN <<Alt(OAnyErr, s)>> ELSE <<Alt(OSeq(Rep(s, n)), s)>>

-----------------------------------------------------------------------------
(* NAMED DEVIATIONS of the implementation (known findings).                *)

\* vm/array_list.go "remove": after RemoveAt(i) the loop still increments i, so the element that
\* moved into slot i is skipped.
RECURSIVE ImplRemoveFrom(_, _, _)
ImplRemoveFrom(s, v, i) == IF i > Len(s) THEN s
                           ELSE IF s[i] = v THEN ImplRemoveFrom(RemoveIdx(s, i - 1), v, i + 1)
                           ELSE ImplRemoveFrom(s, v, i + 1)
DevRemove == "remove_skips_element_after_a_removed_one"

\* vm/tuple.go "slice": an open bound is moved by one BEFORE negative indices are normalised, so
\* `a[0..<0]` ends at index -1 = the last element, `a[-1<..]` starts at index 0.
ImplSliceOut(s, rk, lo, hi) ==
  LET n   == Len(s)
      st0 == IF ~HasLo(rk) THEN 0     ELSE IF LoOpen(rk) THEN lo + 1 ELSE lo
      en0 == IF ~HasHi(rk) THEN n - 1 ELSE IF HiOpen(rk) THEN hi - 1 ELSE hi
      st  == Norm(st0, n)
      en  == Norm(en0, n)
  IN IF st = NoIdx \/ en = NoIdx THEN OErr
     ELSE IF st > en THEN OSeq(<<>>) ELSE OSeq(SubSeq(s, st + 1, en + 1))
DevSlice == "slice_moves_open_bound_before_normalising"

InAlts(a, alts) == \E p \in 1..Len(alts) : alts[p] = a
DevEntry(name, a, alts) ==
  IF name \in Deviations /\ ~InAlts(a, alts) THEN <<[name |-> name, out |-> a.out, after |-> a.after]>> ELSE <<>>

-----------------------------------------------------------------------------
NoSnap == [has |-> FALSE, s |-> <<>>]

Init ==
  /\ kind \in Kinds
  /\ seq \in SeqsUpTo(IF kind = "tuple" THEN MaxLen ELSE InitLen)
  /\ slack \in (IF kind = "tuple" THEN {0} ELSE Spares)
  /\ snap = NoSnap
  /\ hist = [kind |-> kind, init |-> seq, spare |-> slack, steps |-> <<>>]

Emit(h) == IF EmitAll \/ Len(h.steps) = MaxHist THEN PrintT(<<"GEN", ToJson(h)>>) ELSE TRUE

Min(a, b) == IF a < b THEN a ELSE b
Max(a, b) == IF a > b THEN a ELSE b

\* capr: "same" = the capacity must not change, "grow" = capacity' = capacity + a, "any".
Apply(op, a, b, rk, q, alts, devs, nslack, capr) ==
  /\ Len(hist.steps) < MaxHist
  /\ \E p \in 1..Len(alts) :
       LET nsnap == IF alts[p].out.t = "s" THEN [has |-> TRUE, s |-> alts[p].out.s] ELSE snap
           step  == [op |-> op, a |-> a, b |-> b, rk |-> rk, q |-> q, alts |-> alts, pick |-> p,
                     dev |-> devs, slack |-> nslack, capr |-> capr, snap |-> nsnap]
       IN \* the behaviour forks only where the alternatives leave different contents behind
          /\ \A r \in 1..(p - 1) : alts[r].after # alts[p].after
          /\ Len(alts[p].after) <= MaxLen
          /\ seq' = alts[p].after
          /\ snap' = nsnap
          /\ hist' = [hist EXCEPT !.steps = Append(@, step)]
          /\ Emit(hist')
  /\ slack' = Min(nslack, MaxSlack)
  /\ kind' = kind

IsList == kind = "list"

\* ---- operations of lists and tuples
Get      == \E i \in Idx : Apply("get", i, 0, "", <<>>, GetAlts(seq, i), <<>>, slack, "same")
Slice    == \E rk \in RangeKinds, lo \in Bnd, hi \in Bnd :
              /\ HasLo(rk) \/ lo = 0          \* unused bounds are fixed to 0
              /\ HasHi(rk) \/ hi = 0
              /\ LET alts == SliceAlts(seq, rk, lo, hi) IN
                 Apply("slice", lo, hi, rk, <<>>, alts,
                       DevEntry(DevSlice, Alt(ImplSliceOut(seq, rk, lo, hi), seq), alts), slack, "same")
Concat   == \E q \in Others, ok \in {"list", "tuple"} :
              Apply("concat", 0, 0, ok, q, <<Alt(OSeq(seq \o q), seq)>>, <<>>, slack, "same")
Repeat   == \E n \in RepBy : Apply("repeat", n, 0, "", <<>>, RepeatAlts(seq, n), <<>>, slack, "same")
Eq       == \E q \in Others \cup {seq} :
              Apply("eq", 0, 0, "", q, <<Alt(OBool(seq = q), seq)>>, <<>>, slack, "same")
Contains == \E v \in Vals :
              Apply("contains", v, 0, "", <<>>, <<Alt(OBool(\E i \in 1..Len(seq) : seq[i] = v), seq)>>, <<>>, slack, "same")
Length   == Apply("length", 0, 0, "", <<>>, <<Alt(OVal(Len(seq)), seq)>>, <<>>, slack, "same")

\* ---- list mutation
Set      == IsList /\ \E i \in Idx, v \in Vals :
              Apply("set", i, v, "", <<>>, SetAlts(seq, i, v), <<>>, slack, "same")
PushVia(op) == IsList /\ \E v \in Vals :
              Apply(op, v, 0, "", <<>>, <<Alt(ONone, Append(seq, v))>>, <<>>, Max(slack - 1, 0),
                    IF slack > 0 THEN "same" ELSE "any")
Push     == PushVia("push")
Shl      == PushVia("shl")
AppendOp == IsList /\ \E q \in SeqsUpTo(2) :
              Apply("append", 0, 0, "", q, <<Alt(ONone, seq \o q)>>, <<>>, Max(slack - Len(q), 0),
                    IF slack >= Len(q) THEN "same" ELSE "any")
Pop      == IsList /\ Apply("pop", 0, 0, "", <<>>, PopAlts(seq), <<>>, slack, "any")
Clear    == IsList /\ Apply("clear", 0, 0, "", <<>>, <<Alt(ONone, <<>>)>>, <<>>, slack, "any")
Remove   == IsList /\ \E v \in Vals :
              LET alts == RemoveAlts(seq, v) IN
              Apply("remove", v, 0, "", <<>>, alts,
                    DevEntry(DevRemove, Alt(OBool(FirstPos(seq, v) # 0), ImplRemoveFrom(seq, v, 1)), alts),
                    slack, "any")
RemoveAt == IsList /\ \E i \in Idx :
              Apply("remove_at", i, 0, "", <<>>, RemoveAtAlts(seq, i), <<>>, slack, "any")
Grow     == IsList /\ \E n \in GrowBy :
              Apply("grow", n, 0, "", <<>>, <<Alt(ONone, seq)>>, <<>>, slack + n, "grow")

Next == \/ Get \/ Slice \/ Concat \/ Repeat \/ Eq \/ Contains \/ Length
        \/ Set \/ Push \/ Shl \/ AppendOp \/ Pop \/ Clear \/ Remove \/ RemoveAt \/ Grow

Spec == Init /\ [][Next]_vars

-----------------------------------------------------------------------------
(* Properties of the specification itself (checked by TLC on every state / *)
(* transition of the bounded instance).                                    *)
TypeOK == /\ kind \in Kinds
          /\ seq \in SeqsUpTo(MaxLen)
          /\ slack \in 0..MaxSlack
          /\ snap.has \in BOOLEAN

\* tuples never change
TupleImmutable == [][kind = "tuple" => seq' = seq]_vars

LastStep == hist'.steps[Len(hist'.steps)]
\* an operation that fails leaves the collection unchanged; only the mutators change it
FailedOpsChangeNothing ==
  [][LET st == LastStep IN st.alts[st.pick].out.t \in {"e", "x"} => seq' = seq]_vars
ReadOpsChangeNothing ==
  [][LastStep.op \in {"get", "slice", "concat", "repeat", "eq", "contains", "length", "grow"} => seq' = seq]_vars
\* indexing is consistent: a successful get(i) and get(i - Len) agree, length changes by exactly the
\* number of elements added / removed
LengthAccounting ==
  [][LET st == LastStep IN
       /\ st.op \in {"push", "shl"} => Len(seq') = Len(seq) + 1
       /\ st.op = "append" => Len(seq') = Len(seq) + Len(st.q)
       /\ (st.op \in {"pop", "remove_at"} /\ st.alts[st.pick].out.t \notin {"e", "x"}) => Len(seq') = Len(seq) - 1
       /\ st.op = "clear" => seq' = <<>>
       /\ st.op = "remove" => (\A i \in 1..Len(seq') : seq'[i] \in {seq[j] : j \in 1..Len(seq)})
                              /\ (st.alts[st.pick].out.v = 1 <=> Len(seq') < Len(seq))]_vars
NegativeIndexAgrees ==
  \A i \in Idx : (i < 0 /\ Norm(i, Len(seq)) # NoIdx) => GetAlts(seq, i) = GetAlts(seq, i + Len(seq))
=============================================================================
