\* Bounded instance of ArrayList; the constants come from MC_ArrayList.tla, which the harness
\* generates per tier (the file in this directory is the quick-tier instance, for running TLC by hand).
CONSTANTS
  Vals <- MCVals
  MaxLen <- MCMaxLen
  InitLen <- MCInitLen
  Spares <- MCSpares
  Idx <- MCIdx
  Bnd <- MCBnd
  RangeKinds <- MCRangeKinds
  GrowBy <- MCGrowBy
  RepBy <- MCRepBy
  Others <- MCOthers
  MaxHist <- MCMaxHist
  MaxSlack <- MCMaxSlack
  Kinds <- MCKinds
  EmitAll <- MCEmitAll
  Deviations <- MCDeviations
INIT Init
NEXT Next
VIEW View
INVARIANTS TypeOK NegativeIndexAgrees
PROPERTIES TupleImmutable FailedOpsChangeNothing ReadOpsChangeNothing LengthAccounting
CHECK_DEADLOCK FALSE
