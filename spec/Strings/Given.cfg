\* Directed mode: the model is evaluated on the operand pairs of MCGiven only (no steps, no invariants:
\* used with a non-empty Deviations set to predict what a NAMED deviation of the implementation yields).
CONSTANTS
  MaxLen <- MCMaxLen
  MaxLenBinS <- MCMaxLenBinS
  MaxLenT <- MCMaxLenT
  IdxRange <- MCIdxRange
  MaxPad <- MCMaxPad
  MaxRep <- MCMaxRep
  Deviations <- MCDeviations
  Emit <- MCEmit
INIT InitGiven
NEXT NoNext
CHECK_DEADLOCK FALSE
