\* The same state space as Strings.cfg with a non-empty Deviations set and NO invariants: predicts what
\* the NAMED deviations of the implementation yield (used only to recognise recorded known findings).
CONSTANTS
  MaxLen <- MCMaxLen
  MaxLenBinS <- MCMaxLenBinS
  MaxLenT <- MCMaxLenT
  IdxRange <- MCIdxRange
  MaxPad <- MCMaxPad
  MaxRep <- MCMaxRep
  Deviations <- MCDeviations
  Emit <- MCEmit
INIT Init
NEXT Next
CHECK_DEADLOCK FALSE
