---- MODULE MC_Strings ----
(* Default bounded instance (the harness generates this module per tier: see harness/prop/c20). *)
EXTENDS Strings
MCMaxLen == 3
MCMaxLenBinS == 2
MCMaxLenT == 2
MCIdxRange == 6
MCMaxPad == 6
MCMaxRep == 3
MCDeviations == {}
MCEmit == FALSE
====
