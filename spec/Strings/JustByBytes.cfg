\* Negative control: with the deviation just_by_bytes enabled (MCDeviations = {"just_by_bytes"})
\* TLC must report JustLaws violated (shortest witness: the one-atom string e-acute, width 2).
CONSTANTS
  MaxLen <- MCMaxLen
  MaxLenBinS <- MCMaxLenBinS
  MaxLenT <- MCMaxLenT
  IdxRange <- MCIdxRange
  MaxPad <- MCMaxPad
  MaxRep <- MCMaxRep
  Deviations <- MCDeviations
  Emit <- MCEmit
INIT Init
NEXT Next
INVARIANTS JustLaws
CHECK_DEADLOCK FALSE
