CONSTANTS
  MaxLen <- MCMaxLen
  MaxLenBinS <- MCMaxLenBinS
  MaxLenT <- MCMaxLenT
  IdxRange <- MCIdxRange
  MaxPad <- MCMaxPad
  MaxRep <- MCMaxRep
  Deviations <- MCDeviations
  Emit <- MCEmit
INIT Init
NEXT Next
INVARIANTS ViewsAgree AtLaws JustLaws AlgebraLaws CmpLaws
CHECK_DEADLOCK FALSE
