------------------------------ MODULE Strings ------------------------------
(***************************************************************************)
(* Reference model of Elk's String operations (property C20).              *)
(*                                                                         *)
(* A string is a sequence of ATOMS.  An atom is either a valid code point  *)
(* (its bytes are DERIVED by the UTF-8 encoder Enc below) or a named       *)
(* ill-formed byte sequence.  From a string three views are defined:       *)
(*   Bytes(s)     - the byte iterator's elements,                          *)
(*   Chars(s)     - the char iterator's elements (one element per code     *)
(*                  point; one element per byte of an ill-formed sequence),*)
(*   Graphemes(s) - the grapheme iterator's elements (UAX #29 rules GB3,   *)
(*                  GB4, GB5, GB9 and GB999 RESTRICTED TO THE ATOM SET:    *)
(*                  CR x LF, break around CR/LF, no break before Extend).  *)
(* Every operation of the property statement is defined on these views.    *)
(*                                                                         *)
(* The state machine only BUILDS operands (one atom per step); every step  *)
(* emits a GEN record holding the predicted result of every operation on   *)
(* the new operand(s).  The harness replays each record on the real VM.    *)
(* The invariants are the algebraic laws that tie the three views and the  *)
(* operations together; TLC checks them on every reachable operand pair.   *)
(*                                                                         *)
(* Deliberate deviations of the implementation are NAMED branches enabled  *)
(* by the constant Deviations ({} = the reference semantics).              *)
(***************************************************************************)
EXTENDS Integers, Sequences, FiniteSets, TLC, Json

CONSTANTS MaxLen,      \* operand s has at most MaxLen atoms
          MaxLenBinS,  \* binary operations are enumerated for Len(s) <= MaxLenBinS ...
          MaxLenT,     \* ... and 1 <= Len(t) <= MaxLenT  (t = <<>> is covered with every s)
          IdxRange,    \* indices -IdxRange .. IdxRange for char_at / byte_at / grapheme_at
          MaxPad,      \* target widths 0 .. MaxPad for rjust / ljust
          MaxRep,      \* repeat counts 0 .. MaxRep
          Deviations,  \* subset of {"just_by_bytes", "char_at_invalid_as_byte"}
          Emit         \* TRUE: print GEN records (replay); FALSE: model checking only

VARIABLES s, t
vars == <<s, t>>

-----------------------------------------------------------------------------
(* UTF-8.  Enc is the encoder (RFC 3629); Decode is the decoder with the   *)
(* policy "a byte that does not start a well-formed sequence is ONE        *)
(* ill-formed element" (the policy of Go's utf8 package, which both the    *)
(* char iterator and `length` of the implementation use; the property      *)
(* statement does not fix it, see ASSUME below).                           *)
Enc(cp) ==
  IF cp < 128 THEN <<cp>>
  ELSE IF cp < 2048 THEN <<192 + cp \div 64, 128 + (cp % 64)>>
  ELSE IF cp < 65536 THEN <<224 + cp \div 4096, 128 + ((cp \div 64) % 64), 128 + (cp % 64)>>
  ELSE <<240 + cp \div 262144, 128 + ((cp \div 4096) % 64), 128 + ((cp \div 64) % 64), 128 + (cp % 64)>>

(* grapheme break class, case mapping: total on code points, non-trivial   *)
(* exactly on the atom set and its closure under case mapping              *)
Class(cp) == CASE cp = 13  -> "cr"
               [] cp = 10  -> "lf"
               [] cp = 769 -> "extend"      \* U+0301 COMBINING ACUTE ACCENT
               [] OTHER    -> "other"
Upper(cp) == CASE cp = 97  -> 65            \* a -> A
               [] cp = 98  -> 66            \* b -> B
               [] cp = 233 -> 201           \* e-acute -> E-acute
               [] OTHER    -> cp
Lower(cp) == CASE cp = 65  -> 97
               [] cp = 66  -> 98
               [] cp = 201 -> 233
               [] OTHER    -> cp

(* A char element.  cp = -1 marks an ill-formed element: its identity as a *)
(* Char value is "whatever the char iterator yields there" (the statement  *)
(* only demands that char_at agrees with the iterator); b is its byte.     *)
V(cp) == [cp |-> cp, b |-> 0,  bytes |-> Enc(cp), cls |-> Class(cp)]
I(b)  == [cp |-> -1, b |-> b,  bytes |-> <<b>>,   cls |-> "other"]

(* The atom set: ASCII lower/upper, 2-byte letter, combining mark, CR, LF, *)
(* astral (4-byte), a byte that is never valid, a truncated 3-byte         *)
(* sequence (two ill-formed elements).                                     *)
Atoms == << <<V(97)>>, <<V(66)>>, <<V(233)>>, <<V(769)>>, <<V(13)>>, <<V(10)>>,
            <<V(128512)>>, <<I(255)>>, <<I(226), I(130)>> >>
NAtoms == Len(Atoms)
PadChars == <<45, 233>>                     \* `-` and e-acute (multi-byte padding)

RECURSIVE Flat(_)
Flat(ss) == IF ss = <<>> THEN <<>> ELSE Head(ss) \o Flat(Tail(ss))

Chars(x)  == Flat([i \in 1..Len(x) |-> Atoms[x[i]]])          \* sequence of elements
BytesOf(es) == Flat([i \in 1..Len(es) |-> es[i].bytes])
Bytes(x)  == BytesOf(Chars(x))

IsCont(b) == b >= 128 /\ b <= 191
RECURSIVE Decode(_)
Decode(bs) ==
  IF bs = <<>> THEN <<>>
  ELSE LET b == bs[1] n == Len(bs)
           c(i) == bs[i] - 128
           two   == b >= 194 /\ b <= 223 /\ n >= 2 /\ IsCont(bs[2])
           three == b >= 224 /\ b <= 239 /\ n >= 3 /\ IsCont(bs[2]) /\ IsCont(bs[3])
                    /\ (b = 224 => bs[2] >= 160) /\ (b = 237 => bs[2] <= 159)
           four  == b >= 240 /\ b <= 244 /\ n >= 4 /\ IsCont(bs[2]) /\ IsCont(bs[3]) /\ IsCont(bs[4])
                    /\ (b = 240 => bs[2] >= 144) /\ (b = 244 => bs[2] <= 143)
       IN IF b < 128 THEN <<V(b)>> \o Decode(Tail(bs))
          ELSE IF two THEN <<V((b - 192) * 64 + c(2))>> \o Decode(SubSeq(bs, 3, n))
          ELSE IF three THEN <<V((b - 224) * 4096 + c(2) * 64 + c(3))>> \o Decode(SubSeq(bs, 4, n))
          ELSE IF four THEN <<V((b - 240) * 262144 + c(2) * 4096 + c(3) * 64 + c(4))>> \o Decode(SubSeq(bs, 5, n))
          ELSE <<I(b)>> \o Decode(Tail(bs))

(* Graphemes: a cluster boundary lies before element i > 1 unless          *)
(*   GB3  prev = CR and cur = LF, or                                       *)
(*   GB9  cur is Extend and prev is not CR/LF (GB4 wins over GB9).         *)
NoBreak(prev, cur) == \/ (prev.cls = "cr" /\ cur.cls = "lf")
                      \/ (cur.cls = "extend" /\ prev.cls \notin {"cr", "lf"})
RECURSIVE Clusters(_, _)
Clusters(es, acc) ==   \* acc = current (non-empty) cluster, as a sequence of elements
  IF es = <<>> THEN <<acc>>
  ELSE IF NoBreak(acc[Len(acc)], Head(es)) THEN Clusters(Tail(es), Append(acc, Head(es)))
  ELSE <<acc>> \o Clusters(Tail(es), <<Head(es)>>)
GraphemeEls(es) == IF es = <<>> THEN <<>> ELSE Clusters(Tail(es), <<Head(es)>>)
Graphemes(x) == LET g == GraphemeEls(Chars(x)) IN [i \in 1..Len(g) |-> BytesOf(g[i])]

-----------------------------------------------------------------------------
(* Operations of the statement.  They are defined on the three VIEWS of a  *)
(* string, computed once: v.cs char elements, v.bs bytes, v.gs graphemes.  *)
View(x) == LET cs == Chars(x) ge == GraphemeEls(cs) IN
           [cs |-> cs, bs |-> BytesOf(cs), gs |-> [i \in 1..Len(ge) |-> BytesOf(ge[i])]]

CharCount(x)     == Len(View(x).cs)       \* `length`
ByteCount(x)     == Len(View(x).bs)
GraphemeCount(x) == Len(View(x).gs)

(* Indexed access into a view of n elements: negative indices count from   *)
(* the end; outside -n .. n-1 the access raises the out-of-range error.    *)
Err == [ok |-> FALSE, pos |-> 0]
At(n, i) == IF i >= 0 THEN (IF i < n THEN [ok |-> TRUE, pos |-> i + 1] ELSE Err)
            ELSE (IF n + i >= 0 THEN [ok |-> TRUE, pos |-> n + i + 1] ELSE Err)

CharAtV(v, i) == LET a == At(Len(v.cs), i) IN
  IF ~a.ok THEN [ok |-> FALSE, v |-> 0, pos |-> 0]
  ELSE LET e == v.cs[a.pos] IN
       \* NAMED DEVIATION char_at_invalid_as_byte: value/string.go Get() turns an ill-formed
       \* byte into Char(byte) (U+0080..U+00FF) while the char iterator yields U+FFFD
       IF e.cp = -1 /\ "char_at_invalid_as_byte" \in Deviations
       THEN [ok |-> TRUE, v |-> e.b, pos |-> a.pos]
       ELSE [ok |-> TRUE, v |-> e.cp, pos |-> a.pos]
ByteAtV(v, i) == LET a == At(Len(v.bs), i) IN
  IF a.ok THEN [ok |-> TRUE, v |-> v.bs[a.pos]] ELSE [ok |-> FALSE, v |-> 0]
GraphemeAtV(v, i) == LET a == At(Len(v.gs), i) IN
  IF a.ok THEN [ok |-> TRUE, v |-> v.gs[a.pos]] ELSE [ok |-> FALSE, v |-> <<>>]
CharAt(x, i)     == CharAtV(View(x), i)
ByteAt(x, i)     == ByteAtV(View(x), i)
GraphemeAt(x, i) == GraphemeAtV(View(x), i)

RECURSIVE Rep(_, _)
Rep(bs, n) == IF n <= 0 THEN <<>> ELSE bs \o Rep(bs, n - 1)

(* rjust/ljust: pad to a width measured in code points (what `length`      *)
(* counts and what the documentation of rjust/ljust calls "length").       *)
WidthV(v) == \* NAMED DEVIATION just_by_bytes: value/string.go RJust/LJust use len(s)
             IF "just_by_bytes" \in Deviations THEN Len(v.bs) ELSE Len(v.cs)
RJustV(v, w, p) == Rep(Enc(p), w - WidthV(v)) \o v.bs
LJustV(v, w, p) == v.bs \o Rep(Enc(p), w - WidthV(v))
RJust(x, w, p) == RJustV(View(x), w, p)
LJust(x, w, p) == LJustV(View(x), w, p)

Concat(x, y) == Bytes(x) \o Bytes(y)
IsSuffix(a, b) == Len(a) <= Len(b) /\ SubSeq(b, Len(b) - Len(a) + 1, Len(b)) = a
Minus(x, y)  == LET bx == Bytes(x) by == Bytes(y) IN    \* remove_suffix
                IF IsSuffix(by, bx) THEN SubSeq(bx, 1, Len(bx) - Len(by)) ELSE bx
Repeat(x, n) == Rep(Bytes(x), n)

MapEls(cs, F(_)) == [i \in 1..Len(cs) |-> IF cs[i].cp = -1 THEN -1 ELSE F(cs[i].cp)]
UpperEls(x) == MapEls(Chars(x), Upper)
LowerEls(x) == MapEls(Chars(x), Lower)

(* Comparison, character level: lexicographic over the char elements by    *)
(* code point; a proper prefix is smaller.  When the first difference      *)
(* involves an ill-formed element the ORDER is not defined at character    *)
(* level (result 2 = "unspecified, only consistency is required").         *)
RECURSIVE CmpEls(_, _)
CmpEls(a, b) ==
  IF a = <<>> THEN (IF b = <<>> THEN 0 ELSE -1)
  ELSE IF b = <<>> THEN 1
  ELSE LET x == Head(a) y == Head(b) IN
       IF x = y THEN CmpEls(Tail(a), Tail(b))
       ELSE IF x.cp = -1 \/ y.cp = -1 THEN 2
       ELSE IF x.cp < y.cp THEN -1 ELSE 1
Cmp(x, y) == CmpEls(Chars(x), Chars(y))

RECURSIVE CmpSeq(_, _)
CmpSeq(a, b) ==    \* bytewise lexicographic order (what UTF-8 was designed to preserve)
  IF a = <<>> THEN (IF b = <<>> THEN 0 ELSE -1)
  ELSE IF b = <<>> THEN 1
  ELSE IF Head(a) = Head(b) THEN CmpSeq(Tail(a), Tail(b))
  ELSE IF Head(a) < Head(b) THEN -1 ELSE 1

-----------------------------------------------------------------------------
(* GEN records.  Byte strings are sequences of integers; char elements are *)
(* code points, -1 = "the char iterator's element at this position".       *)
Idx == -IdxRange .. IdxRange
NIdx == 2 * IdxRange + 1
IdxOf(k) == k - IdxRange - 1                 \* k-th index, k \in 1..NIdx
CpOf(es) == [i \in 1..Len(es) |-> es[i].cp]

(* indexed results are flattened for the record: -2 = out-of-range error;  *)
(* char_at: code point, or -1 = ill-formed element (the char iterator's    *)
(* element at the same position); grapheme_at: 1-based position in         *)
(* `graphemes`.                                                            *)
UnaryRec(x) == LET v == View(x) IN
  [k |-> "u", s |-> x, bytes |-> v.bs, chars |-> CpOf(v.cs), graphemes |-> v.gs,
   char_at     |-> [k \in 1..NIdx |-> LET r == CharAtV(v, IdxOf(k)) IN IF r.ok THEN r.v ELSE -2],
   byte_at     |-> [k \in 1..NIdx |-> LET r == ByteAtV(v, IdxOf(k)) IN IF r.ok THEN r.v ELSE -2],
   grapheme_at |-> [k \in 1..NIdx |-> LET a == At(Len(v.gs), IdxOf(k)) IN IF a.ok THEN a.pos ELSE -2],
   rjust |-> [p \in 1..Len(PadChars) |-> [w \in 1..(MaxPad + 1) |-> RJustV(v, w - 1, PadChars[p])]],
   ljust |-> [p \in 1..Len(PadChars) |-> [w \in 1..(MaxPad + 1) |-> LJustV(v, w - 1, PadChars[p])]],
   rep   |-> [n \in 1..(MaxRep + 1) |-> Rep(v.bs, n - 1)],
   upper |-> MapEls(v.cs, Upper), lower |-> MapEls(v.cs, Lower)]

BinaryRec(x, y) == LET bx == Bytes(x) by == Bytes(y) IN
  [k |-> "b", s |-> x, t |-> y, sb |-> bx, tb |-> by,
   concat |-> bx \o by, minus |-> Minus(x, y), cmp |-> Cmp(x, y),
   eq |-> IF bx = by THEN 1 ELSE 0]

Gen(r) == IF Emit THEN PrintT(<<"GEN", ToJson(r)>>) ELSE TRUE

-----------------------------------------------------------------------------
Init == /\ s = <<>> /\ t = <<>>
        /\ Gen(UnaryRec(<<>>)) /\ Gen(BinaryRec(<<>>, <<>>))

(* grow the first operand: all unary operations, and the binary ones with  *)
(* the empty second operand                                                *)
AppendS(a) == /\ t = <<>> /\ Len(s) < MaxLen
              /\ s' = Append(s, a) /\ t' = t
              /\ Gen(UnaryRec(s')) /\ Gen(BinaryRec(s', <<>>))

(* grow the second operand: the binary operations on the pair              *)
AppendT(a) == /\ Len(s) <= MaxLenBinS /\ Len(t) < MaxLenT
              /\ t' = Append(t, a) /\ s' = s
              /\ Gen(BinaryRec(s, t'))

Next == \E a \in 1..NAtoms : AppendS(a) \/ AppendT(a)
Spec == Init /\ [][Next]_vars

(* Directed mode: evaluate the model on explicitly given operand pairs     *)
(* (predictions under a named deviation for the operands on which the      *)
(* implementation differed, and --replay of a recorded counterexample).    *)
(* given.ndjson holds one record {"s": [..atoms..], "t": [..atoms..]} per   *)
(* line (a plain definition, so TLC reads the file once).                  *)
Given == ndJsonDeserialize("given.ndjson")
InitGiven == \E i \in 1..Len(Given) : LET p == Given[i] IN
                /\ s = p.s /\ t = p.t
                /\ Gen(UnaryRec(p.s)) /\ Gen(BinaryRec(p.s, p.t))
NoNext == FALSE /\ UNCHANGED vars

-----------------------------------------------------------------------------
(* Invariants: the laws the property statement rests on.  Unary laws are   *)
(* checked on the states that introduce s (t = <<>>).                      *)

(* the atom-level views coincide with decoding the bytes: atoms are        *)
(* self-delimiting, so concatenating atoms never re-synchronises           *)
ViewsAgree == t = <<>> => LET v == View(s) IN
  /\ Decode(v.bs) = v.cs
  /\ Flat(v.gs) = v.bs
  /\ \A i \in 1..Len(v.gs) : v.gs[i] # <<>>
  /\ Len(v.gs) <= Len(v.cs) /\ Len(v.cs) <= Len(v.bs)

(* *_at: defined exactly for -n <= i < n; i and i - n address the same     *)
(* element; non-negative i addresses element i + 1 of the view             *)
AtLaws == t = <<>> => LET v == View(s) n == Len(v.cs) m == Len(v.bs) g == Len(v.gs) IN
  \A i \in Idx :
  /\ CharAtV(v, i).ok = (i >= -n /\ i < n)
  /\ ByteAtV(v, i).ok = (i >= -m /\ i < m)
  /\ GraphemeAtV(v, i).ok = (i >= -g /\ i < g)
  /\ (i >= 0 /\ i < n /\ i - n \in Idx) => CharAtV(v, i) = CharAtV(v, i - n)
  /\ (i >= 0 /\ i < m /\ i - m \in Idx) => ByteAtV(v, i) = ByteAtV(v, i - m)
  /\ (i >= 0 /\ i < g /\ i - g \in Idx) => GraphemeAtV(v, i) = GraphemeAtV(v, i - g)
  /\ (i >= 0 /\ i < m) => ByteAtV(v, i).v = v.bs[i + 1]
  /\ (i >= 0 /\ i < g) => GraphemeAtV(v, i).v = v.gs[i + 1]
  /\ (i >= 0 /\ i < n /\ Deviations = {}) => CharAtV(v, i).v = v.cs[i + 1].cp

(* rjust/ljust reach exactly the requested width in code points, never     *)
(* shorten, and keep the receiver as suffix/prefix.  (Violated on purpose  *)
(* by the deviation just_by_bytes: see JustByBytes.cfg.)                   *)
Max(a, b) == IF a >= b THEN a ELSE b
JustLaws == t = <<>> => LET v == View(s) IN
  \A w \in 0..MaxPad : \A pi \in 1..Len(PadChars) :
  LET p == PadChars[pi] r == RJustV(v, w, p) l == LJustV(v, w, p) IN
  /\ Len(Decode(r)) = Max(w, Len(v.cs)) /\ Len(Decode(l)) = Max(w, Len(v.cs))
  /\ IsSuffix(v.bs, r) /\ SubSeq(l, 1, Len(v.bs)) = v.bs

(* + - * and case mapping                                                  *)
AlgebraLaws ==
  /\ Len(Decode(Concat(s, t))) = CharCount(s) + CharCount(t)
  /\ Concat(s, t) = Bytes(s \o t)
  /\ Minus(s \o t, t) = Bytes(s)                       \* (s + t) - t = s
  /\ (Minus(s, t) # Bytes(s)) <=> (t # <<>> /\ Len(t) <= Len(s)
                                    /\ SubSeq(s, Len(s) - Len(t) + 1, Len(s)) = t)
  /\ t = <<>> => /\ \A n \in 0..MaxRep : Len(Repeat(s, n)) = n * ByteCount(s)
                 /\ Len(UpperEls(s)) = CharCount(s) /\ Len(LowerEls(s)) = CharCount(s)
                 /\ \A i \in 1..CharCount(s) : Lower(Upper(Chars(s)[i].cp)) = Lower(Chars(s)[i].cp)

(* comparison: a total order on well-formed strings that coincides with    *)
(* bytewise order; equality iff same bytes; antisymmetric                  *)
WellFormed(x) == \A i \in 1..CharCount(x) : Chars(x)[i].cp # -1
CmpLaws ==
  /\ (Cmp(s, t) = 0) <=> (Bytes(s) = Bytes(t))
  /\ (Cmp(s, t) = 0) <=> (s = t)
  /\ Cmp(s, t) = 2 => ~(WellFormed(s) /\ WellFormed(t))
  /\ Cmp(s, t) # 2 => /\ Cmp(s, t) = CmpSeq(Bytes(s), Bytes(t))
                      /\ Cmp(t, s) = -Cmp(s, t)

(* the modelling assumption about ill-formed input, stated once            *)
ASSUME \A a \in 1..NAtoms : Decode(BytesOf(Atoms[a])) = Atoms[a]
ASSUME \A a \in 1..NAtoms : ~IsCont(BytesOf(Atoms[a])[1])    \* self-delimiting atoms
=============================================================================
