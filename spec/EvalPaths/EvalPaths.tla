----------------------------- MODULE EvalPaths -----------------------------
(***************************************************************************)
(* C08: the result of an operator expression does not depend on which      *)
(* evaluation path the compiler chose.                                     *)
(*                                                                         *)
(* This module is a transcription of the compiler's decision procedure:    *)
(*   - constant folding: compiler/resolve.go resolveBinaryExpression (both *)
(*     operands static and the value-level function answers without error),*)
(*   - opcode selection from the static type of the LEFT operand:          *)
(*     compiler/bytecode_compiler.go emitBinaryOperation (subtype tests in *)
(*     order: Int, Float, a Builtin* union, otherwise a method call),      *)
(* as the operator  Path(form, op, lk, folds).  A CASE is an operator, the *)
(* kinds of its operands and two operand values (cases.ndjson, enumerated  *)
(* by the harness); a FORM is one of the four ways the property statement  *)
(* lists to write the same operation:                                      *)
(*   lit    literal operands                    (constant folded)          *)
(*   typed  `var a: K`, `var b: K2`             (type-specialised opcode)  *)
(*   union  `var a: K | K'` (left operand)      (generic opcode, dynamic)  *)
(*   call   `a.+(b)`                            (method called by name)    *)
(*                                                                         *)
(* THE PROPERTY: all applicable forms of a case give the same outcome (the *)
(* printed value or the error class).  It is stated as the pointwise law   *)
(* Disagree below and checked by EvalPathsTrace.tla on the outcomes        *)
(* recorded from the real compiler + VM.  The behaviours of EvalPathsMC    *)
(* (case x form) are replayed: each form is compiled by the real compiler, *)
(* disassembled, and the emitted opcode must be the one Path predicts (a   *)
(* difference is model drift, not a violation).                            *)
(*                                                                         *)
(* Known defects of the implementation are NAMED deviations: a set of      *)
(* (path) on which the implementation is known to compute something else.  *)
(***************************************************************************)
EXTENDS Integers, Sequences, FiniteSets, TLC, Json

Cases == ndJsonDeserialize("cases.ndjson")   \* [id, op, lk, rk, folds] (+ literals, unused here)
NC    == Len(Cases)

Forms == <<"lit", "typed", "union", "call">>

\* ---- the Builtin* unions of types/global_environment.go (restricted to the kinds of the pool)
FixedInts   == {"Int64", "Int32", "Int16", "Int8", "UInt64", "UInt32", "UInt16", "UInt8"}
FixedFloats == {"Float64", "Float32"}
Numeric     == {"Int", "Float", "BigFloat"} \cup FixedInts \cup FixedFloats
Addable       == Numeric \cup {"String", "Char"}
Subtractable  == Numeric \cup {"String"}
Multipliable  == Numeric \cup {"String", "Char"}
BuiltinInt    == {"Int"} \cup FixedInts
LogicShiftable == FixedInts
Equatable     == Numeric \cup {"String", "Char"}
\* NOTE: UInt is in none of the unions.

\* opcode families: <<Int opcode, Float opcode, generic opcode, union that selects the generic one>>
Table == [
  add |-> <<"ADD_INT", "ADD_FLOAT", "ADD", Addable>>,
  sub |-> <<"SUBTRACT_INT", "SUBTRACT_FLOAT", "SUBTRACT", Subtractable>>,
  mul |-> <<"MULTIPLY_INT", "MULTIPLY_FLOAT", "MULTIPLY", Multipliable>>,
  div |-> <<"DIVIDE_INT", "DIVIDE_FLOAT", "DIVIDE", Multipliable>>,      \* sic: Multipliable
  pow |-> <<"EXPONENTIATE_INT", "", "EXPONENTIATE", Numeric>>,
  mod |-> <<"MODULO_INT", "MODULO_FLOAT", "MODULO", Numeric>>,
  shl |-> <<"LBITSHIFT_INT", "", "LBITSHIFT", BuiltinInt>>,
  shr |-> <<"RBITSHIFT_INT", "", "RBITSHIFT", BuiltinInt>>,
  and |-> <<"BITWISE_AND_INT", "", "BITWISE_AND", BuiltinInt>>,
  or  |-> <<"BITWISE_OR_INT", "", "BITWISE_OR", BuiltinInt>>,
  xor |-> <<"BITWISE_XOR_INT", "", "BITWISE_XOR", BuiltinInt>>,
  lax |-> <<"", "", "LAX_EQUAL", Equatable>>,
  eq  |-> <<"EQUAL_INT", "EQUAL_INT", "EQUAL", Equatable>>,               \* sic: Float -> EQUAL_INT
  ne  |-> <<"NOT_EQUAL_INT", "", "NOT_EQUAL", Equatable>>,                \* sic: the Float test repeats the Int test
  gt  |-> <<"GREATER_INT", "GREATER_FLOAT", "GREATER", Numeric>>,
  ge  |-> <<"GREATER_EQUAL_I", "GREATER_EQUAL_F", "GREATER_EQUAL", Numeric>>,
  lt  |-> <<"LESS_INT", "LESS_FLOAT", "LESS", Numeric>>,
  le  |-> <<"LESS_EQUAL_INT", "LESS_EQUAL_FLOAT", "LESS_EQUAL", Numeric>>,
  cmp |-> <<"", "", "COMPARE", {}>>]                                      \* COMPARE unconditionally
Ops == DOMAIN Table

\* emitBinaryOperation(static type of the left operand): the set of kinds the type is a union of
Emit(op, leftKinds) ==
  LET t == Table[op] IN
  IF op = "cmp" THEN "COMPARE"
  ELSE IF leftKinds = {"Int"} /\ t[1] # "" THEN t[1]
  ELSE IF leftKinds = {"Float"} /\ t[2] # "" THEN t[2]
  ELSE IF leftKinds \subseteq t[4] THEN t[3]
  ELSE "CALL"

\* the union type used by the `union` form for a left operand of kind lk ("" = form not applicable)
UnionOf(lk) == CASE lk \in {"Int", "Float"} -> {"Int", "Float"}
                 [] lk = "BigFloat"         -> {"Float", "BigFloat"}
                 [] OTHER                   -> {}
\* operators every member of the union defines with these right operands
UnionOps == {"add", "sub", "mul", "div", "gt", "ge", "lt", "le", "cmp", "eq", "ne", "lax"}

Applicable(form, c) ==
  CASE form = "union" -> UnionOf(c.lk) # {} /\ c.op \in UnionOps /\ c.rk \in {"Int", "Float", "BigFloat"}
    [] OTHER          -> TRUE

\* Path: which code computes the result
Path(form, c) ==
  CASE form = "lit"   -> IF c.folds = 1 THEN "FOLD" ELSE Emit(c.op, {c.lk})   \* resolve() answered / gave up
    [] form = "typed" -> Emit(c.op, {c.lk})
    [] form = "union" -> Emit(c.op, UnionOf(c.lk))
    [] form = "call"  -> "CALL"

AllPaths == ({"FOLD", "CALL"} \cup UNION {{Table[o][1], Table[o][2], Table[o][3]} : o \in Ops}) \ {""}

-----------------------------------------------------------------------------
(* Named deviations: paths on which the implementation is known to compute *)
(* something else than the other paths of the same operation.              *)
AllDeviations == {"FloatOpcodeReadsInt", "FloatEqualIsEqualInt", "FoldedNegZero", "LaxEqualMethodMissing"}
BrokenPaths(dv, c) ==
  CASE dv = "FloatOpcodeReadsInt" ->     \* vm/thread.go opSubtractFloat, opLessThanFloat, opLessThanEqualFloat: left.AsSmallInt()
         {"SUBTRACT_FLOAT", "LESS_FLOAT", "LESS_EQUAL_FLOAT"}
    [] dv = "FloatEqualIsEqualInt" ->    \* emitBinaryOperation emits EQUAL_INT for a Float: opEqualInt asserts *BigInt
         IF c.lk = "Float" THEN {"EQUAL_INT"} ELSE {}
    [] dv = "FoldedNegZero" ->           \* emitFloat(-0.0) emits FLOAT_0: a folded -0.0 result (or operand) is +0.0
         IF c.lk = "Float" \/ c.rk = "Float" THEN {"FOLD"} ELSE {}
    [] dv = "LaxEqualMethodMissing" ->   \* String and Char declare =~ but have no native method: only LAX_EQUAL answers
         IF c.op = "lax" /\ c.lk \in {"String", "Char"} THEN {"CALL", "FOLD"} ELSE {}

(* THE LAW.  out is a function form -> outcome string ("" = form not run). *)
Ran(out)      == {f \in DOMAIN out : out[f] # ""}
Disagree(out) == \E f, g \in Ran(out) : out[f] # out[g]
\* a disagreement is explained by dv if removing the forms that go through dv's broken paths
\* leaves the remaining forms in agreement (and removes at least one form)
Explains(dv, c, out) ==
  LET bad  == {f \in Ran(out) : Path(f, c) \in BrokenPaths(dv, c)}
      rest == Ran(out) \ bad
  IN bad # {} /\ rest # {} /\ \A f, g \in rest : out[f] = out[g]
=============================================================================
