SPECIFICATION Spec
INVARIANT PathKnown
INVARIANT FoldOnlyLiteral
INVARIANT UnionIsGeneric
INVARIANT CallIsCall
INVARIANT IntOpcodeForInt
CHECK_DEADLOCK FALSE
