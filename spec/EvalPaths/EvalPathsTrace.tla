--------------------------- MODULE EvalPathsTrace ---------------------------
(***************************************************************************)
(* Trace validation for C08: outcomes.ndjson has one row per case with the *)
(* outcome recorded from the real compiler + VM for every form that was    *)
(* run ("" = not run).  One step validates one row against the law         *)
(* Disagree of EvalPaths; a disagreement is reported with the set of named *)
(* deviations that explain it (empty = unexplained).                       *)
(***************************************************************************)
EXTENDS EvalPaths

Rows == ndJsonDeserialize("outcomes.ndjson")
ASSUME \A k \in 1..Len(Rows) : Rows[k].id \in 1..NC /\ Cases[Rows[k].id].id = Rows[k].id

VARIABLES k, done
tvars == <<k, done>>

TInit == k = 0 /\ done = 0

Choose == /\ k = 0
          /\ k' \in 1..Len(Rows)
          /\ done' = 0

Validate == /\ k > 0 /\ done = 0
            /\ done' = 1
            /\ UNCHANGED k
            /\ LET c   == Cases[Rows[k].id]
                   out == Rows[k].out
               IN PrintT(<<"GEN", ToJson([id |-> c.id, disagree |-> Disagree(out),
                      dev |-> IF Disagree(out) THEN {dv \in AllDeviations : Explains(dv, c, out)} ELSE {}])>>)

TNext == Choose \/ Validate
TSpec == TInit /\ [][TNext]_tvars
=============================================================================
