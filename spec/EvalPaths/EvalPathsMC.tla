---------------------------- MODULE EvalPathsMC ----------------------------
(***************************************************************************)
(* Behaviours of EvalPaths: choose a case, then a form.  Every (case,form) *)
(* transition emits the predicted path as a GEN record; the harness        *)
(* compiles that form with the real compiler and compares the emitted      *)
(* opcode with the prediction, then runs it.                               *)
(***************************************************************************)
EXTENDS EvalPaths

VARIABLES ci, fi
vars == <<ci, fi>>

Init == ci \in 1..NC /\ fi = 0

PickForm == /\ fi = 0
            /\ fi' \in {i \in 1..Len(Forms) : Applicable(Forms[i], Cases[ci])}
            /\ UNCHANGED ci
            /\ PrintT(<<"GEN", ToJson([id |-> Cases[ci].id, form |-> Forms[fi'],
                                       path |-> Path(Forms[fi'], Cases[ci])])>>)

Next == PickForm
Spec == Init /\ [][Next]_vars

CurPath == Path(Forms[fi], Cases[ci])
\* sanity of the transcription
PathKnown       == fi # 0 => CurPath \in AllPaths
FoldOnlyLiteral == fi # 0 /\ CurPath = "FOLD" => Forms[fi] = "lit"
UnionIsGeneric  == fi # 0 /\ Forms[fi] = "union" => CurPath = Table[Cases[ci].op][3]
CallIsCall      == fi # 0 /\ Forms[fi] = "call" => CurPath = "CALL"
\* the specialised opcodes are only chosen for their own kind
IntOpcodeForInt == fi # 0 /\ CurPath = Table[Cases[ci].op][1] /\ Cases[ci].op # "eq"
                     => Cases[ci].lk = "Int"
=============================================================================
