------------------------- MODULE MC_TestRunnerFamily -------------------------
(* The bounded family TLC enumerates: every well-formed suite tree of the   *)
(* first file (up to MaxTokens tokens, MaxCases cases, nesting MaxDepth),   *)
(* alone or together with one of the small second files, times every filter *)
(* sequence of at most two filters the command line can register: --grep,   *)
(* --path, --grep + --path (the grep is registered first, main.go runTest), *)
(* two different --path in either order; every file pattern, every line     *)
(* from 1 to one past the end of the first file.                            *)
(* Case outcomes are "any": chosen when the case runs.                      *)
EXTENDS TestRunner, SequencesExt
CONSTANTS MaxTokens, MaxCases, MaxDepth, MaxPaths, MaxTokens2, GrepPairs

Toks == {"D", "E", "C"}
WellFormed(s) ==
  LET d[i \in 0..Len(s)] == IF i = 0 THEN 0
                            ELSE d[i - 1] + (CASE s[i] = "D" -> 1 [] s[i] = "E" -> -1 [] OTHER -> 0)
  IN /\ \A i \in 0..Len(s) : d[i] >= 0 /\ d[i] <= MaxDepth
     /\ d[Len(s)] = 0
     /\ Cardinality({i \in 1..Len(s) : s[i] = "C"}) \in 1..MaxCases
TreesA == UNION {{s \in [1..n -> Toks] : WellFormed(s)} : n \in 1..MaxTokens}
TreesB == {<<"C">>, <<"D", "C", "E">>}
FileSets == {<<a>> : a \in TreesA} \cup {<<a, b>> : a \in {t \in TreesA : Len(t) <= MaxTokens2}, b \in TreesB}

Names(fs) == UNION {{TName(f, fs[f], i) : i \in {j \in 1..Len(fs[f]) : fs[f][j] # "E"}} : f \in 1..Len(fs)}
Grep(ws) == [kind |-> "grep", words |-> ws, file |-> "", line |-> 0]
Greps(fs) == {Grep(<<w>>) : w \in Names(fs) \cup {"zzz"}}
               \cup (IF GrepPairs THEN {Grep(<<v, w>>) : v \in Names(fs), w \in Names(fs) \cap {"cb1", "ca1", "ca2"}} ELSE {})
FilePats(fs) == IF Len(fs) = 1 THEN {"a"} ELSE {"a", "b", "*"}
Paths(fs) == {[kind |-> "path", words |-> <<>>, file |-> fp, line |-> n]
                : fp \in FilePats(fs), n \in 0..(TLines(fs[1]) + 1)}  \* 0 = no line; one past the end of the first file
FilterSeqs(fs) == {<<>>} \cup {<<g>> : g \in Greps(fs)} \cup {<<p>> : p \in Paths(fs)}
                  \cup {<<g, p>> : g \in Greps(fs), p \in Paths(fs)}
                  \cup (IF MaxPaths >= 2 THEN {pq \in Paths(fs) \X Paths(fs) : pq[1] # pq[2]} ELSE {})

MCInstances ==
  SetToSeq(UNION {LET T == Table(fs)
                      any == [f \in 1..Len(fs) |-> [i \in 1..Len(fs[f]) |-> IF fs[f][i] = "C" THEN "any" ELSE ""]]
                  IN {[id |-> 0, files |-> fs, filters |-> flt, outcomes |-> any, tab |-> T] : flt \in FilterSeqs(fs)}
                  : fs \in FileSets})
=============================================================================
