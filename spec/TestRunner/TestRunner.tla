----------------------------- MODULE TestRunner -----------------------------
(***************************************************************************)
(* `elk test`: which cases run, how often, and the exit status (C34).      *)
(*                                                                         *)
(* Two layers.                                                             *)
(*  REFERENCE  Sat / Selected / MustFail: what the property statement      *)
(*     says.  A case is selected iff it satisfies EVERY given filter.      *)
(*  RUNNER     the steps of the real runner, one action per step:          *)
(*     registration = the test files execute top to bottom and every       *)
(*       `describe` / `test` native consults the filters                   *)
(*       (ext/std/test/test.go, filter.go SuiteMatchesFilters /            *)
(*       CaseMatchesFilters);                                              *)
(*     run = every registered case is executed (suite.go Run, case.go Run) *)
(*       and its status folded into the report;                            *)
(*     finish = cmd/elk/main.go runTestFile turns the report into the exit *)
(*       status.                                                           *)
(* The invariants say that the RUNNER implements the REFERENCE.  Two NAMED *)
(* deviations reproduce what the pinned implementation does instead; with  *)
(* Deviations = {} the runner below is the intended algorithm and TLC      *)
(* proves it equal to the reference on the whole bounded family.           *)
(*                                                                         *)
(* An instance is data (so that TLC can both enumerate a family of them    *)
(* and read the sampled ones back from instances.ndjson):                  *)
(*   files    : sequence (one per test file) of token sequences over       *)
(*              "D" (describe NAME, ->   one line, opens a suite)          *)
(*              "E" (end                 one line, closes it)              *)
(*              "C" (test NAME, -> / body / end    three lines, a case)    *)
(*              line 1 of every file is the import header                  *)
(*   filters  : sequence of [kind, words, file, line] in the order the CLI *)
(*              registers them; kind "grep": the regex is an alternation   *)
(*              of element names (words); kind "path": file is a file      *)
(*              letter or "*" (every file), line = 0 means `no line`       *)
(*   outcomes : per file, per token: "pass" | "fail" | "error" | "any"     *)
(*              ("any": chosen when the case runs), "" for D / E tokens    *)
(***************************************************************************)
EXTENDS Integers, Sequences, FiniteSets, TLC, Json

CONSTANTS Instances,   \* sequence of instances (supplied by the MC modules: the enumerated family, or
                       \* the sampled instances read back from instances.ndjson); each instance also
                       \* carries tab = Table(files), its line table (derived data, computed once per tree)
          DeviationSets, \* the sets of NAMED deviations to run the runner with; {{}} = the intended
                       \* runner only.  A deviation is a guarded branch below that reproduces what the
                       \* pinned implementation does instead of what the statement says.
          Emit         \* "registered": print one GEN record per (tree, filters) when registration ends
                       \* "done": print one per finished run;  "none"

KnownDeviations == {"suite_line_only_when_sole_filter", "zero_cases_exit_failure"}
ASSUME \A d \in DeviationSets : d \subseteq KnownDeviations

VARIABLES ii,      \* index of the instance (constant during a behaviour)
          dv,      \* the deviations this behaviour runs with (constant during a behaviour)
          pc,      \* "register" | "run" | "done"
          pos,     \* <<file, token>> the registration cursor
          stack,   \* open suites, innermost first: [tok, full]  full = filter indices the suite fully matches
          reg,     \* cases registered so far, in registration order (a SEQUENCE: a duplicate would run twice)
          todo,    \* registered cases not yet executed
          runs,    \* case -> how many times its body ran
          outc,    \* case -> "none" | "pass" | "fail" | "error"
          exit     \* -1 while running, else the process exit status
vars == <<ii, dv, pc, pos, stack, reg, todo, runs, outc, exit>>

Deviations == dv

-----------------------------------------------------------------------------
(* The suite tree and its source lines, derived from the tokens of a file.  *)
FileLetter == <<"a", "b", "c">>
Height(t) == IF t = "C" THEN 3 ELSE 1

RECURSIVE TFirstLine(_, _)       \* first source line of token i (line 1 is the header)
TFirstLine(t, i) == IF i = 1 THEN 2 ELSE TFirstLine(t, i - 1) + Height(t[i - 1])
TLines(t) == IF t = <<>> THEN 1 ELSE TFirstLine(t, Len(t)) + Height(t[Len(t)]) - 1

RECURSIVE TDepth(_, _)           \* nesting depth before token i
TDepth(t, i) == IF i = 1 THEN 0
                ELSE TDepth(t, i - 1) + (CASE t[i - 1] = "D" -> 1 [] t[i - 1] = "E" -> -1 [] OTHER -> 0)

\* the "E" closing the suite opened at token i
TMatchEnd(t, i) == CHOOSE j \in (i + 1)..Len(t) :
                     /\ t[j] = "E" /\ TDepth(t, j) = TDepth(t, i) + 1
                     /\ \A k \in (i + 1)..(j - 1) : ~(t[k] = "E" /\ TDepth(t, k) = TDepth(t, i) + 1)
TName(f, t, i) == (IF t[i] = "C" THEN "c" ELSE "s") \o FileLetter[f] \o ToString(i)

\* Everything static about the files of an instance: per token its first/last source line, the
\* token that ends it, the enclosing suites and its name.
Table(files) ==
  [f \in 1..Len(files) |->
     LET t == files[f] IN
     [i \in 1..Len(t) |->
        [first |-> TFirstLine(t, i),
         last  |-> IF t[i] = "C" THEN TFirstLine(t, i) + 2
                   ELSE IF t[i] = "D" THEN TFirstLine(t, TMatchEnd(t, i)) ELSE TFirstLine(t, i),
         end   |-> IF t[i] = "D" THEN TMatchEnd(t, i) ELSE i,
         anc   |-> {j \in 1..(i - 1) : t[j] = "D" /\ TMatchEnd(t, j) > i},     \* suites enclosing token i
         name  |-> TName(f, t, i)]]]
CasesOf(I) == {c \in UNION {{<<f, i>> : i \in 1..Len(I.files[f])} : f \in 1..Len(I.files)} : I.files[c[1]][c[2]] = "C"}

Words(flt) == {flt.words[k] : k \in 1..Len(flt.words)}
FileMatches(flt, f) == flt.file = "*" \/ flt.file = FileLetter[f]

-----------------------------------------------------------------------------
(* REFERENCE: the property statement.                                      *)
(* A case satisfies `--grep re` iff its full name (suite names > case      *)
(* name) matches; `--path glob` iff its file matches; `--path glob:n` iff  *)
(* moreover line n lies inside the case or is the line on which one of its *)
(* enclosing suites starts (naming a suite by its line selects its cases:  *)
(* that is what `--path file:line` alone does).  T is the instance's table.*)
SatGrep(T, f, i, flt) == \E w \in Words(flt) : w = T[f][i].name \/ \E j \in T[f][i].anc : w = T[f][j].name
SatPath(T, f, i, flt) == /\ FileMatches(flt, f)
                         /\ \/ flt.line = 0
                            \/ flt.line >= T[f][i].first /\ flt.line <= T[f][i].last
                            \/ \E j \in T[f][i].anc : T[f][j].first = flt.line
Sat(T, c, flt) == IF flt.kind = "grep" THEN SatGrep(T, c[1], c[2], flt) ELSE SatPath(T, c[1], c[2], flt)
SelectedOf(I) == {c \in CasesOf(I) : \A k \in 1..Len(I.filters) : Sat(I.tab, c, I.filters[k])}
\* Evaluated once (constant level; the LET keeps TLC from re-evaluating the overridden constant):
\* every instance with its cases and its REFERENCE selection.
Ref == LET S == Instances IN [k \in 1..Len(S) |-> [inst |-> S[k], cases |-> CasesOf(S[k]), sel |-> SelectedOf(S[k])]]
NInstances == Len(Ref)

\* the current instance
ref == Ref[ii]
inst == ref.inst
NFiles == Len(inst.files)
Tok(f) == inst.files[f]
Tab == inst.tab
FirstLine(f, i) == Tab[f][i].first
LastLine(f, i) == Tab[f][i].last
MatchEnd(f, i) == Tab[f][i].end
CName(c) == Tab[c[1]][c[2]].name
Cases == ref.cases
Selected == ref.sel
Filters == inst.filters
FIdx == 1..Len(Filters)
Failing(c) == outc[c] \in {"fail", "error"}

-----------------------------------------------------------------------------
(* RUNNER, registration.  filter.go: what one filter answers for a suite / *)
(* a case.                                                                 *)
SuiteMatch(flt, f, i) ==
  IF flt.kind = "grep" THEN "true"                       \* RegexFilter.SuiteMatches
  ELSE IF ~FileMatches(flt, f) THEN "false"              \* PathFilter.SuiteMatches
  ELSE IF flt.line = 0 THEN "true"
  ELSE IF flt.line = FirstLine(f, i) THEN "full"
  ELSE IF flt.line >= FirstLine(f, i) /\ flt.line <= LastLine(f, i) THEN "true"
  ELSE "false"
CaseMatch(flt, f, i) ==
  IF flt.kind = "grep" THEN SatGrep(Tab, f, i, flt)      \* RegexFilter.CaseMatches on the full name
  ELSE FileMatches(flt, f) /\ (flt.line = 0 \/ (flt.line >= FirstLine(f, i) /\ flt.line <= LastLine(f, i)))

ParentFull == IF stack = <<>> THEN {} ELSE Head(stack).full
AtEndOfFile == pos[2] > Len(Tok(pos[1]))
CurTok == Tok(pos[1])[pos[2]]
Advance(n) == pos' = <<pos[1], pos[2] + n>>

(* `describe`: SuiteMatchesFilters.  A filter the enclosing suite already  *)
(* matched fully is not asked again.                                       *)
Describe ==
  /\ pc = "register" /\ ~AtEndOfFile /\ CurTok = "D"
  /\ LET f == pos[1] i == pos[2]
         asked == FIdx \ ParentFull
         ans(k) == SuiteMatch(Filters[k], f, i)
         dropped == \E k \in asked : ans(k) = "false"
         fullNow == {k \in asked : ans(k) = "full"}
         newFull ==
           IF "suite_line_only_when_sole_filter" \in Deviations
           THEN \* DEVIATION (filter.go:20-44, suite.go FullMatch is ONE flag): the suite is a full
                \* match only if EVERY filter answers "full"; one other filter (any --grep, any
                \* other --path) makes it a partial match and the line is then tested against
                \* every case and nested suite again
                IF asked = {} \/ (FIdx # {} /\ fullNow = FIdx) THEN FIdx ELSE {}
           ELSE ParentFull \cup fullNow
     IN IF dropped
        THEN Advance(MatchEnd(f, i) - i + 1) /\ UNCHANGED stack     \* the closure is not called
        ELSE Advance(1) /\ stack' = <<[tok |-> i, full |-> newFull]>> \o stack
  /\ UNCHANGED <<ii, dv, pc, reg, todo, runs, outc, exit>>

EndDescribe ==
  /\ pc = "register" /\ ~AtEndOfFile /\ CurTok = "E"
  /\ stack' = Tail(stack) /\ Advance(1)
  /\ UNCHANGED <<ii, dv, pc, reg, todo, runs, outc, exit>>

(* `test`: CaseMatchesFilters.                                             *)
TestCase ==
  /\ pc = "register" /\ ~AtEndOfFile /\ CurTok = "C"
  /\ LET f == pos[1] i == pos[2]
         keep == \A k \in FIdx \ ParentFull : CaseMatch(Filters[k], f, i)
     IN reg' = IF keep THEN Append(reg, <<f, i>>) ELSE reg
  /\ Advance(1)
  /\ UNCHANGED <<ii, dv, pc, stack, todo, runs, outc, exit>>

GenRegistered ==
  Emit = "registered" =>
    PrintT(<<"GEN", ToJson([files |-> inst.files, filters |-> inst.filters,
                            sel |-> {CName(c) : c \in Selected},
                            reg |-> [k \in 1..Len(reg) |-> CName(reg[k])]])>>)

NextFile ==
  /\ pc = "register" /\ AtEndOfFile
  /\ IF pos[1] < NFiles
     THEN pos' = <<pos[1] + 1, 1>> /\ UNCHANGED <<pc, todo>>
     ELSE pc' = "run" /\ todo' = reg /\ UNCHANGED pos /\ GenRegistered
  /\ UNCHANGED <<ii, dv, stack, reg, runs, outc, exit>>

-----------------------------------------------------------------------------
(* RUNNER, execution: Suite.Run runs every registered case (the cases of a *)
(* suite in a shuffled order, which no observation depends on).            *)
Without(s, k) == SubSeq(s, 1, k - 1) \o SubSeq(s, k + 1, Len(s))
Planned(c) == inst.outcomes[c[1]][c[2]]
RunCase ==
  /\ pc = "run" /\ todo # <<>>
  /\ \E k \in 1..Len(todo) :
       LET c == todo[k] IN
       /\ todo' = Without(todo, k)
       /\ runs' = [runs EXCEPT ![c] = @ + 1]
       /\ \E o \in (IF Planned(c) = "any" THEN {"pass", "fail", "error"} ELSE {Planned(c)}) :
            outc' = [outc EXCEPT ![c] = o]
  /\ UNCHANGED <<ii, dv, pc, pos, stack, reg, exit>>

(* The status of the root report (suite_report.go UpdateStatus), and       *)
(* runTestFile's exit status.                                              *)
RootStatus == IF reg = <<>> THEN "skipped"             \* Suite.Run: CaseCount() = 0
              ELSE IF \E c \in Cases : outc[c] = "error" THEN "error"
              ELSE IF \E c \in Cases : outc[c] = "fail" THEN "failed"
              ELSE "success"
ExitStatus ==
  IF "zero_cases_exit_failure" \in Deviations
  THEN \* DEVIATION (main.go:158-161): anything but TEST_SUCCESS exits 1, also the root suite
       \* that was skipped because no case was selected
       IF RootStatus # "success" THEN 1 ELSE 0
  ELSE IF RootStatus \in {"failed", "error"} THEN 1 ELSE 0

GenDone ==
  Emit = "done" =>
    PrintT(<<"GEN", ToJson([id |-> inst.id, dev |-> dv,
                            ran |-> {CName(c) : c \in {d \in Cases : runs[d] > 0}},
                            twice |-> {CName(c) : c \in {d \in Cases : runs[d] > 1}},
                            failed |-> {CName(c) : c \in {d \in Cases : outc[d] = "fail"}},
                            errors |-> {CName(c) : c \in {d \in Cases : outc[d] = "error"}},
                            sel |-> {CName(c) : c \in Selected},
                            exit |-> ExitStatus])>>)

Finish ==
  /\ pc = "run" /\ todo = <<>>
  /\ pc' = "done" /\ exit' = ExitStatus
  /\ UNCHANGED <<ii, dv, pos, stack, reg, todo, runs, outc>>
  /\ GenDone

\* the process has exited
Exited == pc = "done" /\ UNCHANGED vars

Next == Describe \/ EndDescribe \/ TestCase \/ NextFile \/ RunCase \/ Finish \/ Exited

Init ==
  /\ ii \in 1..NInstances /\ dv \in DeviationSets
  /\ pc = "register" /\ pos = <<1, 1>> /\ stack = <<>> /\ reg = <<>> /\ todo = <<>>
  /\ runs = [c \in Ref[ii].cases |-> 0]
  /\ outc = [c \in Ref[ii].cases |-> "none"]
  /\ exit = -1

-----------------------------------------------------------------------------
(* The property.                                                           *)
RegSet == {reg[k] : k \in 1..Len(reg)}

\* no case is ever registered, queued or run that does not satisfy every filter
RunsNoOtherCase == /\ RegSet \subseteq Selected
                   /\ \A c \in Cases : runs[c] > 0 => c \in Selected
\* never more than once, not even transiently
NeverTwice == \A c \in Cases : runs[c] <= 1
\* registration is complete: every selected case is registered (exactly once)
RegistersSelected == pc # "register" =>
                       /\ RegSet = Selected
                       /\ Len(reg) = Cardinality(Selected)
\* at the end every selected case has run exactly once and nothing else has
RunsExactlySelectedOnce == pc = "done" => \A c \in Cases : runs[c] = IF c \in Selected THEN 1 ELSE 0
\* the exit status is failure exactly when some case that ran failed or errored
ExitIffFailure == pc = "done" => ((exit = 1) <=> \E c \in Cases : runs[c] > 0 /\ Failing(c))
TypeOK == /\ pc \in {"register", "run", "done"} /\ exit \in {-1, 0, 1}
          /\ \A c \in Cases : outc[c] # "none" <=> runs[c] > 0

\* everything at once, for the intended runner only (replay runs that also predict the deviations)
Reference == dv = {} => /\ RunsNoOtherCase /\ RegistersSelected /\ RunsExactlySelectedOnce /\ ExitIffFailure

\* With CHECK_DEADLOCK TRUE a state other than "done" without a successor (a cursor walk that gets
\* stuck) is reported.
=============================================================================
