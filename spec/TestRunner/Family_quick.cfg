CONSTANTS
  Instances <- MCInstances
  DeviationSets = {{}}
  Emit = "registered"
  MaxTokens = 5
  MaxCases = 3
  MaxDepth = 2
  MaxPaths = 2
  MaxTokens2 = 3
  GrepPairs = FALSE
INIT Init
NEXT Next
INVARIANTS TypeOK RunsNoOtherCase NeverTwice RegistersSelected RunsExactlySelectedOnce ExitIffFailure
CHECK_DEADLOCK TRUE
