CONSTANTS
  Instances <- MCInstances
  DeviationSets = {{"suite_line_only_when_sole_filter", "zero_cases_exit_failure"}}
  Emit = "none"
  MaxTokens = 4
  MaxCases = 2
  MaxDepth = 2
  MaxPaths = 1
  MaxTokens2 = 0
  GrepPairs = FALSE
INIT Init
NEXT Next
INVARIANTS TypeOK RunsNoOtherCase NeverTwice RegistersSelected RunsExactlySelectedOnce ExitIffFailure
CHECK_DEADLOCK TRUE
