CONSTANTS
  Instances <- MCInstances
  DeviationSets = {{}, {"suite_line_only_when_sole_filter"}, {"zero_cases_exit_failure"}, {"suite_line_only_when_sole_filter", "zero_cases_exit_failure"}}
  Emit = "done"
INIT Init
NEXT Next
INVARIANTS TypeOK NeverTwice Reference
CHECK_DEADLOCK TRUE
