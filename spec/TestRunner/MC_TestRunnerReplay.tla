------------------------- MODULE MC_TestRunnerReplay -------------------------
(* The sampled instances (with planned outcomes) that are replayed on the   *)
(* real `elk test` binary; TLC supplies the predicted observation of each.  *)
EXTENDS TestRunner
Raw == ndJsonDeserialize("instances.ndjson")
MCInstances == [k \in 1..Len(Raw) |->
                  [id |-> Raw[k].id, files |-> Raw[k].files, filters |-> Raw[k].filters,
                   outcomes |-> Raw[k].outcomes, tab |-> Table(Raw[k].files)]]
=============================================================================
