------------------------------ MODULE IntArith ------------------------------
(***************************************************************************)
(* Reference semantics of Elk's arbitrary-precision Int (property C06) and *)
(* a model of the implementation's two representations.                    *)
(*                                                                         *)
(* An Int is a mathematical integer.  The implementation stores it either  *)
(* as a machine word ("small", MinSmall..MaxSmall) or as a math/big value  *)
(* ("big"); the representation must be a function of the value (Repr) and  *)
(* invisible.  R_<op> is the exact result the property demands; I_<op> is  *)
(* what the implementation computes: it follows the code's case split      *)
(* (small/small fast path, overflow fallback, big path, normalisation) and *)
(* is equal to R_<op> unless a NAMED deviation is switched on.  Each       *)
(* deviation transcribes one genuine defect found in /repo (see            *)
(* known/C06.jsonl); with Deviations = {} the model is the reference.      *)
(*                                                                         *)
(* The module is written for TLC and for Apalache: \div and % are applied  *)
(* to non-negative operands only (the tools' constant folders disagree on  *)
(* negative ones), iteration is by Apalache!Repeat with a constant count.  *)
(***************************************************************************)
EXTENDS Integers, Apalache

CONSTANTS
  \* @type: Int;
  WordBits,      \* width of the machine word (64 in the real code)
  \* @type: Int;
  K,             \* bit positions used by the bitwise operators; operands satisfy |x| < 2^(K-1)
  \* @type: Int;
  MaxShift       \* largest left-shift distance the instance represents

MinSmall == -(2^(WordBits - 1))     \* least value held in a machine word
MaxSmall == 2^(WordBits - 1) - 1    \* greatest value held in a machine word
MaxSmallBits == WordBits - 1

AllDeviations == {
  "euclid_div_on_big_path",       \* / uses big.Int.Div (Euclidean) whenever the fast path is left
  "big_shift_clobbers_operand",   \* << and >> of a big left operand shift the operand object in place
  "big_shl_negative_count_zero",  \* big << negative count gives 0 instead of shifting right
  "big_count_shift_zero",         \* a shift count that is not a machine word gives 0 (wrong for negative >> )
  "small_shl_count_over_63_panics", \* small << count > 63 dies with a Go "negative shift amount" panic
  "negate_big_not_normalised",    \* -(MaxSmall+1) stays a big value: hash differs from the small MinSmall
  "min_small_mod_big",            \* MinSmall % (MaxSmall+1) returns the dividend
  "big_andnot_ints_is_and"        \* value.BitwiseAndNotInts (Go-backend entry point) computes & for a big left operand
}

-----------------------------------------------------------------------------
(* Exact integer functions                                                  *)
Abs(x) == IF x < 0 THEN -x ELSE x
Sgn(x) == IF x < 0 THEN -1 ELSE IF x > 0 THEN 1 ELSE 0
B2I(p) == IF p THEN 1 ELSE 0

\* truncated division: quotient rounded toward zero, remainder with the sign of the dividend
TQuot(a, b) == Sgn(a) * Sgn(b) * (Abs(a) \div Abs(b))
TRem(a, b) == a - b * TQuot(a, b)
\* Euclidean division as computed by Go's big.Int.Div (remainder always >= 0)
EQuot(a, b) == IF TRem(a, b) >= 0 THEN TQuot(a, b) ELSE TQuot(a, b) - Sgn(b)
\* floor division by a positive divisor
FloorDiv(a, d) == IF a >= 0 THEN a \div d ELSE -((-a + d - 1) \div d)

\* @type: (Int, Int) => Int;
Pow(a, n) == LET \* @type: (Int, Int) => Int;
                 Mul(acc, i) == acc * a
             IN Repeat(Mul, n, 1)

\* shifts: a * 2^k, floor(a / 2^k); a count beyond every operand's length gives 0 / -1
Clamp(k) == IF k < 0 THEN 0 ELSE IF k > MaxShift THEN 0 ELSE k
ShiftLeft(a, k) == a * 2^Clamp(k)                             \* 0 <= k <= MaxShift
ShiftRight(a, k) == IF k > MaxShift THEN (IF a < 0 THEN -1 ELSE 0) ELSE FloorDiv(a, 2^Clamp(k))
Shl(a, k) == IF k >= 0 THEN ShiftLeft(a, k) ELSE ShiftRight(a, -k)
Shr(a, k) == IF k >= 0 THEN ShiftRight(a, k) ELSE ShiftLeft(a, -k)
\* the left shifts the model can represent (the implementation would need 2^k bits otherwise)
ShlDefined(k) == k <= MaxShift
ShrDefined(k) == -k <= MaxShift

\* bitwise operators on the infinite two's-complement expansion, computed on the K-bit window
TwoK == 2^K
ToWindow(x) == IF x < 0 THEN x + TwoK ELSE x
FromWindow(u) == IF 2 * u >= TwoK THEN u - TwoK ELSE u
\* @type: ((Int, Int) => Int, Int, Int) => Int;
BitOp(F(_, _), a, b) ==
  LET \* @type: ({s: Int, p: Int, x: Int, y: Int}, Int) => {s: Int, p: Int, x: Int, y: Int};
      Step(acc, i) == [s |-> acc.s + acc.p * F(acc.x % 2, acc.y % 2), p |-> acc.p * 2,
                       x |-> acc.x \div 2, y |-> acc.y \div 2]
      R == Repeat(Step, K, [s |-> 0, p |-> 1, x |-> ToWindow(a), y |-> ToWindow(b)])
  IN FromWindow(R.s)
AndBit(u, v) == u * v
OrBit(u, v) == u + v - u * v
XorBit(u, v) == (u + v) % 2
AndNotBit(u, v) == u * (1 - v)

-----------------------------------------------------------------------------
(* R_<op>: the exact result (comparisons as 0/1, <=> as -1/0/1)              *)
R_add(a, b) == a + b
R_sub(a, b) == a - b
R_mul(a, b) == a * b
R_div(a, b) == TQuot(a, b)          \* b # 0
R_mod(a, b) == TRem(a, b)           \* b # 0
R_pow(a, b) == Pow(a, b)            \* b >= 0
R_shl(a, b) == Shl(a, b)
R_shr(a, b) == Shr(a, b)
R_and(a, b) == BitOp(AndBit, a, b)
R_or(a, b) == BitOp(OrBit, a, b)
R_xor(a, b) == BitOp(XorBit, a, b)
R_andnot(a, b) == BitOp(AndNotBit, a, b)
R_cmp(a, b) == Sgn(a - b)
R_eq(a, b) == B2I(a = b)
R_ne(a, b) == B2I(a # b)
R_lt(a, b) == B2I(a < b)
R_le(a, b) == B2I(a <= b)
R_gt(a, b) == B2I(a > b)
R_ge(a, b) == B2I(a >= b)
R_neg(a, b) == -a
R_not(a, b) == -a - 1

BinaryOps == {"add", "sub", "mul", "div", "mod", "pow", "shl", "shr", "and", "or", "xor", "andnot",
              "cmp", "eq", "ne", "lt", "le", "gt", "ge"}
UnaryOps == {"neg", "not"}
Ops == BinaryOps \cup UnaryOps

\* the domain of the property statement
Defined(op, a, b) ==
  CASE op \in {"div", "mod"} -> b # 0
    [] op = "pow" -> b >= 0
    [] op = "shl" -> ShlDefined(b)
    [] op = "shr" -> ShrDefined(b)
    [] OTHER -> TRUE

Ref(op, a, b) ==
  CASE op = "add" -> R_add(a, b) [] op = "sub" -> R_sub(a, b) [] op = "mul" -> R_mul(a, b)
    [] op = "div" -> R_div(a, b) [] op = "mod" -> R_mod(a, b) [] op = "pow" -> R_pow(a, b)
    [] op = "shl" -> R_shl(a, b) [] op = "shr" -> R_shr(a, b)
    [] op = "and" -> R_and(a, b) [] op = "or" -> R_or(a, b) [] op = "xor" -> R_xor(a, b)
    [] op = "andnot" -> R_andnot(a, b)
    [] op = "cmp" -> R_cmp(a, b) [] op = "eq" -> R_eq(a, b) [] op = "ne" -> R_ne(a, b)
    [] op = "lt" -> R_lt(a, b) [] op = "le" -> R_le(a, b) [] op = "gt" -> R_gt(a, b)
    [] op = "ge" -> R_ge(a, b)
    [] op = "neg" -> R_neg(a, b) [] op = "not" -> R_not(a, b)

-----------------------------------------------------------------------------
(* Representation                                                           *)
Small(v) == MinSmall <= v /\ v <= MaxSmall
Repr(v) == IF Small(v) THEN "small" ELSE "big"

(* Outcome of one operation on the implementation:                          *)
(*   k     "val" | "panic"   (the Go runtime panicked inside the operator)  *)
(*   v     the integer (0/1 for a boolean) returned                         *)
(*   a2    the value of the LEFT OPERAND after the operation                *)
(*   canon TRUE iff the result's representation is Repr(v)                  *)
\* @type: (Int, Int) => {k: Str, v: Int, a2: Int, canon: Bool};
Val(v, a) == [k |-> "val", v |-> v, a2 |-> a, canon |-> TRUE]

\* @type: (Set(Str), Int, Int) => {k: Str, v: Int, a2: Int, canon: Bool};
I_div(D, a, b) ==
  LET fast == Small(a) /\ Small(b)
      \* DivideOverflow: the word quotient is accepted iff its sign is consistent with the operands' signs
      fastOk == fast /\ ~(a = MinSmall /\ b = -1) /\ ((TQuot(a, b) < 0) = ((a < 0) # (b < 0)))
  IN IF ~fastOk /\ "euclid_div_on_big_path" \in D
     THEN \* the fallback of the word/word case also returns the big.Int without normalising it
          [k |-> "val", v |-> EQuot(a, b), a2 |-> a, canon |-> ~(fast /\ Small(EQuot(a, b)))]
     ELSE Val(TQuot(a, b), a)

\* @type: (Set(Str), Int, Int) => {k: Str, v: Int, a2: Int, canon: Bool};
I_mod(D, a, b) ==
  IF Small(a) /\ ~Small(b) /\ "min_small_mod_big" \in D THEN Val(a, a)   \* "|a| < |b|, so a"
  ELSE Val(TRem(a, b), a)

\* @type: (Set(Str), Int, Int) => {k: Str, v: Int, a2: Int, canon: Bool};
I_shl(D, a, b) ==
  CASE ~Small(b) /\ "big_count_shift_zero" \in D -> Val(0, a)
    [] Small(a) /\ Small(b) /\ b > MaxSmallBits /\ "small_shl_count_over_63_panics" \in D ->
         [k |-> "panic", v |-> 0, a2 |-> a, canon |-> TRUE]
    [] ~Small(a) /\ Small(b) /\ b < 0 /\ "big_shl_negative_count_zero" \in D -> Val(0, a)
    [] ~Small(a) /\ Small(b) /\ b >= 0 /\ "big_shift_clobbers_operand" \in D -> Val(Shl(a, b), Shl(a, b))
    [] OTHER -> Val(Shl(a, b), a)

\* @type: (Set(Str), Int, Int) => {k: Str, v: Int, a2: Int, canon: Bool};
I_shr(D, a, b) ==
  CASE ~Small(b) /\ "big_count_shift_zero" \in D -> Val(0, a)
    [] Small(a) /\ Small(b) /\ -b > MaxSmallBits /\ "small_shl_count_over_63_panics" \in D ->
         [k |-> "panic", v |-> 0, a2 |-> a, canon |-> TRUE]
    [] ~Small(a) /\ Small(b) /\ "big_shift_clobbers_operand" \in D -> Val(Shr(a, b), Shr(a, b))
    [] OTHER -> Val(Shr(a, b), a)

\* @type: (Set(Str), Int, Int) => {k: Str, v: Int, a2: Int, canon: Bool};
I_neg(D, a, b) ==
  IF ~Small(a) /\ Small(-a) /\ "negate_big_not_normalised" \in D
  THEN [k |-> "val", v |-> -a, a2 |-> a, canon |-> FALSE]
  ELSE Val(-a, a)

(* the operators for which no deviation is known compute the exact result *)
\* @type: (Set(Str), Int, Int) => {k: Str, v: Int, a2: Int, canon: Bool};
I_add(D, a, b) == Val(R_add(a, b), a)
\* @type: (Set(Str), Int, Int) => {k: Str, v: Int, a2: Int, canon: Bool};
I_sub(D, a, b) == Val(R_sub(a, b), a)
\* @type: (Set(Str), Int, Int) => {k: Str, v: Int, a2: Int, canon: Bool};
I_mul(D, a, b) == Val(R_mul(a, b), a)
\* @type: (Set(Str), Int, Int) => {k: Str, v: Int, a2: Int, canon: Bool};
I_pow(D, a, b) == Val(R_pow(a, b), a)
\* @type: (Set(Str), Int, Int) => {k: Str, v: Int, a2: Int, canon: Bool};
I_and(D, a, b) == Val(R_and(a, b), a)
\* @type: (Set(Str), Int, Int) => {k: Str, v: Int, a2: Int, canon: Bool};
I_or(D, a, b) == Val(R_or(a, b), a)
\* @type: (Set(Str), Int, Int) => {k: Str, v: Int, a2: Int, canon: Bool};
I_xor(D, a, b) == Val(R_xor(a, b), a)
\* @type: (Set(Str), Int, Int) => {k: Str, v: Int, a2: Int, canon: Bool};
I_andnot(D, a, b) ==
  IF ~Small(a) /\ "big_andnot_ints_is_and" \in D THEN Val(R_and(a, b), a) ELSE Val(R_andnot(a, b), a)
\* @type: (Set(Str), Int, Int) => {k: Str, v: Int, a2: Int, canon: Bool};
I_cmp(D, a, b) == Val(R_cmp(a, b), a)
\* @type: (Set(Str), Int, Int) => {k: Str, v: Int, a2: Int, canon: Bool};
I_eq(D, a, b) == Val(R_eq(a, b), a)
\* @type: (Set(Str), Int, Int) => {k: Str, v: Int, a2: Int, canon: Bool};
I_ne(D, a, b) == Val(R_ne(a, b), a)
\* @type: (Set(Str), Int, Int) => {k: Str, v: Int, a2: Int, canon: Bool};
I_lt(D, a, b) == Val(R_lt(a, b), a)
\* @type: (Set(Str), Int, Int) => {k: Str, v: Int, a2: Int, canon: Bool};
I_le(D, a, b) == Val(R_le(a, b), a)
\* @type: (Set(Str), Int, Int) => {k: Str, v: Int, a2: Int, canon: Bool};
I_gt(D, a, b) == Val(R_gt(a, b), a)
\* @type: (Set(Str), Int, Int) => {k: Str, v: Int, a2: Int, canon: Bool};
I_ge(D, a, b) == Val(R_ge(a, b), a)
\* @type: (Set(Str), Int, Int) => {k: Str, v: Int, a2: Int, canon: Bool};
I_not(D, a, b) == Val(R_not(a, b), a)

\* @type: (Set(Str), Str, Int, Int) => {k: Str, v: Int, a2: Int, canon: Bool};
Impl(D, op, a, b) ==
  CASE op = "add" -> I_add(D, a, b) [] op = "sub" -> I_sub(D, a, b) [] op = "mul" -> I_mul(D, a, b)
    [] op = "div" -> I_div(D, a, b) [] op = "mod" -> I_mod(D, a, b) [] op = "pow" -> I_pow(D, a, b)
    [] op = "shl" -> I_shl(D, a, b) [] op = "shr" -> I_shr(D, a, b)
    [] op = "and" -> I_and(D, a, b) [] op = "or" -> I_or(D, a, b) [] op = "xor" -> I_xor(D, a, b)
    [] op = "andnot" -> I_andnot(D, a, b)
    [] op = "cmp" -> I_cmp(D, a, b) [] op = "eq" -> I_eq(D, a, b) [] op = "ne" -> I_ne(D, a, b)
    [] op = "lt" -> I_lt(D, a, b) [] op = "le" -> I_le(D, a, b) [] op = "gt" -> I_gt(D, a, b)
    [] op = "ge" -> I_ge(D, a, b)
    [] op = "neg" -> I_neg(D, a, b) [] op = "not" -> I_not(D, a, b)

=============================================================================
