--------------------------- MODULE Apalache -----------------------------------
(*
 * This is a standard module for use with the Apalache model checker.
 * The meaning of the operators is explained in the comments.
 * Many of the operators serve as additional annotations of their arguments.
 * As we like to preserve compatibility with TLC and TLAPS, we define the
 * operator bodies by erasure. The actual interpretation of the operators is
 * encoded inside Apalache. For the moment, these operators are mirrored in
 * the class at.forsyte.apalache.tla.lir.oper.ApalacheOper.
 *                                                                          
 * Igor Konnov, Jure Kukovec, Informal Systems 2020-2022
 * Igor Konnov, konnov.phd, 2026
 *)

(**
 * An assignment of an expression e to a state variable x. Typically, one
 * uses the non-primed version of x in the initializing predicate Init and
 * the primed version of x (that is, x') in the transition predicate Next.
 * Although TLA+ does not have a concept of a variable assignment, we find
 * this concept extremely useful for symbolic model checking. In pure TLA+,
 * one would simply write x = e, or x \in {e}.
 *
 * Apalache automatically converts some expressions of the form
 * x = e or x \in {e} into assignments. However, if you like to annotate
 * assignments by hand, you can use this operator.
 *
 * For a further discussion on that matter, see:
 * https://github.com/apalache-mc/apalache/blob/main/docs/src/idiomatic/001assignments.md
 *)
__x := __e == __x = __e

(**
 * A generator of a data structure. Given a positive integer `bound`, and
 * assuming that the type of the operator application is known, we
 * recursively generate a TLA+ data structure as a tree, whose width is
 * bound by the number `bound`.
 *
 * The body of this operator is redefined by Apalache.
 *)
Gen(__size) == {}

(**
 * Non-deterministically pick a value out of the set `S`, if `S` is non-empty.
 * If `S` is empty, return some value of the proper type.  This can be
 * understood as a non-deterministic version of CHOOSE x \in S: TRUE.
 *
 * @type: Set(a) => a;
 *)
Guess(__S) ==
    \* Since this is not supported by TLC,
    \* we fall back to the deterministic version for TLC.
    \* Apalache redefines the operator `Guess` as explained above.
    CHOOSE __x \in __S: TRUE

(**
 * Convert a set of pairs S to a function F. Note that if S contains at least
 * two pairs <<x, y>> and <<u, v>> such that x = u and y /= v,
 * then F is not uniquely defined. We use CHOOSE to resolve this ambiguity.
 * Apalache implements a more efficient encoding of this operator
 * than the default one.
 *
 * @type: Set(<<a, b>>) => (a -> b);
 *)
SetAsFun(__S) ==
    LET __Dom == { __x: <<__x, __y>> \in __S }
        __Rng == { __y: <<__x, __y>> \in __S }
    IN
    [ __x \in __Dom |-> CHOOSE __y \in __Rng: <<__x, __y>> \in __S ]

(**
 * A sequence constructor that avoids using a function constructor.
 * Since Apalache is typed, this operator is more efficient than
 * FunAsSeq([ i \in 1..N |-> F(i) ]). Apalache requires N to be
 * a constant expression.
 *
 * @type: (Int, (Int -> a)) => Seq(a);
 *)
LOCAL INSTANCE Integers
MkSeq(__N, __F(_)) ==
    \* This is the TLC implementation. Apalache does it differently.
    \* If __F is not defined on i \in 1..__N, TLC fails.
    \* Apalache evaluates symbolically. This is why definitions
    \* like `FunAsSeq` work.
    [ __i \in (1..__N) |-> __F(__i) ]

\* required by our default definition of FoldSeq and FunAsSeq
LOCAL INSTANCE Sequences

(**
 * As TLA+ is untyped, one can use function- and sequence-specific operators
 * interchangeably. However, to maintain correctness w.r.t. our type-system,
 * an explicit cast is needed when using functions as sequences.
 * FunAsSeq reinterprets a function over integers as a sequence.
 *
 * The parameters have the following meaning:
 *
 *  - fn is the function from 1..len that should be interpreted as a sequence.
 *  - len is the length of the sequence, len = Cardinality(DOMAIN fn),
 *    len may be a variable, a computable expression, etc.
 *  - capacity is a static upper bound on the length, that is, len <= capacity.
 *
 * @type: ((Int -> a), Int, Int) => Seq(a);
 *)
FunAsSeq(__fn, __len, __capacity) ==
    LET __FunAsSeq_elem_ctor(__i) == __fn[__i] IN
    SubSeq(MkSeq(__capacity, __FunAsSeq_elem_ctor), 1, __len)

(**
 * Annotating an expression \E x \in S: P as Skolemizable. That is, it can
 * be replaced with an expression c \in S /\ P(c) for a fresh constant c.
 * Not every exisential can be replaced with a constant, this should be done
 * with care. Apalache detects Skolemizable expressions by static analysis.
 *)
Skolem(__e) == __e

(**
 * A hint to the model checker to expand a set S, instead of dealing
 * with it symbolically. Apalache finds out which sets have to be expanded
 * by static analysis.
 *)
Expand(__S) == __S

(**
 * A hint to the model checker to replace its argument Cardinality(S) >= k
 * with a series of existential quantifiers for a constant k.
 * Similar to Skolem, this has to be done carefully. Apalache automatically
 * places this hint by static analysis.
 *)
ConstCardinality(__cardExpr) == __cardExpr

(**
 * The folding operator, used to implement computation over a set.
 * Apalache implements a more efficient encoding than the one below.
 * (from the community modules).
 *
 * @type: ((a, b) => a, a, Set(b)) => a;
 *)
RECURSIVE ApaFoldSet(_, _, _)
ApaFoldSet(__Op(_,_), __v, __S) ==
    IF __S = {}
    THEN __v
    ELSE LET __w == CHOOSE __x \in __S: TRUE IN
         LET __T == __S \ {__w} IN
         ApaFoldSet(__Op, __Op(__v,__w), __T)

(**
 * The folding operator, used to implement computation over a sequence.
 * Apalache implements a more efficient encoding than the one below.
 * (from the community modules).
 *
 * @type: ((a, b) => a, a, Seq(b)) => a;
 *)
RECURSIVE ApaFoldSeqLeft(_, _, _)
ApaFoldSeqLeft(__Op(_,_), __v, __seq) ==
    IF __seq = <<>>
    THEN __v
    ELSE ApaFoldSeqLeft(__Op, __Op(__v, Head(__seq)), Tail(__seq))

(**
 * The repetition operator, used to consecutively apply an operator, starting from
 * an initial value.
 *
 * @type: ((a, Int) => a, Int, a) => a;
 *)
RECURSIVE Repeat(_,_,_)
Repeat(__F(_,_), __N, __x) ==
        \* This is the TLC implementation. Apalache does it differently.
        IF __N <= 0
        THEN __x
        ELSE __F(Repeat(__F, __N - 1, __x), __N)

===============================================================================
