CONSTANTS
  WordBits = 31
  K = 8
  MaxShift = 24
  Lo <- MCLo
  Hi <- MCHi
  MaxPowExp = 5
  Deviations <- MCDeviations
  Explain <- MCExplain
  PairFile <- MCPairFile
INIT Init
NEXT Next
INVARIANTS PureOperandA ExactResult CanonicalResult RepresentationIsAFunctionOfTheValue DivisionIdentity ShiftsAreScaling BooleanAlgebra TotalOrder
PROPERTIES PureOperandB
CHECK_DEADLOCK FALSE
