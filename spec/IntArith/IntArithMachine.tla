--------------------------- MODULE IntArithMachine ---------------------------
(***************************************************************************)
(* The register machine that binds IntArith to the code: two operand       *)
(* registers are loaded with integers, ONE operator is applied (one action *)
(* per operator, mirroring one opcode / one value.XxxVal call), and the    *)
(* outcome is left in the result register.  TLC enumerates every operand   *)
(* pair of the instance and every operator, checks the property on every   *)
(* outcome, and prints one GEN record per transition; the harness replays  *)
(* each record on the real code (direct Go API, generic opcode, typed      *)
(* opcode, constant folding) and compares value, operand after the         *)
(* operation and representation.                                           *)
(***************************************************************************)
EXTENDS IntArith, TLC, Json, Sequences

CONSTANTS Lo, Hi,        \* operand range of the instance
          MaxPowExp,     \* largest exponent of the instance (results must fit TLC's 32-bit integers)
          Deviations,    \* deviations switched on in the model under check ({} = the reference)
          Explain,       \* deviations whose single-deviation prediction is exported with every record
          PairFile       \* "" = all pairs of Lo..Hi; otherwise an ndjson file of {a, b} objects

Pairs == IF PairFile = "" THEN (Lo..Hi) \X (Lo..Hi)
         ELSE LET ps == ndJsonDeserialize(PairFile) IN { <<ps[i].a, ps[i].b>> : i \in DOMAIN ps }

VARIABLES a, b,    \* operand registers (the integers held by the two operand objects)
          la,      \* the integer that was loaded into register a (history)
          op,      \* the operator applied ("" before)
          out      \* its outcome: [k, v, a2, canon]
vars == <<a, b, la, op, out>>

None == [k |-> "none", v |-> 0, a2 |-> 0, canon |-> TRUE]

InInstance(o, x, y) ==
  /\ Defined(o, x, y)
  /\ o = "pow" => y <= MaxPowExp
  /\ o \in UnaryOps => y = 0        \* one representative of the unused register

Init == /\ \E p \in Pairs : a = p[1] /\ b = p[2] /\ la = p[1]
        /\ op = "" /\ out = None

Record(o, res) ==
  [op |-> o, a |-> a, b |-> b, k |-> res.k, v |-> res.v, a2 |-> res.a2, canon |-> res.canon,
   dev |-> { [d |-> d, k |-> Impl({d}, o, a, b).k, v |-> Impl({d}, o, a, b).v,
              a2 |-> Impl({d}, o, a, b).a2, canon |-> Impl({d}, o, a, b).canon]
             : d \in { e \in Explain : Impl({e}, o, a, b) # Impl({}, o, a, b) } }]

Apply(o) ==
  /\ op = ""
  /\ InInstance(o, a, b)
  /\ LET res == Impl(Deviations, o, a, b) IN
       /\ out' = res
       /\ a' = res.a2                      \* an operation may (wrongly) change its left operand
       /\ PrintT(<<"GEN", ToJson(Record(o, res))>>)
  /\ op' = o
  /\ UNCHANGED <<b, la>>

Add == Apply("add")        Sub == Apply("sub")      Mul == Apply("mul")
Div == Apply("div")        Mod == Apply("mod")      Power == Apply("pow")
ShiftL == Apply("shl")     ShiftR == Apply("shr")
BitAnd == Apply("and")     BitOr == Apply("or")     BitXor == Apply("xor")   BitAndNot == Apply("andnot")
Compare == Apply("cmp")    Equal == Apply("eq")     NotEqual == Apply("ne")
Less == Apply("lt")        LessEq == Apply("le")    Greater == Apply("gt")   GreaterEq == Apply("ge")
Negate == Apply("neg")     BitNot == Apply("not")

Next == \/ Add \/ Sub \/ Mul \/ Div \/ Mod \/ Power \/ ShiftL \/ ShiftR
        \/ BitAnd \/ BitOr \/ BitXor \/ BitAndNot
        \/ Compare \/ Equal \/ NotEqual \/ Less \/ LessEq \/ Greater \/ GreaterEq
        \/ Negate \/ BitNot

Spec == Init /\ [][Next]_vars

-----------------------------------------------------------------------------
(* Laws that relate operators to each other (checked on the model's outcomes, *)
(* so that a deviation breaks them): the statement's division identity, the   *)
(* sign of the remainder, shifts as multiplication/flooring, Boolean algebra. *)
DivModLaw(D, x, y) == y # 0 =>
  LET q == Impl(D, "div", x, y).v
      m == Impl(D, "mod", x, y).v
  IN /\ x = q * y + m
     /\ Abs(m) < Abs(y)
     /\ (m = 0 \/ Sgn(m) = Sgn(x))
     /\ Abs(q * y) <= Abs(x)                       \* rounded toward zero
ShiftLaw(D, x, k) == (ShlDefined(k) /\ ShrDefined(k)) =>
  LET l == Impl(D, "shl", x, k)
      r == Impl(D, "shr", x, k)
  IN /\ l.k = "val" /\ r.k = "val"
     /\ k >= 0 => (l.v = x * 2^Clamp(k) /\ r.v * 2^Clamp(k) <= x /\ x < (r.v + 1) * 2^Clamp(k))
     /\ l.v = Impl(D, "shr", x, -k).v
BitLaw(D, x, y) ==
  LET and == Impl(D, "and", x, y).v
      or == Impl(D, "or", x, y).v
      xor == Impl(D, "xor", x, y).v
      andnot == Impl(D, "andnot", x, y).v
      not(z) == Impl(D, "not", z, 0).v
  IN /\ and + or = x + y
     /\ xor = or - and
     /\ andnot = x - and
     /\ not(x) = -x - 1
     /\ not(and) = Impl(D, "or", not(x), not(y)).v          \* De Morgan
OrderLaw(D, x, y) ==
  LET c(o) == Impl(D, o, x, y).v
  IN /\ c("lt") + c("eq") + c("gt") = 1
     /\ c("le") = c("lt") + c("eq") /\ c("ge") = c("gt") + c("eq") /\ c("ne") = 1 - c("eq")
     /\ c("cmp") = c("gt") - c("lt")
     /\ c("eq") = B2I(Impl(D, "sub", x, y).v = 0)

-----------------------------------------------------------------------------
(* The property on the model, as predicates over one outcome                *)
(* o = Impl(D, op, a, b).                                                   *)
(* Exact: the returned integer is the mathematical one, nothing panics.     *)
Exact(o, x, y, res) == res.k = "val" /\ res.v = Ref(o, x, y)
(* Pure: integers are values; an operation does not change its operands.    *)
(* Canonical: the representation is a function of the value, so a result    *)
(* that fits a word is the same object whichever path computed it.          *)
Canonical(res) == res.canon

Done == op # ""
ExactResult == Done => Exact(op, la, b, out)
PureOperandA == a = la
PureOperandB == [][b' = b]_vars
CanonicalResult == Done => Canonical(out)
RepresentationIsAFunctionOfTheValue == Done => (Repr(out.v) = "small" <=> Small(out.v))

DivisionIdentity == (op = "" /\ b # 0) => DivModLaw(Deviations, a, b)
ShiftsAreScaling == (op = "" /\ b <= MaxShift /\ -b <= MaxShift) => ShiftLaw(Deviations, a, b)
BooleanAlgebra == op = "" => BitLaw(Deviations, a, b)
TotalOrder == op = "" => OrderLaw(Deviations, a, b)
=============================================================================
