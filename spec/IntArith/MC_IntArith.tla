---- MODULE MC_IntArith ----
EXTENDS IntArithMachine
MCDeviations == {}
MCExplain == AllDeviations
MCPairFile == ""
MCLo == -40
MCHi == 40
====
