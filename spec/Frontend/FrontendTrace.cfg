CONSTANTS
  Families <- MCFamilies
  ProgTokens <- MCProgTokens
INIT TInit
NEXT TNext
INVARIANTS TypeOK Reported
CHECK_DEADLOCK FALSE
