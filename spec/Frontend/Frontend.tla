------------------------------ MODULE Frontend ------------------------------
(***************************************************************************)
(* Property C03: the front end is total.  For any input the lexer, parser, *)
(* regex parser and transpiler, macro expander and type checker terminate  *)
(* and report problems as diagnostics.                                     *)
(*                                                                         *)
(* The module is (a) the bounded-exhaustive INPUT SPACE (Init enumerates   *)
(* it, Start hands each input to the harness as a GEN record) and (b) the  *)
(* OUTCOME MODEL of the front-end pipeline: one action per stage, whose    *)
(* only outcomes are "ok" and "diagnostics".  A Go panic, a fatal error or *)
(* divergence is not an outcome of any action, so a recorded run that      *)
(* contains one is not a behaviour of this specification (FrontendTrace).  *)
(*                                                                         *)
(* Inputs are abstract: the harness owns the table from token kinds /      *)
(* regex atoms / byte atoms to their spelling.                             *)
(*   toks  a sequence of token kinds of one of the Families (alphabet size *)
(*         k, all sequences up to length n); spelled with one space        *)
(*         between tokens                                                  *)
(*   mut   a corpus program p (ProgTokens[p] tokens) with one edit: what a *)
(*         user types into the REPL -- every prefix, every one-token       *)
(*         deletion, duplication and neighbour swap                        *)
(*   regex a sequence of regex atoms, transpiled under every flag set      *)
(*   bytes a sequence of the byte atoms of property C04                    *)
(***************************************************************************)
EXTENDS Integers, Sequences, FiniteSets, TLC, Json

CONSTANTS Families,    \* sequence of [name, kind, k, n]: an alphabet of k token kinds ("toks"), regex
                       \* atoms ("regex") or byte atoms ("bytes"), and the length bound n
          ProgTokens   \* sequence: number of tokens of each corpus program

Edits == {"prefix", "delete", "dup", "swap"}

(* The sequence families are enumerated by GROWING them one element at a time (action Grow), *)
(* so that TLC's breadth-first search is the enumerator; Roots are the empty sequences and   *)
(* the (small) set of program edits.                                                         *)
Roots == {[kind |-> Families[f].kind, fam |-> Families[f].name, seq |-> <<>>] : f \in 1 .. Len(Families)}
         \cup UNION {{[kind |-> "mut", prog |-> p, op |-> op, at |-> i] :
                          op \in Edits, i \in 1 .. ProgTokens[p]} : p \in 1 .. Len(ProgTokens)}

FamilyOf(in) == Families[CHOOSE f \in 1 .. Len(Families) : Families[f].name = in.fam]

-----------------------------------------------------------------------------
(* The pipeline.  Source text: parse (the lexer runs inside it; lexing errors are error      *)
(* tokens that the parser turns into diagnostics), then for an error-free tree expand+check  *)
(* (macro expansion happens inside the checker), then the diagnostics, if any, are rendered  *)
(* for the user (report).  The REPL additionally asks the parser whether the text typed so   *)
(* far is incomplete and whether the next line should be indented (repl).  Regex bodies:     *)
(* regex_parse, then transpile, then report.                                                 *)

Outcomes == {"ok", "diagnostics"}

VARIABLES input, stage, diags, log
vars == <<input, stage, diags, log>>

IsSource == input.kind \in {"toks", "mut", "bytes"}

Init == /\ input \in Roots
        /\ stage = "new" /\ diags = FALSE /\ log = <<>>

(* the next longer inputs of a sequence family *)
Grow == /\ stage = "new"
        /\ input.kind # "mut" /\ Len(input.seq) < FamilyOf(input).n
        /\ \E x \in 1 .. FamilyOf(input).k : input' = [input EXCEPT !.seq = Append(@, x)]
        /\ UNCHANGED <<stage, diags, log>>

(* hand the input to the harness *)
Start == /\ stage = "new"
         /\ PrintT(<<"GEN", ToJson(input)>>)
         /\ stage' = IF IsSource THEN "parse" ELSE "regex_parse"
         /\ UNCHANGED <<input, diags, log>>

Step(st, outcome, next) == /\ stage = st
                           /\ outcome \in Outcomes
                           /\ log' = Append(log, <<st, outcome>>)
                           /\ diags' = (diags \/ outcome = "diagnostics")
                           /\ stage' = next
                           /\ UNCHANGED input

Parse      == \E o \in Outcomes : Step("parse", o, "repl")
(* the REPL's question "is this input complete?" always has an answer *)
Repl       == Step("repl", "ok", IF diags THEN "report" ELSE "check")
Check      == \E o \in Outcomes : Step("check", o, IF o = "ok" THEN "done" ELSE "report")
RegexParse == \E o \in Outcomes : Step("regex_parse", o, IF o = "ok" THEN "transpile" ELSE "report")
Transpile  == \E o \in Outcomes : Step("transpile", o, IF o = "ok" THEN "done" ELSE "report")
(* rendering the diagnostics for the user cannot fail *)
Report     == Step("report", "ok", "done")

Pipeline == Parse \/ Repl \/ Check \/ RegexParse \/ Transpile \/ Report
Next == Grow \/ Start \/ Pipeline
GenNext == Grow \/ Start      \* input-space generation only

(* What "total" means on this model: every run ends in "done" after at most five stages, and  *)
(* whenever a stage produced diagnostics they were reported.                                  *)
TypeOK == /\ stage \in {"new", "parse", "repl", "check", "regex_parse", "transpile", "report", "done"}
          /\ Len(log) <= 5
Reported == stage = "done" /\ diags => log[Len(log)] = <<"report", "ok">>
Terminates == <>(stage = "done")
Spec == Init /\ [][Next]_vars /\ WF_vars(Next)
=============================================================================
