CONSTANTS
  Families <- MCFamilies
  ProgTokens <- MCProgTokens
SPECIFICATION Spec
INVARIANTS TypeOK Reported
PROPERTY Terminates
CHECK_DEADLOCK FALSE
