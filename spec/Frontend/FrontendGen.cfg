CONSTANTS
  Families <- MCFamilies
  ProgTokens <- MCProgTokens
INIT Init
NEXT GenNext
INVARIANT TypeOK
CHECK_DEADLOCK FALSE
