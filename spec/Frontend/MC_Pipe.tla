---- MODULE MC_Pipe ----
(* a tiny instance on which the whole pipeline model is checked (invariants + termination) *)
EXTENDS Frontend
MCFamilies == <<[name |-> "core", kind |-> "toks", k |-> 2, n |-> 2], [name |-> "rx", kind |-> "regex", k |-> 2, n |-> 1],
                [name |-> "bytes", kind |-> "bytes", k |-> 2, n |-> 1]>>
MCProgTokens == <<2>>
====
