---------------------------- MODULE FrontendTrace ----------------------------
(***************************************************************************)
(* Validates the outcome sequences recorded from the real front end.  The  *)
(* harness runs every generated input through the real stages under        *)
(* recover() and a time budget and records, per input, the sequence of     *)
(* (stage, outcome) pairs it observed; classes.ndjson holds one line per   *)
(* DISTINCT sequence (with the number of inputs that produced it).  Each   *)
(* must be a complete behaviour of Frontend's pipeline; "panic", "fatal"   *)
(* and "hang" are no outcomes there, so such a class is rejected.          *)
(***************************************************************************)
EXTENDS Frontend

Classes == ndJsonDeserialize("classes.ndjson")

VARIABLES c, i
tvars == <<vars, c, i>>

TInit == /\ c \in 1 .. Len(Classes)
         /\ i = 0
         /\ input = [kind |-> Classes[c].kind]
         /\ stage = IF Classes[c].kind = "regex" THEN "regex_parse" ELSE "parse"
         /\ diags = FALSE /\ log = <<>>

Ev == Classes[c].log[i + 1]

Verdict(ok) == PrintT(<<"GEN", ToJson([id |-> Classes[c].id, ok |-> ok, at |-> i + 1])>>)

Accept == /\ i >= 0 /\ i < Len(Classes[c].log)
          /\ Pipeline
          /\ log' = Append(log, <<Ev.stage, Ev.outcome>>)    \* the step taken is the recorded one
          /\ i' = i + 1 /\ c' = c

Rejected == /\ i >= 0
            /\ \/ i < Len(Classes[c].log) /\ ~ENABLED Accept
               \/ i = Len(Classes[c].log) /\ stage # "done"      \* the run stopped half way
            /\ Verdict(FALSE)
            /\ i' = -1 /\ UNCHANGED <<vars, c>>

Done == /\ i = Len(Classes[c].log) /\ stage = "done"
        /\ Verdict(TRUE)
        /\ i' = -1 /\ UNCHANGED <<vars, c>>

TNext == Accept \/ Rejected \/ Done
=============================================================================
