----------------------------- MODULE FloatExact -----------------------------
(***************************************************************************)
(* The part of IEEE-754 binary arithmetic that TLA+ can state exactly      *)
(* (property C07, float half): operands are dyadic rationals m/8 and the   *)
(* special values; an operation is in the instance only when its real-     *)
(* number result is again a dyadic rational q/64 of small magnitude, so it *)
(* is representable in binary32 and binary64 and IEEE-754 demands exactly  *)
(* that number - no rounding is involved.  NaN, infinities and signed      *)
(* zeros follow the standard's special-case rules.  What is NOT decided:   *)
(* the rounding of inexact results.                                        *)
(*                                                                         *)
(* A value is [c, n]: c = "fin" with n = 64 * value (n = 0 is +0),         *)
(* "nzero" (-0), "inf", "ninf", "nan" (n = 0 for the specials).            *)
(***************************************************************************)
EXTENDS Integers, TLC, Json

CONSTANTS MaxM            \* finite operands are m/8, m \in -MaxM..MaxM

Fin(n) == [c |-> "fin", n |-> n]
NZero == [c |-> "nzero", n |-> 0]
Inf == [c |-> "inf", n |-> 0]
NInf == [c |-> "ninf", n |-> 0]
NaN == [c |-> "nan", n |-> 0]
Operands == { Fin(8 * m) : m \in -MaxM..MaxM } \cup {NZero, Inf, NInf, NaN}

IsNaN(x) == x.c = "nan"
IsInf(x) == x.c \in {"inf", "ninf"}
IsZero(x) == x.c = "nzero" \/ (x.c = "fin" /\ x.n = 0)
Negative(x) == x.c \in {"nzero", "ninf"} \/ (x.c = "fin" /\ x.n < 0)      \* the sign bit
SignedInf(neg) == IF neg THEN NInf ELSE Inf
SignedZero(neg) == IF neg THEN NZero ELSE Fin(0)
Abs(i) == IF i < 0 THEN -i ELSE i

Neg(x) == CASE x.c = "nan" -> NaN [] x.c = "inf" -> NInf [] x.c = "ninf" -> Inf
            [] x.c = "nzero" -> Fin(0)
            [] OTHER -> IF x.n = 0 THEN NZero ELSE Fin(-x.n)

Add(x, y) ==
  CASE IsNaN(x) \/ IsNaN(y) -> NaN
    [] IsInf(x) /\ IsInf(y) -> IF x = y THEN x ELSE NaN            \* inf + -inf is invalid
    [] IsInf(x) -> x
    [] IsInf(y) -> y
    [] IsZero(x) /\ IsZero(y) -> SignedZero(Negative(x) /\ Negative(y))
    [] IsZero(x) -> y
    [] IsZero(y) -> x
    [] OTHER -> Fin(x.n + y.n)                                      \* an exact zero sum is +0
Sub(x, y) == Add(x, Neg(y))

Mul(x, y) ==
  LET neg == Negative(x) # Negative(y) IN
  CASE IsNaN(x) \/ IsNaN(y) -> NaN
    [] (IsInf(x) /\ IsZero(y)) \/ (IsZero(x) /\ IsInf(y)) -> NaN
    [] IsInf(x) \/ IsInf(y) -> SignedInf(neg)
    [] IsZero(x) \/ IsZero(y) -> SignedZero(neg)
    [] OTHER -> LET p == x.n * y.n IN IF p >= 0 THEN Fin(p \div 64) ELSE Fin(-((-p) \div 64))

\* the quotient of two finite non-zero operands is in the instance iff it is q/64 exactly
QuotExact(x, y) == (64 * Abs(x.n)) % Abs(y.n) = 0
Div(x, y) ==
  LET neg == Negative(x) # Negative(y) IN
  CASE IsNaN(x) \/ IsNaN(y) -> NaN
    [] (IsInf(x) /\ IsInf(y)) \/ (IsZero(x) /\ IsZero(y)) -> NaN
    [] IsInf(x) -> SignedInf(neg)
    [] IsInf(y) -> SignedZero(neg)
    [] IsZero(y) -> SignedInf(neg)                                   \* division by zero
    [] IsZero(x) -> SignedZero(neg)
    [] OTHER -> Fin(((64 * Abs(x.n)) \div Abs(y.n)) * (IF neg THEN -1 ELSE 1))

\* total preorder of the non-NaN values by their real value (-0 = +0)
Rank(x) == CASE x.c = "ninf" -> -1000000 [] x.c = "inf" -> 1000000 [] x.c = "nzero" -> 0 [] OTHER -> x.n
Lt(x, y) == ~IsNaN(x) /\ ~IsNaN(y) /\ Rank(x) < Rank(y)
Le(x, y) == ~IsNaN(x) /\ ~IsNaN(y) /\ Rank(x) <= Rank(y)
Eq(x, y) == ~IsNaN(x) /\ ~IsNaN(y) /\ Rank(x) = Rank(y)
B(p) == IF p THEN Fin(64) ELSE Fin(0)          \* booleans exported as 1.0 / 0.0

InInstance(o, x, y) ==
  IF o = "div" /\ x.c = "fin" /\ y.c = "fin" /\ x.n # 0 /\ y.n # 0 THEN QuotExact(x, y) ELSE TRUE

Result(o, x, y) ==
  CASE o = "add" -> Add(x, y) [] o = "sub" -> Sub(x, y) [] o = "mul" -> Mul(x, y) [] o = "div" -> Div(x, y)
    [] o = "neg" -> Neg(x)
    [] o = "lt" -> B(Lt(x, y)) [] o = "le" -> B(Le(x, y)) [] o = "gt" -> B(Lt(y, x)) [] o = "ge" -> B(Le(y, x))
    [] o = "eq" -> B(Eq(x, y)) [] o = "ne" -> B(~Eq(x, y))
Ops == {"add", "sub", "mul", "div", "neg", "lt", "le", "gt", "ge", "eq", "ne"}

VARIABLES a, b, op, out
vars == <<a, b, op, out>>
Init == a \in Operands /\ b \in Operands /\ op = "" /\ out = Fin(0)
Apply(o) == /\ op = "" /\ InInstance(o, a, b)
            /\ op' = o /\ out' = Result(o, a, b)
            /\ PrintT(<<"GEN", ToJson([op |-> o, a |-> a, b |-> b, r |-> Result(o, a, b)])>>)
            /\ UNCHANGED <<a, b>>
Plus == Apply("add")  Minus == Apply("sub")  Times == Apply("mul")  Over == Apply("div")  Negate == Apply("neg")
Less == Apply("lt")   LessEq == Apply("le")  Greater == Apply("gt") GreaterEq == Apply("ge")
Equal == Apply("eq")  NotEqual == Apply("ne")
Next == Plus \/ Minus \/ Times \/ Over \/ Negate \/ Less \/ LessEq \/ Greater \/ GreaterEq \/ Equal \/ NotEqual

(* sanity laws of the model: finite results are the real-number results, NaN is contagious and   *)
(* unordered, -x = 0 - x except for the sign of zero, x - x is +0 or NaN                          *)
Done == op # ""
FiniteIsReal == (Done /\ a.c = "fin" /\ b.c = "fin" /\ out.c = "fin") =>
  /\ op = "add" => out.n = a.n + b.n
  /\ op = "sub" => out.n = a.n - b.n
  /\ op = "mul" => out.n * 64 = a.n * b.n
  /\ (op = "div" /\ b.n # 0) => out.n * b.n = 64 * a.n
NaNContagious == (Done /\ (IsNaN(a) \/ (IsNaN(b) /\ op # "neg"))) =>
  IF op \in {"add", "sub", "mul", "div", "neg"} THEN IsNaN(out) ELSE out = B(op = "ne")
Trichotomy == (op = "" /\ ~IsNaN(a) /\ ~IsNaN(b)) =>
  (IF Lt(a, b) THEN 1 ELSE 0) + (IF Eq(a, b) THEN 1 ELSE 0) + (IF Lt(b, a) THEN 1 ELSE 0) = 1
SelfDifference == op = "" => (Sub(a, a) = IF IsNaN(a) \/ IsInf(a) THEN NaN ELSE Fin(0))
=============================================================================
