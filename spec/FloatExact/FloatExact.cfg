CONSTANTS
  MaxM = 20
INIT Init
NEXT Next
INVARIANTS FiniteIsReal NaNContagious Trichotomy SelfDifference
CHECK_DEADLOCK FALSE
