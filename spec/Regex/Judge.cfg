CONSTANTS
  Deviations <- MCDeviations
  Families <- MCFamilies
  FlagSets <- MCFlagSets
  ClassItemsN <- MCClassItemsN
  TxtLen <- MCTxtLen
  SubjSeq <- MCSubjSeq
INIT Init
NEXT Next
INVARIANTS InDomain ImplConforms
CHECK_DEADLOCK FALSE
