------------------------------- MODULE Regex -------------------------------
(***************************************************************************)
(* Reference semantics of Elk regular expressions (property C21).          *)
(*                                                                         *)
(* A CASE is a regex value as an Elk program can build it: a literal       *)
(* (syntax tree + flag set), `r1 + r2` or `r * n`.  The specification      *)
(* gives every case its DENOTATION: the set of subject strings it accepts  *)
(* (`Regex#matches` is an unanchored search).  The matcher M is the        *)
(* textbook one: M(e, fl, s, i) is the set of positions where a match of   *)
(* node e that starts at position i of s, under the flags fl in force,     *)
(* can end.                                                                *)
(*                                                                         *)
(* State machine: Init picks a case (from the bounded families defined     *)
(* below, or from cases.ndjson written by the harness' seeded generator);  *)
(* Evaluate computes the acceptance vector over all subject strings and    *)
(* emits it as a GEN record.  The harness prints the syntax tree as Elk    *)
(* regex text, runs the real regex/parser + regex.Transpile +              *)
(* value.CompileRegex (+ ConcatVal / RepeatVal, + %/../ literals through   *)
(* the compiler) and compares `MatchesString` on every subject.            *)
(* The property is the relation Conforms below: the implementation either  *)
(* reports a regex error or accepts exactly the denoted strings.           *)
(*                                                                         *)
(* Characters are code points (integers), strings are sequences of them.   *)
(* Flags are the strings "i" "m" "s" "U" "x" "a" (regex/flag/flag.go).     *)
(***************************************************************************)
EXTENDS Integers, Sequences, FiniteSets, TLC, Json

CONSTANTS
  Deviations,   \* names of KNOWN deviations of the implementation the matcher should reproduce
                \* ({} = the reference semantics); each is a named guarded branch below
  Families,     \* which bounded families Init enumerates: subset of {"atoms","ops","trivia","compose","file"}
  FlagSets,     \* family name |-> the top-level flag sets that family is crossed with
  ClassItemsN,  \* how many class items the "atoms" family draws pairs from (1..Len(ClassItemSeq))
  TxtLen,       \* the "trivia" family uses every comment text up to this length
  SubjSeq       \* the subject strings, in the order of the acceptance vector

Flags == {"i", "m", "s", "U", "x", "a"}

-----------------------------------------------------------------------------
(* The test alphabet.  Pattern characters: a B e-acute ARABIC-INDIC THREE  *)
(* _ space newline # | ; subjects additionally use A b 7 and NBSP.         *)
cLa == 97    cUA == 65    cUB == 66    cLb == 98    cEac == 233   cAr3 == 1635
cD7 == 55    cUS == 95    cSP == 32    cNBSP == 160 cNL == 10     cHash == 35
cPipe == 124

PatChars  == {cLa, cUB, cEac, cAr3, cUS, cSP, cNL, cHash, cPipe}
SubjChars == PatChars \cup {cUA, cLb, cD7, cNBSP}

(* Unicode facts about the alphabet (cross-checked against Go's unicode    *)
(* tables by the harness before every run).                                *)
Letters    == {cLa, cUA, cUB, cLb, cEac}       \* general category L
DecDigits  == {cD7, cAr3}                      \* Nd
ConnPunct  == {cUS}                            \* Pc
WhiteSpace == {cSP, cNL, cNBSP}                \* White_Space
HorizSpace == {cSP, cNBSP}                     \* tab + Zs
IsAscii(c) == c < 128

(* the tables above, printed once so that the harness can compare them with Go's unicode package *)
ASSUME PrintT(<<"GEN", ToJson([tables |-> [letters |-> Letters, digits |-> DecDigits, connectors |-> ConnPunct,
                                            space |-> WhiteSpace, hspace |-> HorizSpace, all |-> SubjChars]])>>)

(* simple case folding inside the alphabet *)
Fold(c) == CASE c = cLa -> cUA [] c = cUA -> cLa [] c = cUB -> cLb [] c = cLb -> cUB [] OTHER -> c

(* Shorthand classes.  \w = L|M|Nd|Pc, \d = Nd, \s = White_Space,          *)
(* \h = horizontal white space; with flag `a` they only match ASCII.       *)
InShPos(v, c, ascii) ==
  /\ (ascii => IsAscii(c))
  /\ CASE v = "w" -> c \in Letters \cup DecDigits \cup ConnPunct
       [] v = "d" -> c \in DecDigits
       [] v = "s" -> c \in WhiteSpace
       [] v = "h" -> c \in HorizSpace
Lower(v) == CASE v = "W" -> "w" [] v = "D" -> "d" [] v = "S" -> "s" [] v = "H" -> "h" [] OTHER -> v
InSh(v, c, ascii) == IF v = Lower(v) THEN InShPos(v, c, ascii) ELSE ~InShPos(Lower(v), c, ascii)

-----------------------------------------------------------------------------
(* Syntax trees.  One uniform record shape, so that any two nodes compare. *)
Z == [k |-> "", v |-> "", c |-> 0, lo |-> 0, hi |-> 0, lazy |-> FALSE, neg |-> FALSE,
      on |-> <<>>, off |-> <<>>, txt |-> <<>>, term |-> FALSE, xs |-> <<>>]

Char(c)        == [Z EXCEPT !.k = "char", !.c = c]            \* the literal character c
Dot            == [Z EXCEPT !.k = "dot"]
Sh(v)          == [Z EXCEPT !.k = "sh", !.v = v]              \* \w \W \d \D \s \S \h \H
Anchor(v)      == [Z EXCEPT !.k = "anchor", !.v = v]          \* ^ $ \A \z
Rng(a, b)      == [Z EXCEPT !.k = "range", !.lo = a, !.hi = b] \* class item a-b
Class(neg, it) == [Z EXCEPT !.k = "class", !.neg = neg, !.xs = it]
Group(v, r)    == [Z EXCEPT !.k = "group", !.v = v, !.xs = <<r>>]   \* v: cap | noncap | named
FlagGroup(on, off, r) == [Z EXCEPT !.k = "group", !.v = "flags", !.on = on, !.off = off, !.xs = <<r>>]
SetFlags(on, off)     == [Z EXCEPT !.k = "setflags", !.on = on, !.off = off]  \* (?i-m)
Cat(xs)        == [Z EXCEPT !.k = "cat", !.xs = xs]
Alt(xs)        == [Z EXCEPT !.k = "alt", !.xs = xs]
Q(v, lo, hi, lazy, r) == [Z EXCEPT !.k = "q", !.v = v, !.lo = lo, !.hi = hi, !.lazy = lazy, !.xs = <<r>>]
Ws(c)          == [Z EXCEPT !.k = "ws", !.c = c]              \* extended-mode trivia: raw white space
Cmt(txt, term) == [Z EXCEPT !.k = "cmt", !.txt = txt, !.term = term] \* `#txt` + newline if term

Range(q) == {q[j] : j \in DOMAIN q}
Inf == 0 - 1

-----------------------------------------------------------------------------
(* Flags in force.  A group (?on-off: ) changes them for its body only; a  *)
(* bare (?on-off) changes them up to the end of the enclosing group,       *)
(* across the following alternatives too (as in Perl/RE2).                 *)
Apply(fl, e) == (fl \cup Range(e.on)) \ Range(e.off)

RECURSIVE FlagsAfter(_, _), FlagsFold(_, _, _)
FlagsAfter(e, fl) == CASE e.k = "setflags" -> Apply(fl, e)
                       [] e.k \in {"cat", "alt"} -> FlagsFold(e.xs, 1, fl)
                       [] OTHER -> fl
FlagsFold(xs, k, fl) == IF k > Len(xs) THEN fl ELSE FlagsFold(xs, k + 1, FlagsAfter(xs[k], fl))

-----------------------------------------------------------------------------
(* Character classes.  With `i` a character is in the class iff it or its  *)
(* case variant is; negation is applied afterwards.                        *)
ItemHas(it, c, fl) == CASE it.k = "char"  -> c = it.c
                        [] it.k = "range" -> it.lo <= c /\ c <= it.hi
                        [] it.k = "sh"    -> InSh(it.v, c, "a" \in fl)
ClassHas(items, c, fl) ==
  \E j \in DOMAIN items : ItemHas(items[j], c, fl) \/ ("i" \in fl /\ ItemHas(items[j], Fold(c), fl))

(* KNOWN DEVIATION "LoneSplitClass" (regex/transpile.go charClass): \W \S \H inside a positive  *)
(* class are moved out as alternatives `(?:[..]|[^..])`; when nothing stays inside, the text    *)
(* `(?:[]|[^\p{L}..])` is ONE Go class that contains ] | [ ^ and the un-negated shorthand.      *)
Split(it, fl) == it.k = "sh" /\ (it.v = "H" \/ (it.v \in {"W", "S"} /\ "a" \notin fl))
LoneSplit(e, fl) == /\ "LoneSplitClass" \in Deviations
                    /\ ~e.neg /\ \A j \in DOMAIN e.xs : Split(e.xs[j], fl)
LoneSplitHas(items, c, fl) ==
  \/ c = cPipe
  \/ InShPos(Lower(items[1].v), c, "a" \in fl)
  \/ \E j \in 2..Len(items) : ItemHas(items[j], c, fl)

-----------------------------------------------------------------------------
(* Extended mode (`x`): raw white space and `# ... newline` comments are    *)
(* trivia and match the empty string; the text of a comment is NOT pattern *)
(* text, whatever characters it contains.                                  *)
RECURSIVE FirstPipe(_, _)
FirstPipe(t, j) == IF j > Len(t) THEN 0 ELSE IF t[j] = cPipe THEN j ELSE FirstPipe(t, j + 1)
LiveNode(c) == IF c \in WhiteSpace THEN Ws(c) ELSE Char(c)

-----------------------------------------------------------------------------
(* The matcher.                                                            *)
CharEq(x, c, ci) == x = c \/ (ci /\ x = Fold(c))

AnchorHolds(v, fl, s, i) ==
  CASE v = "^" -> i = 0 \/ ("m" \in fl /\ i > 0 /\ s[i] = cNL)
    [] v = "$" -> i = Len(s) \/ ("m" \in fl /\ i < Len(s) /\ s[i + 1] = cNL)
    [] v = "A" -> i = 0
    [] v = "z" -> i = Len(s)

(* where the deviation "CommentPerConcat" (described at MCat below) applies *)
CommentDeviates(xs, k, fl) ==
  /\ "CommentPerConcat" \in Deviations /\ xs[k].k = "cmt" /\ "x" \in fl
  /\ (FirstPipe(xs[k].txt, 1) > 0 \/ (Len(xs) = 1 /\ xs[k].txt = <<>> /\ ~xs[k].term))

RECURSIVE M(_, _, _, _), MCat(_, _, _, _, _, _), MAlt(_, _, _, _, _), MRep(_, _, _, _, _, _),
          MStar(_, _, _, _, _), LiveBranches(_, _, _, _, _, _)

Step(r, fl, s, P) == UNION {M(r, fl, s, p) : p \in P}

M(e, fl, s, i) ==
  CASE e.k = "char"  -> IF i < Len(s) /\ CharEq(s[i + 1], e.c, "i" \in fl) THEN {i + 1} ELSE {}
    [] e.k = "dot"   -> IF i < Len(s) /\ ("s" \in fl \/ s[i + 1] # cNL) THEN {i + 1} ELSE {}
    [] e.k = "sh"    -> IF i < Len(s) /\ InSh(e.v, s[i + 1], "a" \in fl) THEN {i + 1} ELSE {}
    [] e.k = "class" -> IF i < Len(s) /\ (IF LoneSplit(e, fl) THEN LoneSplitHas(e.xs, s[i + 1], fl)
                                          ELSE ClassHas(e.xs, s[i + 1], fl) # e.neg)
                        THEN {i + 1} ELSE {}
    [] e.k = "anchor" -> IF AnchorHolds(e.v, fl, s, i) THEN {i} ELSE {}
    [] e.k \in {"ws", "cmt", "setflags"} -> {i}     \* trivia and flag settings match the empty string
    [] e.k = "group" -> M(e.xs[1], Apply(fl, e), s, i)
    [] e.k = "cat"   -> MCat(e.xs, 1, fl, s, i, {i})
    [] e.k = "alt"   -> MAlt(e.xs, 1, fl, s, i)
    [] e.k = "q"     -> MRep(e.xs[1], fl, s, {i}, e.lo, e.hi)

(* Concatenation: P is the set of positions reached after xs[1..k-1]; i0 is where the          *)
(* concatenation started (only the deviation needs it).                                        *)
(*                                                                                             *)
(* KNOWN DEVIATION "CommentPerConcat" (regex/transpile.go concatenation): comments are skipped *)
(* element by element inside ONE parser concatenation.  The Elk parser has already split the   *)
(* text at every `|`, so `a #b|c NL d` is compiled as the union of `a #b` and `c NL d`: the    *)
(* comment ends at the `|` and what follows is live pattern text again.  A concatenation that  *)
(* consists of the single character `#` is not a list at all and is compiled as a literal `#`. *)
MCat(xs, k, fl, s, i0, P) ==
  IF k > Len(xs) THEN P
  ELSE IF CommentDeviates(xs, k, fl) THEN
    LET e == xs[k]
        p == FirstPipe(e.txt, 1)
        loneHash == k = 1 /\ (p = 1 \/ (p = 0 /\ Len(xs) = 1))     \* the first branch is just `#`
        left == IF loneHash THEN Step(Char(cHash), fl, s, P) ELSE P  \* else: prefix, rest commented out
    IN IF p = 0 THEN left
       ELSE left \cup LiveBranches(SubSeq(e.txt, p + 1, Len(e.txt)),
                                   (IF e.term THEN <<Ws(cNL)>> ELSE <<>>) \o SubSeq(xs, k + 1, Len(xs)),
                                   fl, s, i0, 0)
  ELSE MCat(xs, k + 1, FlagsAfter(xs[k], fl), s, i0, Step(xs[k], fl, s, P))

(* the alternatives the parser sees in the comment text after its first `|`; the last one      *)
(* continues with the rest of the concatenation                                                *)
LiveBranches(txt, tail, fl, s, i0, dummy) ==
  LET q    == FirstPipe(txt, 1)
      seg  == IF q = 0 THEN txt ELSE SubSeq(txt, 1, q - 1)
      live == [j \in 1..Len(seg) |-> LiveNode(seg[j])]
  IN IF q = 0 THEN MCat(live \o tail, 1, fl, s, i0, {i0})
     ELSE MCat(live, 1, fl, s, i0, {i0}) \cup LiveBranches(SubSeq(txt, q + 1, Len(txt)), tail, fl, s, i0, 0)

MAlt(xs, k, fl, s, i) ==
  IF k > Len(xs) THEN {}
  ELSE M(xs[k], fl, s, i) \cup MAlt(xs, k + 1, FlagsAfter(xs[k], fl), s, i)

(* least fixed point of "one more repetition" *)
MStar(r, fl, s, frontier, seen) ==
  LET new == Step(r, fl, s, frontier) \ seen
  IN IF new = {} THEN seen ELSE MStar(r, fl, s, new, seen \cup new)

(* between lo and hi repetitions (hi = Inf: unbounded); greedy and lazy accept the same strings *)
MRep(r, fl, s, P, lo, hi) ==
  IF P = {} THEN {}
  ELSE IF lo > 0 THEN MRep(r, fl, s, Step(r, fl, s, P), lo - 1, IF hi = Inf THEN Inf ELSE hi - 1)
  ELSE IF hi = Inf THEN MStar(r, fl, s, P, P)
  ELSE IF hi = 0 THEN P
  ELSE P \cup MRep(r, fl, s, Step(r, fl, s, P), 0, hi - 1)

Matches(re, fl, s) == \E i \in 0..Len(s) : M(re, fl, s, i) # {}

-----------------------------------------------------------------------------
(* Well-formedness: the domain on which the semantics above is claimed.    *)
(* Trivia only where `x` is in force, as elements of a concatenation (or   *)
(* as the whole pattern), never as the operand of a quantifier; comment    *)
(* text has no newline and, after its first `|`, no `#`; a comment without *)
(* its newline only at the very end of the whole pattern.  A tree must     *)
(* print to text the Elk parser reads back as the same tree: no `cat`      *)
(* directly inside `cat`, no `alt` inside `cat`/`alt` or under a           *)
(* quantifier without a group.                                             *)
NoDup(q) == Cardinality(Range(q)) = Len(q)
FlagsOK(e) == /\ Range(e.on) \subseteq Flags /\ Range(e.off) \subseteq Flags
              /\ NoDup(e.on) /\ NoDup(e.off) /\ Range(e.on) \cap Range(e.off) = {}
              /\ Len(e.on) + Len(e.off) > 0

CmtOK(e, last) ==
  /\ \A j \in DOMAIN e.txt : e.txt[j] \in PatChars \ {cNL}
  /\ LET p == FirstPipe(e.txt, 1) IN p > 0 => \A j \in (p + 1)..Len(e.txt) : e.txt[j] # cHash
  /\ (e.term \/ last)

ItemOK(it) == \/ it.k = "char" /\ it.c \in PatChars
              \/ it.k = "range" /\ it.lo \in PatChars /\ it.hi \in PatChars /\ it.lo < it.hi
              \/ it.k = "sh" /\ it.v \in {"w", "W", "d", "D", "s", "S", "h", "H"}

RECURSIVE WF(_, _, _, _), WFSeq(_, _, _, _, _)
(* pos: "top" | "body" (of a group) | "branch" (of an alternation) | "elem" (of a concatenation) | "arg" (of a quantifier) *)
(* last: nothing follows e in the whole pattern                                                                           *)
WF(e, fl, pos, last) ==
  CASE e.k = "char"   -> e.c \in PatChars
    [] e.k = "dot"    -> TRUE
    [] e.k = "sh"     -> e.v \in {"w", "W", "d", "D", "s", "S", "h", "H"}
    [] e.k = "anchor" -> e.v \in {"^", "$", "A", "z"} /\ pos # "arg"
    [] e.k = "class"  -> Len(e.xs) > 0 /\ \A j \in DOMAIN e.xs : ItemOK(e.xs[j])
    [] e.k = "ws"     -> "x" \in fl /\ e.c \in {cSP, cNL} /\ pos \in {"top", "body", "branch", "elem"}
    [] e.k = "cmt"    -> "x" \in fl /\ pos \in {"top", "elem"} /\ CmtOK(e, last)
    [] e.k = "setflags" -> FlagsOK(e) /\ pos \in {"top", "body", "elem"}
    [] e.k = "group"  -> /\ e.v \in {"cap", "noncap", "named", "flags"}
                         /\ (e.v = "flags") = (Len(e.on) + Len(e.off) > 0)
                         /\ (e.v = "flags" => FlagsOK(e))
                         /\ WF(e.xs[1], Apply(fl, e), "body", FALSE)
    [] e.k = "cat"    -> pos \in {"top", "body", "branch"} /\ Len(e.xs) # 1
                         /\ WFSeq(e.xs, 1, fl, "elem", last /\ pos = "top")
    [] e.k = "alt"    -> pos \in {"top", "body"} /\ Len(e.xs) >= 2 /\ WFSeq(e.xs, 1, fl, "branch", FALSE)
    [] e.k = "q"      -> /\ pos # "arg" /\ e.xs[1].k \in {"char", "dot", "sh", "class", "group"}
                         /\ e.lo >= 0 /\ (e.hi = Inf \/ e.hi >= e.lo)
                         /\ <<e.v, e.lo = e.hi, e.hi = Inf>> \in
                              { <<"?", FALSE, FALSE>>, <<"*", FALSE, TRUE>>, <<"+", FALSE, TRUE>>,
                                <<"{n}", TRUE, FALSE>>, <<"{n,}", FALSE, TRUE>>, <<"{n,m}", FALSE, FALSE>>,
                                <<"{n,m}", TRUE, FALSE>>, <<"{,m}", FALSE, FALSE>> }
                         /\ (e.v = "?" => e.lo = 0 /\ e.hi = 1) /\ (e.v = "*" => e.lo = 0)
                         /\ (e.v = "+" => e.lo = 1) /\ (e.v = "{,m}" => e.lo = 0)
                         /\ WF(e.xs[1], fl, "arg", FALSE)
    [] OTHER -> FALSE
WFSeq(xs, k, fl, pos, lastOK) ==
  IF k > Len(xs) THEN TRUE
  ELSE /\ xs[k].k \notin (IF pos = "elem" THEN {"cat", "alt"} ELSE {"alt"})
       /\ WF(xs[k], fl, pos, lastOK /\ k = Len(xs))
       /\ WFSeq(xs, k + 1, FlagsAfter(xs[k], fl), pos, lastOK)

-----------------------------------------------------------------------------
(* Cases and their denotation.                                             *)
(*   lit   : the literal %/re/fl                                           *)
(*   plus  : %/re/fl + %/re2/fl2  -- each operand keeps its own flags      *)
(*   times : %/re/fl * n          -- re repeated n times under fl          *)
Case(id, op, re, fl, re2, fl2, n) ==
  [id |-> id, op |-> op, re |-> re, fl |-> fl, re2 |-> re2, fl2 |-> fl2, n |-> n, impl |-> <<"none">>]
Lit(re, fl) == Case(0, "lit", re, fl, Z, <<>>, 0)

(* KNOWN DEVIATION "TopFlagsDropped" (regex/transpile.go Transpile, value/regex.go CompileRegex): *)
(* the flags of a literal are only consulted by the transpiler itself (x, a); i m s U are never   *)
(* written into the Go pattern, so at the top level they have no effect.                          *)
Top(fl) == IF "TopFlagsDropped" \in Deviations THEN fl \cap {"x", "a"} ELSE fl

FlagSeq == <<"i", "m", "s", "U", "x", "a">>
SeqOfFlags(fl) == SelectSeq(FlagSeq, LAMBDA f : f \in fl)
Scoped(fl, re) == IF fl = {} THEN Group("noncap", re) ELSE FlagGroup(SeqOfFlags(fl), <<>>, re)

(* a pattern that is a single comment is a concatenation of one element (matters to MCat's deviation only) *)
Body(re) == IF re.k = "cmt" THEN Cat(<<re>>) ELSE re
DenRe(c) == CASE c.op = "lit"   -> Body(c.re)
              [] c.op = "plus"  -> Cat(<<Scoped(Range(c.fl), Body(c.re)), Scoped(Range(c.fl2), Body(c.re2))>>)
              [] c.op = "times" -> Q("{n}", c.n, c.n, FALSE, Group("noncap", Body(c.re)))
DenFl(c) == CASE c.op = "plus" -> {} [] OTHER -> Top(Range(c.fl))

Accepts(c, s) == Matches(DenRe(c), DenFl(c), s)
AccVector(c)  == [j \in 1..Len(SubjSeq) |-> IF Accepts(c, SubjSeq[j]) THEN 1 ELSE 0]

CaseOK(c) == /\ c.op \in {"lit", "plus", "times"}
             /\ Range(c.fl) \subseteq Flags /\ WF(c.re, Range(c.fl), "top", TRUE)
             /\ (c.op = "plus" => Range(c.fl2) \subseteq Flags /\ WF(c.re2, Range(c.fl2), "top", TRUE))
             /\ (c.op = "times" => c.n \in 0..3)

(* THE PROPERTY, as a relation between a case and what the implementation did with it:       *)
(* impl = <<"error">> (a regex error was reported) or <<"ok", vector>>; <<"none">>: not recorded. *)
Conforms(c, impl) == impl[1] = "error" \/ (impl[1] = "ok" /\ impl[2] = AccVector(c))

-----------------------------------------------------------------------------
(* Bounded families (the quantifier of the property).                      *)
ClassItemSeq == << Char(cLa), Sh("W"), Char(cHash), Sh("s"), Char(cUB), Sh("H"), Rng(cUB, cLa), Sh("d"),
                   Char(cSP), Sh("S"), Char(cPipe), Sh("w"), Char(cEac), Sh("D"), Sh("h"), Char(cNL) >>
ClassItems == {ClassItemSeq[j] : j \in 1..ClassItemsN}
Classes == {Class(neg, <<a>>) : neg \in BOOLEAN, a \in ClassItems}
           \cup UNION {{Class(neg, <<a, b>>) : neg \in BOOLEAN, b \in ClassItems \ {a}} : a \in ClassItems}
Shorthands == {Sh(v) : v \in {"w", "W", "d", "D", "s", "S", "h", "H"}}
Atoms == {Char(c) : c \in PatChars} \cup {Dot} \cup Shorthands
         \cup {Anchor(v) : v \in {"^", "$", "A", "z"}} \cup Classes

Core == {Char(cLa), Char(cUB), Char(cNL), Char(cSP), Char(cHash), Dot, Sh("w"), Sh("S"),
         Anchor("^"), Anchor("$"), Class(FALSE, <<Char(cLa), Sh("d")>>), Class(TRUE, <<Char(cUB)>>)}
Operands == {a \in Core : a.k # "anchor"}
QForms == { <<"?", 0, 1>>, <<"*", 0, Inf>>, <<"+", 1, Inf>>, <<"{n}", 2, 2>>, <<"{n,}", 1, Inf>>,
            <<"{n,m}", 1, 2>>, <<"{,m}", 0, 2>> }
OneFlag == {<<f>> : f \in Flags}

Ops ==
  {Q(q[1], q[2], q[3], lazy, a) : q \in QForms, lazy \in BOOLEAN, a \in Operands}
  \cup {Cat(<<a, b>>) : a \in Core, b \in Core}
  \cup {Alt(<<a, b>>) : a \in Core, b \in Core}
  \cup {Group(v, a) : v \in {"cap", "noncap", "named"}, a \in Core}
  \cup {FlagGroup(f, <<>>, a) : f \in OneFlag, a \in Core}
  \cup {FlagGroup(<<>>, f, a) : f \in OneFlag, a \in Core}
  \cup {Cat(<<a, SetFlags(f, <<>>), a>>) : f \in OneFlag, a \in Core}
  \cup {Cat(<<a, SetFlags(<<>>, f), a>>) : f \in OneFlag, a \in Core}
  \cup {Alt(<<Cat(<<SetFlags(f, <<>>), a>>), a>>) : f \in OneFlag, a \in Core}
  \cup {Cat(<<Group("cap", Cat(<<SetFlags(f, <<>>), a>>)), a>>) : f \in OneFlag, a \in Core}

(* extended-mode trivia: every comment text up to TxtLen characters over {a B space # |}           *)
TxtChars == {cLa, cUB, cSP, cHash, cPipe}
Texts == UNION {[1..n -> TxtChars] : n \in 0..TxtLen}
A_ == Char(cLa)   B_ == Char(cUB)
Trivia ==
  UNION { { Cat(<<A_, Ws(cSP), Cmt(t, TRUE), B_>>),                                  \* a #t NL B
            Cat(<<A_, Cmt(t, FALSE)>>),                                              \* a#t
            Cmt(t, FALSE),                                                           \* #t
            Cat(<<Cmt(t, TRUE), A_>>),                                               \* #t NL a
            Cat(<<Group("cap", Cat(<<A_, Cmt(t, TRUE)>>)), B_>>),                    \* (a#t NL)B
            Alt(<<Cat(<<A_, Cmt(t, TRUE)>>), B_>>),                                  \* a#t NL|B
            Cat(<<FlagGroup(<<"x">>, <<>>, Cat(<<A_, Ws(cSP), Cmt(t, TRUE), B_>>)), Char(cSP), Char(cHash)>>),
            Cat(<<SetFlags(<<"x">>, <<>>), A_, Ws(cSP), Cmt(t, TRUE), B_>>),         \* (?x)a #t NL B
            Cat(<<FlagGroup(<<>>, <<"x">>, Cat(<<A_, Char(cSP), Char(cHash)>>)), Ws(cSP), Cmt(t, TRUE), B_>>),
            Cat(<<A_, Cmt(t, TRUE), Q("*", 0, Inf, FALSE, B_), Ws(cNL), Cmt(t, TRUE)>>)
          } : t \in Texts }
  \cup { Cat(<<A_, Ws(cSP), Ws(cNL), B_>>), Cat(<<A_, Char(cSP), Ws(cSP), Char(cNL), Char(cHash), B_>>),
         Cat(<<Ws(cSP), Class(FALSE, <<Char(cSP), Char(cHash)>>), Ws(cNL)>>), Ws(cSP) }

CompOperands == { <<A_, {}>>, <<A_, {"i"}>>, <<Alt(<<A_, B_>>), {}>>, <<Dot, {"s"}>>, <<Dot, {}>>,
                  <<Cat(<<Anchor("^"), B_>>), {"m"}>>, <<Sh("w"), {"a"}>>,
                  <<Cat(<<A_, Ws(cSP), Cmt(<<cUB>>, FALSE)>>), {"x"}>>,
                  <<Cat(<<A_, Char(cSP)>>), {}>>, <<Q("*", 0, Inf, TRUE, A_), {"U"}>> }
Compose ==
  {Case(0, "plus", p[1], SeqOfFlags(p[2]), r[1], SeqOfFlags(r[2]), 0) : p \in CompOperands, r \in CompOperands}
  \cup {Case(0, "times", p[1], SeqOfFlags(p[2]), Z, <<>>, n) : p \in CompOperands, n \in 0..3}

FileCases == IF "file" \in Families THEN ndJsonDeserialize("cases.ndjson") ELSE <<>>

(* every tree of a family under every flag set; the combinations outside the domain (trivia     *)
(* without `x`) are discarded by the Skip action                                               *)
Crossed(res, fam) == {Lit(re, SeqOfFlags(fl)) : re \in res, fl \in FlagSets[fam]}
Cases == (IF "atoms" \in Families THEN Crossed(Atoms, "atoms") ELSE {})
         \cup (IF "ops" \in Families THEN Crossed(Ops, "ops") ELSE {})
         \cup (IF "trivia" \in Families THEN Crossed(Trivia, "trivia") ELSE {})
         \cup (IF "compose" \in Families THEN Compose ELSE {})
         \cup Range(FileCases)

-----------------------------------------------------------------------------
(* The state machine.                                                      *)
VARIABLES cs,    \* the case
          ph,    \* "new" | "done"
          acc    \* its acceptance vector once evaluated

vars == <<cs, ph, acc>>

Init == cs \in Cases /\ ph = "new" /\ acc = <<>>

Evaluate ==
  /\ ph = "new" /\ CaseOK(cs)
  /\ ph' = "done"
  /\ acc' = AccVector(cs)
  /\ cs' = cs
  /\ PrintT(<<"GEN", ToJson([id |-> cs.id, acc |-> acc', cs |-> IF cs.id = 0 THEN cs ELSE Z])>>)

Skip == ph = "new" /\ ~CaseOK(cs) /\ ph' = "skip" /\ UNCHANGED <<cs, acc>>

Next == Evaluate \/ Skip
Spec == Init /\ [][Next]_vars

-----------------------------------------------------------------------------
(* Properties checked by TLC on the specification itself.                  *)
InDomain == cs.id > 0 => CaseOK(cs)   \* every case the harness generated lies where the semantics is defined

(* `U` swaps greedy and lazy: it never changes WHICH strings are accepted  *)
WithU(c) == [c EXCEPT !.fl = SeqOfFlags(Range(c.fl) \cup {"U"}), !.fl2 = SeqOfFlags(Range(c.fl2) \cup {"U"})]
UngreedyIrrelevant == ph = "done" => acc = AccVector(WithU(cs))

(* r * 2 accepts what r + r accepts; r * 1 what r accepts (unanchored search)                 *)
RepeatIsConcat ==
  (ph = "done" /\ cs.op = "times" /\ cs.n = 2) =>
     acc = AccVector(Case(0, "plus", cs.re, cs.fl, cs.re, cs.fl, 0))
RepeatOnce == (ph = "done" /\ cs.op = "times" /\ cs.n = 1) => acc = AccVector(Lit(cs.re, cs.fl))

(* case conformance of a recorded implementation outcome (cases.ndjson field impl), used for  *)
(* the code -> spec direction: the harness runs the real code first and TLC is the judge      *)
ImplConforms == (ph = "done" /\ cs.impl[1] # "none") => Conforms(cs, cs.impl)

=============================================================================
