CONSTANTS
  MaxSteps <- MCMaxSteps
  Deviations <- MCDeviations
INIT Init
NEXT Next
INVARIANTS OncePerExit NeverMoreThanOnce NoStray
CHECK_DEADLOCK TRUE
