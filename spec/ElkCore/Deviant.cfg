CONSTANTS
  MaxSteps <- MCMaxSteps
  Deviations <- MCDeviations
INIT Init
NEXT Next
CHECK_DEADLOCK TRUE
