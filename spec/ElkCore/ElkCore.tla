------------------------------ MODULE ElkCore ------------------------------
(***************************************************************************)
(* Reference abstract machine of the Elk language core (properties C13,    *)
(* C14, C15, C32; corpus for C01, C09, C10, C12, C29, C33).                *)
(*                                                                         *)
(* Programs are data (JSON records read from progs.ndjson, produced by the *)
(* harness' bounded enumerators / seeded generators, or by ElkGen).  Init  *)
(* picks one program; Next is a small-step CEK machine with ONE reduction  *)
(* per action: statement dispatch, loop head, completion unwinding through *)
(* one continuation frame, defer execution, generator suspend/resume.      *)
(* Every terminal state emits a GEN record: the program id and the         *)
(* predicted observation (lines printed + outcome), which the harness      *)
(* compares with the real checker+compiler+VM run of the emitted Elk text. *)
(***************************************************************************)
EXTENDS Integers, Sequences, FiniteSets, TLC, Json

CONSTANT MaxSteps,         \* bound on machine steps per program (runaway guard)
         Deviations        \* names of KNOWN deviations of the implementation that the machine
                           \* should reproduce ({} = the reference semantics). Each deviation is a
                           \* named, guarded branch below; it exists so that a recorded known
                           \* finding is recognised exactly (real = deviating prediction) and any
                           \* other difference is still reported.

Progs == ndJsonDeserialize("progs.ndjson")

VARIABLES pi,      \* index of the program being executed
          ctrl,    \* control: block being run | completion | loop head | generator return
          kont,    \* continuation: sequence of frames, Head = innermost
          env,     \* current environment: sequence of <<name, cell>>, later entries shadow
          cells,   \* the heap of variable cells (closures capture CELLS, not values)
          clos,    \* closure table: [params, body, env]
          gens,    \* generator table: [st, kont, ctrl, env, fn]
          out,     \* lines printed so far
          steps,   \* step counter
          stat     \* bookkeeping for the once-per-exit properties

vars == <<pi, ctrl, kont, env, cells, clos, gens, out, steps, stat>>

Prog == Progs[pi]

-----------------------------------------------------------------------------
(* Values: uniform records [t, v] so that any two values can be compared.  *)
IntV(n)  == [t |-> "int",  v |-> n]
NilV     == [t |-> "nil",  v |-> 0]
SymV(i)  == [t |-> "sym",  v |-> i]
BoolV(b) == [t |-> "bool", v |-> IF b THEN 1 ELSE 0]
CloV(i)  == [t |-> "clo",  v |-> i]
GenV(i)  == [t |-> "gen",  v |-> i]

SymNames == <<"a", "b", "c", "stop_iteration">>
StopIteration == SymV(4)

Truthy(x) == ~(x.t = "nil" \/ (x.t = "bool" /\ x.v = 0))

Inspect(x) == CASE x.t = "int"  -> ToString(x.v)
                [] x.t = "nil"  -> "nil"
                [] x.t = "sym"  -> ":" \o SymNames[x.v]
                [] x.t = "bool" -> IF x.v = 1 THEN "true" ELSE "false"
                [] OTHER        -> "<" \o x.t \o ">"

RECURSIVE LookupFrom(_, _, _)
LookupFrom(en, n, i) == IF i = 0 THEN 0
                        ELSE IF en[i][1] = n THEN en[i][2] ELSE LookupFrom(en, n, i - 1)
Lookup(en, n) == LookupFrom(en, n, Len(en))

BinOp(op, a, b) ==
  CASE op = "+"  -> IntV(a.v + b.v)
    [] op = "-"  -> IntV(a.v - b.v)
    [] op = "*"  -> IntV(a.v * b.v)
    [] op = "%"  -> IntV(a.v % b.v)     \* generators use it on non-negative operands only (keeps values inside TLC's 32 bits)
    [] op = "<"  -> BoolV(a.v < b.v)
    [] op = "<=" -> BoolV(a.v <= b.v)
    [] op = ">"  -> BoolV(a.v > b.v)
    [] op = ">=" -> BoolV(a.v >= b.v)
    [] op = "==" -> BoolV(a = b)
    [] op = "!=" -> BoolV(a # b)

(* Expressions are evaluated by a recursive operator; they have no effect on *)
(* the heap but may print (the "pr" form is the observation probe p(id, e)), *)
(* so evaluation returns the value and the lines printed, in order.  && ||   *)
(* and ?? evaluate their right operand only when needed.                     *)
R(val, o) == [v |-> val, o |-> o]
RECURSIVE Ev(_, _, _)
Ev(e, en, cs) ==
  CASE e.k = "int"   -> R(IntV(e.v), <<>>)
    [] e.k = "nil"   -> R(NilV, <<>>)
    [] e.k = "sym"   -> R(SymV(e.v), <<>>)
    [] e.k = "true"  -> R(BoolV(TRUE), <<>>)
    [] e.k = "false" -> R(BoolV(FALSE), <<>>)
    [] e.k = "var"   -> R(cs[Lookup(en, e.n)], <<>>)
    [] e.k = "bin"   -> LET a == Ev(e.a, en, cs) b == Ev(e.b, en, cs)
                        IN R(BinOp(e.op, a.v, b.v), a.o \o b.o)
    [] e.k = "not"   -> LET a == Ev(e.a, en, cs) IN R(BoolV(~Truthy(a.v)), a.o)
    [] e.k = "paren" -> Ev(e.a, en, cs)      \* redundant parentheses mean nothing (C12)
    [] e.k = "and"   -> LET a == Ev(e.a, en, cs)
                        IN IF Truthy(a.v) THEN LET b == Ev(e.b, en, cs) IN R(b.v, a.o \o b.o) ELSE a
    [] e.k = "or"    -> LET a == Ev(e.a, en, cs)
                        IN IF Truthy(a.v) THEN a ELSE LET b == Ev(e.b, en, cs) IN R(b.v, a.o \o b.o)
    [] e.k = "nilc"  -> LET a == Ev(e.a, en, cs)
                        IN IF a.v.t # "nil" THEN a ELSE LET b == Ev(e.b, en, cs) IN R(b.v, a.o \o b.o)
    [] e.k = "pr"    -> LET a == Ev(e.a, en, cs)
                        IN R(a.v, a.o \o <<"p" \o ToString(e.id) \o "=" \o Inspect(a.v)>>)

RECURSIVE EvArgs(_, _, _, _)
EvArgs(es, en, cs, i) == IF i > Len(es) THEN [vs |-> <<>>, o |-> <<>>]
                         ELSE LET a == Ev(es[i], en, cs) r == EvArgs(es, en, cs, i + 1)
                              IN [vs |-> <<a.v>> \o r.vs, o |-> a.o \o r.o]

-----------------------------------------------------------------------------
(* Completions *)
Normal(x)     == [c |-> "normal", v |-> x]
Break(l, x)   == [c |-> "break", l |-> l, v |-> x]
Cont(l)       == [c |-> "cont", l |-> l, v |-> NilV]
Ret(x)        == [c |-> "ret", v |-> x]
Throw(x, tr)  == [c |-> "throw", v |-> x, tr |-> tr]

Run(s)  == [t |-> "run", s |-> s]
Comp(c) == [t |-> "comp", c |-> c]
LoopHead == [t |-> "loophead"]

Top == Head(kont)
SeqK(rest) == [f |-> "seq", rest |-> rest, env |-> env]

(* index of the innermost call frame (always exists: main is a call) *)
RECURSIVE CallIdxFrom(_, _)
CallIdxFrom(k, i) == IF k[i].f = "call" THEN i ELSE CallIdxFrom(k, i + 1)
CallIdx == CallIdxFrom(kont, 1)

(* the stack trace at a throw in statement s: outermost frame first, each  *)
(* with the function name and the line of its active call site / throw     *)
RECURSIVE TraceFrom(_, _, _)
TraceFrom(k, i, ln) ==
  IF i > Len(k) THEN <<>>
  ELSE IF k[i].f = "call"
       THEN TraceFrom(k, i + 1, k[i].ln) \o <<[fn |-> k[i].fn, ln |-> ln, gen |-> k[i].gen # 0]>>
       ELSE TraceFrom(k, i + 1, ln)
\* DEVIATION "generator_frames_missing_in_trace": an error thrown while a generator runs reports only
\* the frames up to the caller of `next`; the generator's own frame and everything it called are lost
RECURSIVE UpToGenerator(_, _)
UpToGenerator(tr, i) == IF i > Len(tr) \/ tr[i].gen THEN <<>> ELSE <<tr[i]>> \o UpToGenerator(tr, i + 1)
TraceAt(ln) == LET full == TraceFrom(kont, 1, ln)
               IN IF "generator_frames_missing_in_trace" \in Deviations THEN UpToGenerator(full, 1) ELSE full

BindParams(params, vals, en, cs) ==
  [env |-> en \o [i \in 1..Len(params) |-> <<params[i], Len(cs) + i>>],
   cells |-> cs \o vals]

Running == ctrl.t # "done" /\ steps < MaxSteps

-----------------------------------------------------------------------------
Init == /\ pi \in 1..Len(Progs)
        /\ ctrl = Run(Progs[pi].defs["main_"].body)
        /\ kont = <<[f |-> "call", fn |-> "main_", dst |-> "", decl |-> FALSE, env |-> <<>>, defers |-> <<>>, ln |-> 0, gen |-> 0, tailret |-> FALSE]>>
        /\ env = <<>> /\ cells = <<>> /\ clos = <<>> /\ gens = <<>> /\ out = <<>> /\ steps = 0
        /\ stat = [finReg |-> 0, finRun |-> 0, defReg |-> 0, defRun |-> 0]

Tick == steps' = steps + 1

(* --- simple statements: no frame is pushed --------------------------------*)
StepSimple ==
  /\ Running /\ ctrl.t = "run" /\ ctrl.s # <<>>
  /\ LET s == Head(ctrl.s) rest == Tail(ctrl.s) IN
     /\ s.k \in {"print", "let", "set", "expr"}
     /\ LET r == Ev(s.e, env, cells) IN
        CASE s.k = "print" -> /\ out' = out \o r.o \o <<Inspect(r.v)>> /\ UNCHANGED <<env, cells>>
          [] s.k = "expr"  -> /\ out' = out \o r.o /\ UNCHANGED <<env, cells>>
          [] s.k = "let"   -> /\ out' = out \o r.o
                              /\ cells' = Append(cells, r.v)
                              /\ env' = Append(env, <<s.n, Len(cells) + 1>>)
          [] s.k = "set"   -> /\ out' = out \o r.o
                              /\ cells' = [cells EXCEPT ![Lookup(env, s.n)] = r.v]
                              /\ UNCHANGED env
     /\ ctrl' = Run(rest)
  /\ Tick /\ UNCHANGED <<pi, kont, clos, gens, stat>>

(* `defer e`: registers e (with the current environment: it sees later     *)
(* updates of the variables) on the innermost call; runs at its exit, LIFO *)
StepDefer ==
  /\ Running /\ ctrl.t = "run" /\ ctrl.s # <<>> /\ Head(ctrl.s).k = "defer"
  /\ LET s == Head(ctrl.s) ci == CallIdx IN
     /\ kont' = [kont EXCEPT ![ci].defers = <<[e |-> s.e, env |-> env]>> \o @]
     /\ ctrl' = Run(Tail(ctrl.s))
  /\ stat' = [stat EXCEPT !.defReg = @ + 1]
  /\ Tick /\ UNCHANGED <<pi, env, cells, clos, gens, out>>

(* closure literal: captures the cells of the current environment *)
StepLam ==
  /\ Running /\ ctrl.t = "run" /\ ctrl.s # <<>> /\ Head(ctrl.s).k = "lam"
  /\ LET s == Head(ctrl.s) IN
     /\ clos' = Append(clos, [params |-> s.params, body |-> s.body, env |-> env, fn |-> s.fn])
     /\ cells' = Append(cells, CloV(Len(clos) + 1))
     /\ env' = Append(env, <<s.n, Len(cells) + 1>>)
     /\ ctrl' = Run(Tail(ctrl.s))
  /\ Tick /\ UNCHANGED <<pi, kont, gens, out, stat>>

(* break / continue / return / throw become completions *)
StepJump ==
  /\ Running /\ ctrl.t = "run" /\ ctrl.s # <<>>
  /\ LET s == Head(ctrl.s) IN
     /\ s.k \in {"break", "continue", "return", "throw"}
     /\ CASE s.k = "break"    -> LET r == Ev(s.e, env, cells) IN
                                 /\ ctrl' = Comp(Break(s.l, r.v)) /\ out' = out \o r.o
            [] s.k = "continue" -> /\ ctrl' = Comp(Cont(s.l)) /\ UNCHANGED out
            [] s.k = "return"   -> LET r == Ev(s.e, env, cells) IN
                                 /\ ctrl' = Comp(Ret(r.v)) /\ out' = out \o r.o
            [] s.k = "throw"    -> LET r == Ev(s.e, env, cells) IN
                                 /\ ctrl' = Comp(Throw(r.v, TraceAt(s.ln))) /\ out' = out \o r.o
  /\ Tick /\ UNCHANGED <<pi, kont, env, cells, clos, gens, stat>>

StepIf ==
  /\ Running /\ ctrl.t = "run" /\ ctrl.s # <<>> /\ Head(ctrl.s).k = "if"
  /\ LET s == Head(ctrl.s) r == Ev(s.c, env, cells) IN
     /\ out' = out \o r.o
     /\ kont' = <<SeqK(Tail(ctrl.s))>> \o kont
     /\ ctrl' = Run(IF Truthy(r.v) THEN s.a ELSE s.b)
  /\ Tick /\ UNCHANGED <<pi, env, cells, clos, gens, stat>>

(* loops: kinds loop | while | until | forin (list of expressions, fresh    *)
(* variable per iteration) | fornum (init; cond; step)                      *)
StepLoop ==
  /\ Running /\ ctrl.t = "run" /\ ctrl.s # <<>> /\ Head(ctrl.s).k = "loop"
  /\ LET s == Head(ctrl.s) IN
     IF s.kind = "forin"
     THEN LET r == EvArgs(s.items, env, cells, 1) IN
          /\ out' = out \o r.o
          /\ kont' = <<[f |-> "loop", st |-> s, i |-> 0, items |-> r.vs, env |-> env], SeqK(Tail(ctrl.s))>> \o kont
          /\ UNCHANGED <<env, cells>>
     ELSE IF s.kind = "fornum"
     THEN LET r == Ev(s.init, env, cells) IN
          /\ out' = out \o r.o
          /\ cells' = Append(cells, r.v)
          /\ env' = Append(env, <<s.var, Len(cells) + 1>>)
          /\ kont' = <<[f |-> "loop", st |-> s, i |-> 0, items |-> <<>>, env |-> env'], SeqK(Tail(ctrl.s))>> \o kont
     ELSE /\ kont' = <<[f |-> "loop", st |-> s, i |-> 0, items |-> <<>>, env |-> env], SeqK(Tail(ctrl.s))>> \o kont
          /\ UNCHANGED <<out, env, cells>>
  /\ ctrl' = LoopHead
  /\ Tick /\ UNCHANGED <<pi, clos, gens, stat>>

LoopStep ==
  /\ Running /\ ctrl.t = "loophead"
  /\ LET f == Top s == f.st IN
     CASE s.kind = "loop" ->
            /\ ctrl' = Run(s.body) /\ env' = f.env /\ UNCHANGED <<kont, out, cells>>
       [] s.kind \in {"while", "until"} ->
            LET r == Ev(s.c, f.env, cells) go == IF s.kind = "while" THEN Truthy(r.v) ELSE ~Truthy(r.v) IN
            /\ out' = out \o r.o /\ env' = f.env /\ UNCHANGED cells
            /\ IF go THEN ctrl' = Run(s.body) /\ UNCHANGED kont
                     ELSE ctrl' = Comp(Normal(NilV)) /\ kont' = Tail(kont)
       [] s.kind = "forin" ->
            \* DEVIATION "forin_list_shares_variable": iterating a list re-uses ONE variable for all
            \* iterations (closures created in different iterations see the last element)
            IF f.i < Len(f.items) /\ "forin_list_shares_variable" \in Deviations /\ f.i > 0
            THEN /\ cells' = [cells EXCEPT ![Lookup(env, s.var)] = f.items[f.i + 1]]
                 /\ env' = [j \in 1..(Len(f.env) + 1) |-> IF j <= Len(f.env) THEN f.env[j] ELSE <<s.var, Lookup(env, s.var)>>]
                 /\ kont' = <<[f EXCEPT !.i = @ + 1]>> \o Tail(kont)
                 /\ ctrl' = Run(s.body) /\ UNCHANGED out
            ELSE IF f.i < Len(f.items)
            THEN /\ cells' = Append(cells, f.items[f.i + 1])
                 /\ env' = Append(f.env, <<s.var, Len(cells) + 1>>)
                 /\ kont' = <<[f EXCEPT !.i = @ + 1]>> \o Tail(kont)
                 /\ ctrl' = Run(s.body) /\ UNCHANGED out
            ELSE /\ ctrl' = Comp(Normal(NilV)) /\ kont' = Tail(kont) /\ env' = f.env /\ UNCHANGED <<out, cells>>
       [] s.kind = "fornum" ->
            (* every iteration works on a fresh copy of the loop variable, the    *)
            (* step is applied to the copy the body used (closures keep theirs)   *)
            LET cur  == cells[Lookup(f.env, s.var)]
                r0   == IF f.i = 0 THEN R(cur, <<>>) ELSE Ev(s.step, f.env, cells)
                cs1  == Append(cells, r0.v)
                en1  == Append(f.env, <<s.var, Len(cells) + 1>>)
                r    == Ev(s.c, en1, cs1) IN
            /\ out' = out \o r0.o \o r.o
            /\ cells' = cs1
            /\ IF Truthy(r.v)
               THEN /\ env' = en1 /\ ctrl' = Run(s.body)
                    /\ kont' = <<[f EXCEPT !.i = @ + 1, !.env = en1]>> \o Tail(kont)
               ELSE /\ env' = f.env /\ ctrl' = Comp(Normal(NilV)) /\ kont' = Tail(kont)
  /\ Tick /\ UNCHANGED <<pi, clos, gens, stat>>

StepTry ==
  /\ Running /\ ctrl.t = "run" /\ ctrl.s # <<>> /\ Head(ctrl.s).k = "try"
  /\ LET s == Head(ctrl.s) IN
     /\ kont' = <<[f |-> "try", st |-> s, env |-> env], SeqK(Tail(ctrl.s))>> \o kont
     /\ ctrl' = Run(s.body)
     /\ stat' = [stat EXCEPT !.finReg = @ + (IF s.hasfin THEN 1 ELSE 0)]
  /\ Tick /\ UNCHANGED <<pi, env, cells, clos, gens, out>>

(* method call `dst = f(args)` and closure call `dst = c.(args)` *)
StepCall ==
  /\ Running /\ ctrl.t = "run" /\ ctrl.s # <<>> /\ Head(ctrl.s).k \in {"call", "callc", "acall"}
  /\ LET s == Head(ctrl.s)
         r == EvArgs(s.args, env, cells, 1)
         \* "acall" is `dst = f(args).await_sync` on an async method: the awaited value or error of the
         \* body is the value or error of the plain call (C15); scheduling is the business of spec/Async
         isM == s.k \in {"call", "acall"}
         cl == IF isM THEN [params |-> <<>>, body |-> <<>>, env |-> <<>>, fn |-> ""] ELSE clos[cells[Lookup(env, s.c)].v]
         d == IF isM THEN Prog.defs[s.f] ELSE cl
         b == BindParams(d.params, r.vs, IF isM THEN <<>> ELSE cl.env, cells)
     IN /\ out' = out \o r.o
        /\ kont' = <<[f |-> "call", fn |-> (IF isM THEN s.f ELSE cl.fn), dst |-> s.dst, decl |-> s.decl, env |-> env, defers |-> <<>>, ln |-> s.ln, gen |-> 0, tailret |-> FALSE],
                     SeqK(Tail(ctrl.s))>> \o kont
        /\ env' = b.env /\ cells' = b.cells
        /\ ctrl' = Run(d.body)
  /\ Tick /\ UNCHANGED <<pi, clos, gens, stat>>

(* `return f(args)`: a call in tail position. Its meaning is "call, then return the result"; the  *)
(* implementation re-uses the caller's frame (tail-call optimisation), which must not be visible.  *)
(* DEVIATION "tail_call_skips_defers": the defers registered by the caller are dropped.           *)
StepTailCall ==
  /\ Running /\ ctrl.t = "run" /\ ctrl.s # <<>> /\ Head(ctrl.s).k = "tcall"
  /\ LET s == Head(ctrl.s)
         r == EvArgs(s.args, env, cells, 1)
         d == Prog.defs[s.f]
         b == BindParams(d.params, r.vs, <<>>, cells)
         ci == CallIdx
         k0 == IF "tail_call_skips_defers" \in Deviations THEN [kont EXCEPT ![ci].defers = <<>>] ELSE kont
     IN /\ out' = out \o r.o
        /\ kont' = <<[f |-> "call", fn |-> s.f, dst |-> "", decl |-> FALSE, env |-> env, defers |-> <<>>, ln |-> s.ln, gen |-> 0, tailret |-> TRUE],
                     SeqK(<<>>)>> \o k0
        /\ env' = b.env /\ cells' = b.cells
        /\ ctrl' = Run(d.body)
  /\ Tick /\ UNCHANGED <<pi, clos, gens, stat>>

BlockEnd ==
  /\ Running /\ ctrl.t = "run" /\ ctrl.s = <<>>
  /\ ctrl' = Comp(Normal(NilV))
  /\ Tick /\ UNCHANGED <<pi, kont, env, cells, clos, gens, out, stat>>

-----------------------------------------------------------------------------
(* Unwinding: the completion in ctrl meets the innermost frame *)
AtComp(kind) == Running /\ ctrl.t = "comp" /\ kont # <<>> /\ Top.f = kind

UnwindSeq ==
  /\ AtComp("seq")
  /\ kont' = Tail(kont) /\ env' = Top.env
  /\ ctrl' = IF ctrl.c.c = "normal" THEN Run(Top.rest) ELSE ctrl
  /\ Tick /\ UNCHANGED <<pi, cells, clos, gens, out, stat>>

LoopMatches(f, c) == c.l = "" \/ c.l = f.st.label

UnwindLoop ==
  /\ AtComp("loop")
  /\ LET c == ctrl.c f == Top IN
     IF c.c = "normal" \/ (c.c = "cont" /\ LoopMatches(f, c))
     THEN /\ ctrl' = LoopHead /\ UNCHANGED <<kont, env, cells>>
     ELSE IF c.c = "break" /\ LoopMatches(f, c)
     THEN /\ kont' = Tail(kont) /\ env' = f.env
          /\ IF f.st.dst # ""
             THEN cells' = [cells EXCEPT ![Lookup(f.env, f.st.dst)] = c.v]
             ELSE UNCHANGED cells
          /\ ctrl' = Comp(Normal(c.v))
     ELSE /\ kont' = Tail(kont) /\ env' = f.env /\ UNCHANGED <<ctrl, cells>>
  /\ Tick /\ UNCHANGED <<pi, clos, gens, out, stat>>

(* first catch clause whose pattern matches the thrown value (0 = none);   *)
(* pattern: [kind |-> "sym", v |-> i] literal symbol | [kind |-> "any"] binding *)
CatchMatches(p, x) == p.kind = "any" \/ (p.kind = "sym" /\ x = SymV(p.v))
RECURSIVE FirstCatch(_, _, _)
FirstCatch(cs, x, i) == IF i > Len(cs) THEN 0
                        ELSE IF CatchMatches(cs[i].pat, x) THEN i ELSE FirstCatch(cs, x, i + 1)

GenRetSkips == /\ "generator_completion_skips_finally" \in Deviations
               /\ ctrl.c.c = "ret" /\ kont[CallIdx].gen # 0

EnterFinally(s, fenv, pend) ==
  /\ kont' = <<[f |-> "fin", pend |-> pend, env |-> fenv]>> \o Tail(kont)
  /\ ctrl' = Run(s.fin)
  /\ stat' = [stat EXCEPT !.finRun = @ + 1]

UnwindTry ==
  /\ AtComp("try")
  /\ LET c == ctrl.c f == Top s == f.st
         ci == IF c.c = "throw" THEN FirstCatch(s.catches, c.v, 1) ELSE 0 IN
     IF ci # 0
     THEN LET cc == s.catches[ci] IN
          /\ kont' = <<[f |-> "catch", st |-> s, env |-> f.env]>> \o Tail(kont)
          /\ IF cc.pat.kind = "any"
             THEN /\ cells' = Append(cells, c.v) /\ env' = Append(f.env, <<cc.pat.n, Len(cells) + 1>>)
             ELSE /\ env' = f.env /\ UNCHANGED cells
          /\ ctrl' = Run(cc.body) /\ UNCHANGED stat
     ELSE IF s.hasfin /\ ~GenRetSkips
     THEN /\ EnterFinally(s, f.env, c) /\ env' = f.env /\ UNCHANGED cells
     ELSE /\ kont' = Tail(kont) /\ env' = f.env /\ UNCHANGED <<ctrl, cells, stat>>
  /\ Tick /\ UNCHANGED <<pi, clos, gens, out>>

UnwindCatch ==
  /\ AtComp("catch")
  /\ LET c == ctrl.c f == Top s == f.st
         \* DEVIATION "catch_abrupt_skips_finally": the compiler protects only the body of a
         \* do-expression with its finally entry, so a handler that exits abruptly skips it
         skip == "catch_abrupt_skips_finally" \in Deviations /\ c.c # "normal" IN
     IF s.hasfin /\ ~skip /\ ~GenRetSkips
     THEN /\ EnterFinally(s, f.env, c) /\ env' = f.env
     ELSE /\ kont' = Tail(kont) /\ env' = f.env /\ UNCHANGED <<ctrl, stat>>
  /\ Tick /\ UNCHANGED <<pi, cells, clos, gens, out>>

(* a finally block that completes normally resumes the pending completion; *)
(* an abrupt completion of the finally block replaces it                   *)
UnwindFin ==
  /\ AtComp("fin")
  /\ kont' = Tail(kont) /\ env' = Top.env
  /\ ctrl' = IF ctrl.c.c = "normal" THEN Comp(Top.pend) ELSE ctrl
  /\ Tick /\ UNCHANGED <<pi, cells, clos, gens, out, stat>>

(* a completion reaches the call frame: run the registered defers (LIFO),  *)
(* one per step, then deliver the result to the caller                     *)
\* DEVIATION "generator_completion_skips_finally": the final value of a generator body (its last
\* expression or an explicit `return`) is handed out by a YIELD, not by a RETURN, so neither the
\* enclosing `finally` blocks nor the `finally` that runs the registered defers are entered (they
\* are when the body throws)
SkipGenDefers == /\ "generator_completion_skips_finally" \in Deviations
                 /\ Top.gen # 0 /\ ctrl.c.c \in {"normal", "ret"}

RunDefer ==
  /\ AtComp("call") /\ Top.defers # <<>> /\ ~SkipGenDefers
  /\ LET d == Head(Top.defers) r == Ev(d.e, d.env, cells) IN
     /\ out' = out \o r.o
     /\ kont' = <<[Top EXCEPT !.defers = Tail(@)]>> \o Tail(kont)
  /\ stat' = [stat EXCEPT !.defRun = @ + 1]
  /\ Tick /\ UNCHANGED <<pi, ctrl, env, cells, clos, gens>>

(* the caller receives the result in dst: an existing variable, or (decl) a new one.  rest is  *)
(* the continuation below the call frame; its head is the seq frame of the call statement,    *)
(* which must keep a variable the call declared                                               *)
Deliver(f, x, rest) ==
  /\ IF f.dst = "" THEN env' = f.env /\ UNCHANGED cells
     ELSE IF f.decl THEN /\ cells' = Append(cells, x) /\ env' = Append(f.env, <<f.dst, Len(cells) + 1>>)
     ELSE /\ cells' = [cells EXCEPT ![Lookup(f.env, f.dst)] = x] /\ env' = f.env
  /\ kont' = IF rest # <<>> /\ Head(rest).f = "seq"
             THEN <<[Head(rest) EXCEPT !.env = env']>> \o Tail(rest) ELSE rest

(* result of a function body: explicit return value, or the value of the   *)
(* last statement (nil for statements)                                     *)
UnwindCall ==
  /\ AtComp("call") /\ Top.defers = <<>> /\ Len(kont) > 1 /\ Top.gen = 0
  /\ LET c == ctrl.c f == Top IN
     /\ IF c.c \in {"normal", "ret"}
        THEN /\ ctrl' = IF f.tailret THEN Comp(Ret(c.v)) ELSE Comp(Normal(NilV))
             /\ Deliver(f, c.v, Tail(kont))
        ELSE /\ kont' = Tail(kont) /\ env' = f.env /\ UNCHANGED <<ctrl, cells>>     \* throw propagates (break/continue cannot cross a call)
  /\ Tick /\ UNCHANGED <<pi, clos, gens, out, stat>>

-----------------------------------------------------------------------------
(* Generators.  `dst = g(args)` on a generator method creates a generator  *)
(* object; `dst = x.next` resumes it until the next yield, the final value *)
(* of the body is the last value produced, afterwards :stop_iteration is   *)
(* thrown forever.                                                         *)
StepGenCreate ==
  /\ Running /\ ctrl.t = "run" /\ ctrl.s # <<>> /\ Head(ctrl.s).k = "gen"
  /\ LET s == Head(ctrl.s) d == Prog.defs[s.f]
         r == EvArgs(s.args, env, cells, 1)
         b == BindParams(d.params, r.vs, <<>>, cells) IN
     /\ out' = out \o r.o
     /\ gens' = Append(gens, [st |-> "susp", ctrl |-> Run(d.body), env |-> b.env, fn |-> s.f,
                              kont |-> <<>>, defers |-> <<>>])
     /\ cells' = Append(b.cells, GenV(Len(gens) + 1))
     /\ env' = Append(env, <<s.dst, Len(b.cells) + 1>>)
     /\ ctrl' = Run(Tail(ctrl.s))
  /\ Tick /\ UNCHANGED <<pi, kont, clos, stat>>

StepGenNext ==
  /\ Running /\ ctrl.t = "run" /\ ctrl.s # <<>> /\ Head(ctrl.s).k = "next"
  /\ LET s == Head(ctrl.s) gi == cells[Lookup(env, s.g)].v g == gens[gi] IN
     IF g.st = "susp"
     THEN /\ kont' = g.kont \o <<[f |-> "call", fn |-> g.fn, dst |-> s.dst, decl |-> s.decl, env |-> env, defers |-> g.defers, ln |-> s.ln, gen |-> gi, tailret |-> FALSE],
                                 SeqK(Tail(ctrl.s))>> \o kont
          /\ ctrl' = g.ctrl /\ env' = g.env
          /\ gens' = [gens EXCEPT ![gi].st = "run"]
     ELSE \* finished (or failed) generator: stop_iteration, forever
          /\ ctrl' = Comp(Throw(StopIteration, TraceAt(s.ln)))
          /\ kont' = <<SeqK(Tail(ctrl.s))>> \o kont
          /\ UNCHANGED <<env, gens>>
  /\ Tick /\ UNCHANGED <<pi, cells, clos, out, stat>>

(* `for v in f(args)` over a generator method is sugar: the program carries its expansion      *)
(* (create the generator, loop: next into v, stop_iteration ends the loop, body), which is what *)
(* the machine executes, while the emitter prints the sugared form                              *)
StepForGen ==
  /\ Running /\ ctrl.t = "run" /\ ctrl.s # <<>> /\ Head(ctrl.s).k = "forgen"
  /\ ctrl' = Run(Head(ctrl.s).desugared \o Tail(ctrl.s))
  /\ Tick /\ UNCHANGED <<pi, kont, env, cells, clos, gens, out, stat>>

(* yield: save the frames above the generator's call frame, deliver value *)
StepYield ==
  /\ Running /\ ctrl.t = "run" /\ ctrl.s # <<>> /\ Head(ctrl.s).k = "yield"
  /\ LET s == Head(ctrl.s) ci == CallIdx f == kont[ci] r == Ev(s.e, env, cells) IN
     /\ f.gen # 0
     /\ out' = out \o r.o
     /\ gens' = [gens EXCEPT ![f.gen] = [@ EXCEPT !.st = "susp", !.ctrl = Run(Tail(ctrl.s)), !.env = env,
                                                  !.kont = SubSeq(kont, 1, ci - 1), !.defers = f.defers]]
     /\ Deliver(f, r.v, SubSeq(kont, ci + 1, Len(kont)))
     /\ ctrl' = Comp(Normal(NilV))
  /\ Tick /\ UNCHANGED <<pi, clos, stat>>

(* the generator body finished: its result is the last value; an error     *)
(* propagates to the caller of next; either way the generator is done      *)
UnwindGenCall ==
  /\ AtComp("call") /\ (Top.defers = <<>> \/ SkipGenDefers) /\ Top.gen # 0
  /\ LET c == ctrl.c f == Top IN
     /\ gens' = [gens EXCEPT ![f.gen].st = "done"]
     /\ IF c.c \in {"normal", "ret"}
        THEN /\ ctrl' = Comp(Normal(NilV))
             /\ Deliver(f, c.v, Tail(kont))
        ELSE /\ kont' = Tail(kont) /\ env' = f.env /\ UNCHANGED <<ctrl, cells>>
  /\ Tick /\ UNCHANGED <<pi, clos, out, stat>>

-----------------------------------------------------------------------------
Obs(outcome) == [id |-> Prog.id, out |-> out, outcome |-> outcome, steps |-> steps]

RECURSIVE TraceLines(_, _)
TraceLines(tr, i) == IF i > Len(tr) THEN <<>>
                     ELSE <<tr[i].fn \o ":" \o ToString(tr[i].ln)>> \o TraceLines(tr, i + 1)

(* main's call frame is the last one: the program is over *)
Finish ==
  /\ AtComp("call") /\ Top.defers = <<>> /\ Len(kont) = 1
  /\ LET c == ctrl.c
         oc == IF c.c \in {"normal", "ret"} THEN [k |-> "ret", v |-> Inspect(c.v), trace |-> <<>>]
               ELSE IF c.c = "throw" THEN [k |-> "thrown", v |-> Inspect(c.v), trace |-> TraceLines(c.tr, 1)]
               ELSE [k |-> "stray_" \o c.c, v |-> "", trace |-> <<>>] IN
     /\ PrintT(<<"GEN", ToJson(Obs(oc))>>)
  /\ ctrl' = [t |-> "done"] /\ kont' = <<>>
  /\ Tick /\ UNCHANGED <<pi, env, cells, clos, gens, out, stat>>

(* runaway guard: reported as such, the harness treats it as out of domain *)
GiveUp ==
  /\ ctrl.t # "done" /\ steps >= MaxSteps
  /\ PrintT(<<"GEN", ToJson(Obs([k |-> "maxsteps", v |-> "", trace |-> <<>>]))>>)
  /\ ctrl' = [t |-> "done"] /\ kont' = <<>>
  /\ UNCHANGED <<pi, env, cells, clos, gens, out, steps, stat>>

Done == ctrl.t = "done" /\ UNCHANGED vars

Next == \/ StepSimple \/ StepDefer \/ StepLam \/ StepJump \/ StepIf \/ StepLoop \/ LoopStep
        \/ StepTry \/ StepCall \/ StepTailCall \/ BlockEnd
        \/ UnwindSeq \/ UnwindLoop \/ UnwindTry \/ UnwindCatch \/ UnwindFin
        \/ RunDefer \/ UnwindCall
        \/ StepGenCreate \/ StepGenNext \/ StepForGen \/ StepYield \/ UnwindGenCall
        \/ Finish \/ GiveUp \/ Done

Spec == Init /\ [][Next]_vars

-----------------------------------------------------------------------------
(* Properties of the reference semantics itself (C14): they validate the   *)
(* machine before it is used as the oracle.                                *)

(* every finally region entered is run exactly once by the time the program *)
(* ends; every registered defer of a finished call has run                  *)
Finished == ctrl.t = "done" /\ steps < MaxSteps
OncePerExit == Finished /\ gens = <<>> => (stat.finRun = stat.finReg /\ stat.defRun = stat.defReg)
NeverMoreThanOnce == stat.finRun <= stat.finReg /\ stat.defRun <= stat.defReg

(* the machine never gets stuck: checked by TLC's deadlock detection (Done stutters) *)

(* a break/continue never escapes its function (the generators are scope-aware) *)
NoStray == ctrl.t = "comp" /\ kont # <<>> /\ Top.f = "call" => ctrl.c.c \notin {"break", "cont"}

(* finally blocks are entered innermost first: a fin frame is never below a try frame
   that was entered later -- structural, follows from the stack discipline: checked as
   "frames of one function are properly nested" *)
View == <<pi, ctrl, kont, env, cells, clos, gens, out, steps>>
=============================================================================
