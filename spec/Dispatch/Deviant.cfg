SPECIFICATION Spec
CONSTANTS
  N = 3
  Deviations = {"static_binding_through_generic_parent"}
INVARIANTS PathIndependent
CHECK_DEADLOCK FALSE
