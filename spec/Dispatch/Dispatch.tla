------------------------------ MODULE Dispatch ------------------------------
(***************************************************************************)
(* Method dispatch over a class hierarchy (C08: the result of a call does  *)
(* not depend on the evaluation path the compiler chose).                  *)
(*                                                                         *)
(* The compiler may bind a call statically when the static type of the     *)
(* receiver determines the method (compileCallMethod ->                    *)
(* compileOptimisedCallMethod), otherwise the VM resolves it at run time   *)
(* (CALL_METHOD, call through an interface, `self.m`, `recv.+(x)`).  The   *)
(* reference semantics is single dynamic dispatch: the method that runs is *)
(* the one owned by the nearest ancestor-or-self of the RUNTIME class.     *)
(* One state per hierarchy; the Next step prints the hierarchy and the     *)
(* owner of every (runtime class, method) as a GEN record, which           *)
(* prop/c08/dispatch.go renders as an Elk program that performs the call   *)
(* through every call form and every admissible static receiver type.      *)
(***************************************************************************)
EXTENDS Integers, Sequences, FiniteSets, TLC, Json

CONSTANTS N,           \* number of classes; class 1 is the root, parent[c] < c
          Deviations   \* {} = the reference; "static_binding_through_generic_parent": negative control
                       \* (seeded change C08-1: a receiver typed as an instantiated generic class is bound
                       \* statically although the class has subclasses)

Classes == 1..N
Methods == {"describe", "plus"}
Forms   == {"typed", "byname", "interface", "self"}

VARIABLES parent, defs, generic, done
vars == <<parent, defs, generic, done>>

Hier    == {p \in [Classes -> 0..N] : p[1] = 0 /\ \A c \in 2..N : p[c] \in 1..(c - 1)}
DefSets == {d \in [Classes -> SUBSET Methods] : d[1] = Methods}

RECURSIVE Anc(_, _)
Anc(p, c) == IF c = 0 THEN {} ELSE {c} \cup Anc(p, p[c])

RECURSIVE Owner(_, _, _, _)
Owner(p, d, c, m) == IF m \in d[c] THEN c ELSE Owner(p, d, p[c], m)

\* the method a call form runs for an object of runtime class c seen through static type s
Runs(p, d, g, s, c, m, form) ==
  IF "static_binding_through_generic_parent" \in Deviations /\ g /\ form = "typed"
  THEN Owner(p, d, s, m)
  ELSE Owner(p, d, c, m)

Init == parent \in Hier /\ defs \in DefSets /\ generic \in BOOLEAN /\ done = FALSE

Rec == [parent |-> [c \in Classes |-> parent[c]],
        defs |-> [c \in Classes |-> [m \in Methods |-> m \in defs[c]]],
        generic |-> generic,
        owner |-> [c \in Classes |-> [m \in Methods |-> Owner(parent, defs, c, m)]]]

Next == /\ ~done /\ done' = TRUE /\ UNCHANGED <<parent, defs, generic>>
        /\ PrintT(<<"GEN", ToJson(Rec)>>)

Spec == Init /\ [][Next]_vars

\* the property on the model: every form and every admissible static type run the same method ...
PathIndependent ==
  \A c \in Classes : \A s \in Anc(parent, c) : \A m \in Methods : \A f1, f2 \in Forms :
     Runs(parent, defs, generic, s, c, m, f1) = Runs(parent, defs, generic, c, c, m, f2)
\* ... namely the one dynamic dispatch selects, which is owned by an ancestor-or-self that defines it
DynamicDispatch ==
  \A c \in Classes : \A s \in Anc(parent, c) : \A m \in Methods : \A f \in Forms :
     LET o == Runs(parent, defs, generic, s, c, m, f) IN
       /\ o \in Anc(parent, c) /\ m \in defs[o]
       /\ \A a \in Anc(parent, c) : (m \in defs[a]) => a \in Anc(parent, o)   \* the nearest one
=============================================================================
