SPECIFICATION Spec
CONSTANTS
  N = 3
  Deviations = {}
INVARIANTS PathIndependent DynamicDispatch
CHECK_DEADLOCK FALSE
