\* Negative control / deviant predictions: run with MCDeviations = {"x_escape_below_100"}; TLC must
\* report RoundTrip violated (shortest witness: the one-atom string U+0080, inspect text "\x80").
\* The harness uses the same configuration WITHOUT the invariant check's verdict mattering: it only
\* collects the deviant inspect texts (Deviant.cfg).
CONSTANTS
  MaxLen <- MCMaxLen
  MaxDigits <- MCMaxDigits
  MaxDepth <- MCMaxDepth
  Deviations <- MCDeviations
  Emit <- MCEmit
INIT Init
NEXT Next
INVARIANTS RoundTrip
CHECK_DEADLOCK FALSE
