---- MODULE MC_Inspect ----
(* Default bounded instance (the harness generates this module per tier: see harness/prop/c19). *)
EXTENDS Inspect
MCMaxLen == 2
MCMaxDigits == 2
MCMaxDepth == 2
MCDeviations == {}
MCEmit == FALSE
====
