CONSTANTS
  MaxLen <- MCMaxLen
  MaxDigits <- MCMaxDigits
  MaxDepth <- MCMaxDepth
  Deviations <- MCDeviations
  Emit <- MCEmit
INIT Init
NEXT Next
INVARIANTS TypeOK RoundTrip DenoteLaw
CHECK_DEADLOCK FALSE
