\* Same state space, non-empty Deviations, no invariants: predicts the inspect texts the NAMED deviation yields.
CONSTANTS
  MaxLen <- MCMaxLen
  MaxDigits <- MCMaxDigits
  MaxDepth <- MCMaxDepth
  Deviations <- MCDeviations
  Emit <- MCEmit
INIT Init
NEXT Next
CHECK_DEADLOCK FALSE
