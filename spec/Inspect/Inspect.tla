------------------------------ MODULE Inspect ------------------------------
(***************************************************************************)
(* Property C19: `inspect` yields Elk source that evaluates back to an     *)
(* equal value; integer literals and String#to_int denote the written      *)
(* value.                                                                  *)
(*                                                                         *)
(* The module specifies                                                    *)
(*  (1) the VALUE GRAMMAR of literal-expressible types (bounded): strings, *)
(*      chars and symbols over a set of hostile code-point/byte atoms,     *)
(*      integer literals in every base/suffix, float literal shapes,       *)
(*      ranges and collections (depth <= MaxDepth) of representative       *)
(*      leaves.  The state machine BUILDS a value one step at a time; each *)
(*      step emits a GEN record describing the new value.                  *)
(*  (2) the LEXER MODEL Unescape: what the body of a string/char/symbol    *)
(*      literal denotes (\xNN is a RAW BYTE, \uNNNN / \UNNNNNNNN a code    *)
(*      point, named escapes), and a REFERENCE inspect Esc.  The law       *)
(*          RoundTrip:  Unescape(Esc(v)) = v                               *)
(*      is an invariant checked by TLC on every string/char/symbol state.  *)
(*      The implementation's escaping is the NAMED deviation               *)
(*      "x_escape_below_100" (\xNN for every non-graphic rune below 0x100, *)
(*      and an ill-formed byte b printed as the RUNE b when that rune is   *)
(*      graphic): with it RoundTrip is violated (XEscape.cfg).             *)
(*  (3) Denote(digits, base): the value written by an integer literal or   *)
(*      by the argument of String#to_int, as a decimal numeral computed    *)
(*      with digit-sequence arithmetic (no 32-bit limit), and the law      *)
(*      DenoteLaw relating it to TLC's integers where those suffice.       *)
(*                                                                         *)
(* `inspect` and evaluation themselves are the IMPLEMENTATION: the harness *)
(* evaluates every generated value on the real VM, prints its inspect,     *)
(* evaluates that text again and compares (==, class, inspect again).      *)
(***************************************************************************)
EXTENDS Integers, Sequences, FiniteSets, TLC, Json

CONSTANTS MaxLen,       \* strings/symbols have at most MaxLen atoms
          MaxDigits,    \* exhaustive digit strings of 1..MaxDigits digits per base
          MaxDepth,     \* nesting depth of collections (leaf = 0)
          Deviations,   \* subset of {"x_escape_below_100"}
          Emit

VARIABLE v              \* the value built so far (a descriptor record)

-----------------------------------------------------------------------------
(* UTF-8 (as in spec/Strings)                                              *)
Enc(cp) ==
  IF cp < 128 THEN <<cp>>
  ELSE IF cp < 2048 THEN <<192 + cp \div 64, 128 + (cp % 64)>>
  ELSE IF cp < 65536 THEN <<224 + cp \div 4096, 128 + ((cp \div 64) % 64), 128 + (cp % 64)>>
  ELSE <<240 + cp \div 262144, 128 + ((cp \div 4096) % 64), 128 + ((cp \div 64) % 64), 128 + (cp % 64)>>

RECURSIVE Flat(_)
Flat(ss) == IF ss = <<>> THEN <<>> ELSE Head(ss) \o Flat(Tail(ss))

(* Atoms: cp >= 0 a code point, cp = -1 an ill-formed byte b.              *)
V(cp) == [cp |-> cp, b |-> 0]
I(b)  == [cp |-> -1, b |-> b]
Atoms == << V(97),      \* a
            V(34), V(96), V(92), V(36), V(35),   \* " ` \ $ #
            V(0), V(9), V(10), V(27), V(127),    \* NUL TAB LF ESC DEL
            V(128), V(133), V(173), V(160),      \* U+0080 U+0085 (C1), U+00AD (Cf), U+00A0 (Zs)
            V(233), V(255),                      \* graphic Latin-1
            V(769), V(8203), V(57344),           \* combining, ZWSP (Cf), private use
            V(128512), V(1114111),               \* astral graphic, U+10FFFF
            I(255), I(128), I(233) >>            \* ill-formed bytes
NAtoms == Len(Atoms)
BytesOfAtom(a) == IF a.cp = -1 THEN <<a.b>> ELSE Enc(a.cp)
Bytes(as) == Flat([i \in 1..Len(as) |-> BytesOfAtom(Atoms[as[i]])])

(* unicode.IsGraphic restricted to the atoms (L M N P S Zs)                *)
Graphic(cp) == cp \in {97, 34, 96, 92, 36, 35, 160, 233, 255, 769, 128512}

-----------------------------------------------------------------------------
(* Text = sequence of code points.                                         *)
HexDigit(n, upper) == IF n < 10 THEN 48 + n ELSE (IF upper THEN 55 ELSE 87) + n
RECURSIVE HexN(_, _, _)
HexN(x, n, upper) == IF n = 0 THEN <<>> ELSE HexN(x \div 16, n - 1, upper) \o <<HexDigit(x % 16, upper)>>
BS == 92
Named(cp, kind) ==      \* named escape letter for cp in a literal of the given kind, 0 if none
  CASE cp = 92 -> 92  [] cp = 10 -> 110 [] cp = 9 -> 116 [] cp = 13 -> 114
    [] cp = 7 -> 97   [] cp = 8 -> 98   [] cp = 11 -> 118 [] cp = 12 -> 102
    [] cp = 34 /\ kind # "chr" -> 34
    [] cp = 96 /\ kind = "chr" -> 96
    [] cp = 36 /\ kind # "chr" -> 36
    [] cp = 35 /\ kind # "chr" -> 35
    [] OTHER -> 0

(* Reference inspect of one atom inside a literal of the given kind.       *)
EscAtom(a, kind) ==
  IF a.cp = -1 THEN
       \* NAMED DEVIATION x_escape_below_100 (value/string.go Inspect: char = rune(byte))
       IF "x_escape_below_100" \in Deviations /\ Graphic(a.b) THEN <<a.b>>
       ELSE <<BS, 120>> \o HexN(a.b, 2, FALSE)
  ELSE IF Named(a.cp, kind) # 0 THEN <<BS, Named(a.cp, kind)>>
  ELSE IF Graphic(a.cp) THEN <<a.cp>>
  ELSE IF a.cp < 256 /\ "x_escape_below_100" \in Deviations
       THEN <<BS, 120>> \o HexN(a.cp, 2, FALSE)      \* \xNN: the lexer reads it as a raw byte
  ELSE IF a.cp < 65536 THEN <<BS, 117>> \o HexN(a.cp, 4, FALSE)
  ELSE <<BS, 85>> \o HexN(a.cp, 8, TRUE)
EscBody(as, kind) == Flat([i \in 1..Len(as) |-> EscAtom(Atoms[as[i]], kind)])

(* The lexer model: bytes denoted by the body of a literal.  <<-1>> = not  *)
(* a plain literal (bad escape, or an unescaped interpolation sigil).      *)
HexVal(c) == IF c >= 48 /\ c <= 57 THEN c - 48
             ELSE IF c >= 97 /\ c <= 102 THEN c - 87
             ELSE IF c >= 65 /\ c <= 70 THEN c - 55 ELSE -1
RECURSIVE HexNum(_)
HexNum(ds) == IF ds = <<>> THEN 0 ELSE HexNum(SubSeq(ds, 1, Len(ds) - 1)) * 16 + HexVal(ds[Len(ds)])
AllHex(ds) == \A i \in 1..Len(ds) : HexVal(ds[i]) >= 0
Bad == <<-1>>
Cat(x, y) == IF x = Bad \/ y = Bad THEN Bad ELSE x \o y
RECURSIVE Unescape(_, _)
Unescape(tx, kind) ==
  IF tx = <<>> THEN <<>>
  ELSE LET c == tx[1] n == Len(tx) IN
    IF c # BS THEN
      IF (kind # "chr" /\ c \in {34, 36, 35}) \/ (kind = "chr" /\ c = 96) THEN Bad
      ELSE Cat(Enc(c), Unescape(Tail(tx), kind))
    ELSE IF n < 2 THEN Bad
    ELSE LET e == tx[2] IN
      IF e = 120 THEN (IF n >= 4 /\ AllHex(SubSeq(tx, 3, 4))
                       THEN Cat(<<HexNum(SubSeq(tx, 3, 4))>>, Unescape(SubSeq(tx, 5, n), kind)) ELSE Bad)
      ELSE IF e = 117 THEN (IF n >= 6 /\ AllHex(SubSeq(tx, 3, 6))
                       THEN Cat(Enc(HexNum(SubSeq(tx, 3, 6))), Unescape(SubSeq(tx, 7, n), kind)) ELSE Bad)
      ELSE IF e = 85 THEN (IF n >= 10 /\ AllHex(SubSeq(tx, 3, 10))
                       THEN Cat(Enc(HexNum(SubSeq(tx, 3, 10))), Unescape(SubSeq(tx, 11, n), kind)) ELSE Bad)
      ELSE LET lit == CASE e = 92 -> 92 [] e = 110 -> 10 [] e = 116 -> 9 [] e = 114 -> 13
                        [] e = 97 -> 7 [] e = 98 -> 8 [] e = 118 -> 11 [] e = 102 -> 12
                        [] e = 34 /\ kind # "chr" -> 34 [] e = 96 /\ kind = "chr" -> 96
                        [] e = 36 /\ kind # "chr" -> 36 [] e = 35 /\ kind # "chr" -> 35
                        [] OTHER -> -1
           IN IF lit = -1 THEN Bad ELSE Cat(<<lit>>, Unescape(SubSeq(tx, 3, n), kind))

(* full reference inspect text of a string / char / symbol                 *)
InspectText(as, kind) ==
  CASE kind = "str" -> <<34>> \o EscBody(as, kind) \o <<34>>
    [] kind = "chr" -> <<96>> \o EscBody(as, kind) \o <<96>>
    [] kind = "sym" -> <<58, 34>> \o EscBody(as, kind) \o <<34>>

-----------------------------------------------------------------------------
(* Integer literals.  A numeral is a sequence of one-character strings.    *)
DigitVal(ch) ==
  CASE ch = "0" -> 0 [] ch = "1" -> 1 [] ch = "2" -> 2 [] ch = "3" -> 3 [] ch = "4" -> 4
    [] ch = "5" -> 5 [] ch = "6" -> 6 [] ch = "7" -> 7 [] ch = "8" -> 8 [] ch = "9" -> 9
    [] ch \in {"a", "A"} -> 10 [] ch \in {"b", "B"} -> 11 [] ch \in {"c", "C"} -> 12
    [] ch \in {"d", "D"} -> 13 [] ch \in {"e", "E"} -> 14 [] ch \in {"f", "F"} -> 15
    [] OTHER -> -1               \* "_" separator
(* decimal numerals, least significant digit first; <<>> is zero           *)
RECURSIVE MulAdd(_, _, _)
MulAdd(r, m, c) == IF r = <<>> THEN (IF c = 0 THEN <<>> ELSE <<c % 10>> \o MulAdd(<<>>, m, c \div 10))
                   ELSE LET x == Head(r) * m + c IN <<x % 10>> \o MulAdd(Tail(r), m, x \div 10)
RECURSIVE DenoteRev(_, _, _)
DenoteRev(ds, base, acc) ==
  IF ds = <<>> THEN acc
  ELSE IF DigitVal(Head(ds)) = -1 THEN DenoteRev(Tail(ds), base, acc)
  ELSE DenoteRev(Tail(ds), base, MulAdd(acc, base, DigitVal(Head(ds))))
Reverse(q) == [i \in 1..Len(q) |-> q[Len(q) + 1 - i]]
(* Denote: the decimal numeral (most significant first) written by ds      *)
Denote(ds, base) == LET r == DenoteRev(ds, base, <<>>) IN IF r = <<>> THEN <<0>> ELSE Reverse(r)
(* the same value with TLC's integers, where they suffice                  *)
RECURSIVE DenoteInt(_, _, _)
DenoteInt(ds, base, acc) ==
  IF ds = <<>> THEN acc
  ELSE IF DigitVal(Head(ds)) = -1 THEN DenoteInt(Tail(ds), base, acc)
  ELSE DenoteInt(Tail(ds), base, acc * base + DigitVal(Head(ds)))
RECURSIVE DecInt(_, _)
DecInt(dec, acc) == IF dec = <<>> THEN acc ELSE DecInt(Tail(dec), acc * 10 + Head(dec))

Bases == << [base |-> 16, prefixes |-> <<"x", "X">>, digits |-> <<"0", "1", "9", "a", "F">>],
            [base |-> 12, prefixes |-> <<"d", "D">>, digits |-> <<"0", "1", "9", "a", "B">>],
            [base |-> 10, prefixes |-> <<"">>,       digits |-> <<"0", "1", "7", "9">>],
            [base |-> 8,  prefixes |-> <<"o", "O">>, digits |-> <<"0", "1", "7">>],
            [base |-> 4,  prefixes |-> <<"q", "Q">>, digits |-> <<"0", "1", "3">>],
            [base |-> 2,  prefixes |-> <<"b", "B">>, digits |-> <<"0", "1">>] >>
Suffixes == <<"", "i8", "i16", "i32", "i64", "u8", "u16", "u32", "u64">>
SuffixMax(sf) == CASE sf = "i8" -> 127 [] sf = "u8" -> 255 [] sf = "i16" -> 32767 [] sf = "u16" -> 65535
                   [] OTHER -> 2147483647      \* wider types: every value enumerated here fits
(* long numerals around the 64/128-bit boundaries: n copies of digit d,    *)
(* optionally led by "1"                                                   *)
LongLens == {15, 16, 17, 21, 22, 31, 32, 33, 43, 63, 64, 65, 128}
RepS(x, n) == [i \in 1..n |-> x]

-----------------------------------------------------------------------------
(* Float literal shapes (the spec only enumerates them; their meaning is   *)
(* IEEE-754 and is not modelled here).                                     *)
FloatLits == <<"0.0", "1.0", "0.1", "1.5", "100.0", "123456789.125", "0.30000000000000004",
               "1e15", "1e16", "123456789012345678.0", "1e20", "1e21", "1e22", "1e23", "1e100",
               "1e-4", "1e-5", "1e-7", "1.5e-10", "5e-324", "2.2250738585072014e-308",
               "1.7976931348623157e308", "3.4028235e38", "1.1754944e-38", "1e-45",
               "9007199254740993.0", "0.1e1", "4.35", "2.675", "1e7", "16777217.0">>
FloatSuffixes == <<"", "f64", "f32", "bf">>
FloatSpecials == <<"INF", "NEG_INF", "NAN", "NEG_ZERO">>
(* regex literal sources (written %/src/flags) and flag sets                *)
RegexSrcs == <<"ab+c", "a\\nb", "\\d+\\s", "[a-z]+", "a b", "\\.", "a|b", "(a)(?:b)">>
RegexFlags == <<"", "i", "m", "im", "x">>
(* the minimum of each signed fixed-width type: a value of a literal-      *)
(* expressible type that no literal writes directly (built as -max - 1)    *)
FixedMins == <<"i8", "i16", "i32", "i64">>

-----------------------------------------------------------------------------
(* Value descriptors.                                                      *)
Str(as)  == [k |-> "str", a |-> as]
Sym(as)  == [k |-> "sym", a |-> as]
Chr(a)   == [k |-> "chr", a |-> <<a>>]
IntV(base, pre, ds, sf, neg) == [k |-> "int", base |-> base, pre |-> pre, ds |-> ds, sf |-> sf, neg |-> neg]
Flt(lit, sf, neg) == [k |-> "flt", lit |-> lit, sf |-> sf, neg |-> neg]
FltSpecial(name, sf) == [k |-> "fsp", name |-> name, sf |-> sf]
IntMin(sf) == [k |-> "imin", sf |-> sf]
Rgx(src, fl) == [k |-> "rgx", lit |-> src, sf |-> fl]
Lit(name) == [k |-> "lit", name |-> name]                  \* nil true false
Coll(t, items) == [k |-> "coll", t |-> t, items |-> items] \* list tuple set: items; map record: <<key, value>> pairs flattened
Rng(op, lo, hi) == [k |-> "rng", op |-> op, lo |-> lo, hi |-> hi]   \* lo/hi descriptor or Lit("none")

Depth(x) == IF x.k = "coll" THEN (IF \E i \in 1..Len(x.items) : x.items[i].k = "coll" THEN 2 ELSE 1) ELSE 0

(* representative leaves used inside collections and ranges                *)
Leaves == << IntV(10, "", <<"1">>, "", FALSE), IntV(10, "", <<"7">>, "i8", TRUE), Str(<<1, 12>>), Str(<<23>>), Chr(11),
             Sym(<<1>>), Sym(<<1, 5>>), Flt("1e21", "", FALSE), Flt("0.1", "f32", FALSE), Lit("nil"), Lit("true"),
             IntV(16, "x", RepS("f", 17), "", FALSE), Flt("1.5", "bf", FALSE) >>
RangeOps == <<"...", "..<", "<..", "<.<">>
RangeEnds == << <<IntV(10, "", <<"1">>, "", FALSE), IntV(10, "", <<"9">>, "", FALSE)>>,
                <<IntV(10, "", <<"1">>, "i8", TRUE), IntV(10, "", <<"7">>, "i8", FALSE)>>,
                <<Flt("1.5", "", FALSE), Flt("1e21", "", FALSE)>>,
                <<Chr(1), Chr(16)>>, <<Chr(8), Chr(12)>>,
                <<Str(<<1>>), Str(<<1, 12>>)>>,
                <<IntV(10, "", <<"1">>, "", FALSE), Lit("none")>>, <<Lit("none"), IntV(10, "", <<"9">>, "", FALSE)>> >>
CollKinds == <<"list", "tuple", "set", "map", "record">>

-----------------------------------------------------------------------------
TextRec(as, kind) ==   \* strings, chars, symbols: bytes, reference inspect text, what it denotes
  LET tx == InspectText(as, kind)
      body == IF kind = "sym" THEN SubSeq(tx, 3, Len(tx) - 1) ELSE SubSeq(tx, 2, Len(tx) - 1)
  IN [bytes |-> Bytes(as), text |-> tx, denotes |-> Unescape(body, kind)]
IntRec(x) == [base |-> x.base, value |-> Denote(x.ds, x.base)]

GenRec(x) == CASE x.k \in {"str", "sym", "chr"} -> [v |-> x, t |-> TextRec(x.a, x.k)]
               [] x.k = "int" -> [v |-> x, n |-> IntRec(x)]
               [] OTHER -> [v |-> x]
Gen(x) == IF Emit THEN PrintT(<<"GEN", ToJson(GenRec(x))>>) ELSE TRUE

Init == v = Str(<<>>) /\ Gen(v)

(* grow a string; the same atoms as a symbol; a single valid atom as a char *)
AppendAtom(a) == /\ v.k = "str" /\ Len(v.a) < MaxLen
                 /\ v' = Str(Append(v.a, a)) /\ Gen(v')
AsSymbol == /\ v.k = "str" /\ v' = Sym(v.a) /\ Gen(v')
AsChar   == /\ v.k = "str" /\ Len(v.a) = 1 /\ Atoms[v.a[1]].cp # -1 /\ v' = Chr(v.a[1]) /\ Gen(v')

(* integer literals: every digit string up to MaxDigits digits of the      *)
(* base's digit sample, every prefix spelling, one separator position,     *)
(* every suffix the value fits; long numerals at the 64/128-bit edges      *)
DigitStrings(ds, n) == UNION {[1..m -> {ds[i] : i \in 1..Len(ds)}] : m \in 1..n}
WithSep(q) == {q} \cup {SubSeq(q, 1, i) \o <<"_">> \o SubSeq(q, i + 1, Len(q)) : i \in 1..(Len(q) - 1)}
PickInt == /\ v = Str(<<>>)
           /\ \E bi \in 1..Len(Bases) : \E pj \in 1..Len(Bases[bi].prefixes) :
              \E q0 \in DigitStrings(Bases[bi].digits, MaxDigits) : \E q \in WithSep(q0) :
              \E si \in 1..Len(Suffixes) : \E neg \in BOOLEAN :
                /\ DenoteInt(q, Bases[bi].base, 0) <= SuffixMax(Suffixes[si])
                /\ (neg => Suffixes[si] \notin {"u8", "u16", "u32", "u64"})
                /\ (Bases[bi].base = 10 /\ Len(q0) > 1 => q0[1] # "0")      \* 07 is not a decimal literal
                /\ v' = IntV(Bases[bi].base, Bases[bi].prefixes[pj], q, Suffixes[si], neg) /\ Gen(v')
PickLongInt == /\ v = Str(<<>>)
               /\ \E bi \in 1..Len(Bases) : \E n \in LongLens : \E lead \in BOOLEAN : \E di \in 1..Len(Bases[bi].digits) :
                    LET d == Bases[bi].digits[di]
                        q == (IF lead THEN <<"1">> ELSE <<>>) \o RepS(d, n) IN
                    /\ (d = "0" => lead)
                    /\ v' = IntV(Bases[bi].base, Bases[bi].prefixes[1], q, "", FALSE) /\ Gen(v')
PickFloat == /\ v = Str(<<>>)
             /\ \/ \E i \in 1..Len(FloatLits) : \E s \in 1..Len(FloatSuffixes) : \E neg \in BOOLEAN :
                     v' = Flt(FloatLits[i], FloatSuffixes[s], neg) /\ Gen(v')
                \/ \E i \in 1..Len(FloatSpecials) : \E s \in {1, 2, 3} :
                     v' = FltSpecial(FloatSpecials[i], FloatSuffixes[s]) /\ Gen(v')
                \/ \E nm \in {"nil", "true", "false"} : v' = Lit(nm) /\ Gen(v')
                \/ \E i \in 1..Len(FixedMins) : v' = IntMin(FixedMins[i]) /\ Gen(v')
                \/ \E i \in 1..Len(RegexSrcs) : \E f \in 1..Len(RegexFlags) :
                     v' = Rgx(RegexSrcs[i], RegexFlags[f]) /\ Gen(v')
PickRange == /\ v = Str(<<>>)
             /\ \E o \in 1..Len(RangeOps) : \E e \in 1..Len(RangeEnds) :
                  v' = Rng(RangeOps[o], RangeEnds[e][1], RangeEnds[e][2]) /\ Gen(v')
(* collections: start from a leaf, add leaves, nest once more              *)
StartColl == /\ v = Str(<<>>)
             /\ \E t \in 1..Len(CollKinds) : v' = Coll(CollKinds[t], <<>>) /\ Gen(v')
KeyOK(t, x) == (t = "record" => x.k = "sym") /\ (t \in {"set", "map"} => x.k # "flt")
AddItem == /\ v.k = "coll" /\ Depth(v) <= 1
           /\ Len(v.items) < (IF v.t \in {"map", "record"} /\ (v.items = <<>> \/ v.items[1] \in {Leaves[1], Leaves[6]}) THEN 4 ELSE 2)
           /\ IF v.t \in {"map", "record"}
              THEN \E ki \in 1..Len(Leaves) : \E xi \in 1..Len(Leaves) :
                     /\ KeyOK(v.t, Leaves[ki])
                     /\ \A j \in 1..Len(v.items) : (j % 2 = 1) => v.items[j] # Leaves[ki]
                     /\ v' = Coll(v.t, v.items \o <<Leaves[ki], Leaves[xi]>>) /\ Gen(v')
              ELSE \E xi \in 1..Len(Leaves) :
                     /\ KeyOK(v.t, Leaves[xi])
                     /\ (v.t = "set" => \A j \in 1..Len(v.items) : v.items[j] # Leaves[xi])
                     /\ v' = Coll(v.t, Append(v.items, Leaves[xi])) /\ Gen(v')
Nest == /\ v.k = "coll" /\ Depth(v) = 1 /\ MaxDepth >= 2 /\ Len(v.items) >= 1
        /\ \E t \in 1..Len(CollKinds) :
             /\ v' = IF CollKinds[t] \in {"map", "record"}
                     THEN Coll(CollKinds[t], <<Leaves[6], v>>)
                     ELSE Coll(CollKinds[t], <<v, Leaves[1]>>)
             /\ (CollKinds[t] = "set" => v.t \in {"tuple", "list"})
             /\ Gen(v')

Next == \/ \E a \in 1..NAtoms : AppendAtom(a)
        \/ AsSymbol \/ AsChar \/ PickInt \/ PickLongInt \/ PickFloat \/ PickRange
        \/ StartColl \/ AddItem \/ Nest

-----------------------------------------------------------------------------
(* RoundTrip: the reference inspect text of every string, char and symbol  *)
(* denotes exactly the original bytes under the lexer model.               *)
RoundTrip == v.k \in {"str", "sym", "chr"} =>
  LET r == TextRec(v.a, v.k) IN r.denotes = r.bytes

(* DenoteLaw: the digit-sequence arithmetic agrees with integer arithmetic *)
(* wherever TLC's integers suffice; separators do not change the value;    *)
(* the spelling of the prefix and the case of digits do not matter.        *)
DenoteLaw == v.k = "int" /\ Len(v.ds) <= 7 =>
  LET n == IntRec(v) IN
  /\ DecInt(n.value, 0) = DenoteInt(v.ds, n.base, 0)
  /\ Denote(SelectSeq(v.ds, LAMBDA c : c # "_"), n.base) = n.value
  /\ n.value[1] # 0 \/ n.value = <<0>>

TypeOK == v.k \in {"str", "sym", "chr", "int", "flt", "fsp", "imin", "rgx", "lit", "coll", "rng"} /\ Depth(v) <= MaxDepth
=============================================================================
