CONSTANTS
  Depth = 2
  Deviations <- MCDeviations
INIT Init
NEXT Next
INVARIANTS RoundTrip
CHECK_DEADLOCK FALSE
