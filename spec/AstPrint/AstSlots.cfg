CONSTANTS
  Sorts <- MCSorts
  MaxDepth <- MCMaxDepth
INIT Init
NEXT Next
INVARIANT TypeOK
CHECK_DEADLOCK FALSE
