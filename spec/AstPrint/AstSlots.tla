------------------------------ MODULE AstSlots ------------------------------
(***************************************************************************)
(* Second generator of property C05 (the round-trip property itself is     *)
(* stated in AstPrint: RoundTrip).  AstPrint covers the operator grammar   *)
(* with a model; the hundred-odd other node printers are covered by        *)
(* construction: every (parent form, child slot, child form) combination.  *)
(* A parent form is a TEMPLATE with one hole, a child form is a FILLER;    *)
(* both are owned by the harness (Elk text), the specification enumerates  *)
(* the nestings: template_1(template_2(... filler)) per sort (expression,  *)
(* type, pattern), with the hole filled both bare and parenthesised.       *)
(***************************************************************************)
EXTENDS Integers, Sequences, TLC, Json

CONSTANTS Sorts,     \* sequence of [name, nt, nf]: number of templates and fillers of each sort
          MaxDepth   \* maximal number of nested templates

VARIABLES nest, sent
vars == <<nest, sent>>

SortOf(n) == Sorts[CHOOSE i \in 1 .. Len(Sorts) : Sorts[i].name = n.sort]

Init == /\ \E i \in 1 .. Len(Sorts) : \E f \in 1 .. Sorts[i].nf :
             nest = [sort |-> Sorts[i].name, chain |-> <<>>, filler |-> f]
        /\ sent = FALSE

(* wrap the nest into one more template (outermost first in chain) *)
Grow == /\ ~sent /\ Len(nest.chain) < MaxDepth
        /\ \E t \in 1 .. SortOf(nest).nt : nest' = [nest EXCEPT !.chain = <<t>> \o @]
        /\ UNCHANGED sent

Emit == /\ ~sent /\ nest.chain # <<>>
        /\ PrintT(<<"GEN", ToJson(nest)>>)
        /\ sent' = TRUE /\ UNCHANGED nest

Next == Grow \/ Emit
TypeOK == Len(nest.chain) <= MaxDepth
=============================================================================
