\* the rule of parser/ast for all operators: TLC is EXPECTED to report a violation of RoundTrip here
CONSTANTS
  Depth = 2
  Deviations <- MCAstGo
INIT Init
NEXT Next
INVARIANTS RoundTrip
CHECK_DEADLOCK FALSE
