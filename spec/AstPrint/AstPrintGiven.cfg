CONSTANTS
  Depth = 0
  Deviations <- MCDeviations
INIT InitGiven
NEXT Next
INVARIANTS RoundTrip
CHECK_DEADLOCK FALSE
