------------------------------ MODULE AstPrint ------------------------------
(***************************************************************************)
(* Property C05: printing a syntax tree and reparsing it gives the same    *)
(* tree.                                                                   *)
(*                                                                         *)
(* A model of Elk's expression grammar (one operator per precedence level  *)
(* of parser.go, same level structure: left-recursive binary levels, the   *)
(* non-associative range and `as` levels, prefix operators above `**`,     *)
(* right-recursive `**`, a single postfix operator, assignment) with       *)
(*   Parse      precedence-level parser over token sequences               *)
(*   Show       printer with minimal parentheses, parameterised by the     *)
(*              rule that decides where parentheses go                     *)
(* The reference rule is derived from the grammar (a child is wrapped iff  *)
(* its production is below the level the slot parses at).  The rule of     *)
(* parser/ast (compare ExpressionPrecedence of parent and child, `>` or    *)
(* `>=` by associativity) is modelled next to it; where it differs from    *)
(* the reference rule the difference is a NAMED deviation.                 *)
(*                                                                         *)
(* Theorem checked by TLC (invariant RoundTrip): for every tree t of the   *)
(* instance, Parse(Show(t)) = t.  TLC also hands every tree to the        *)
(* harness (GEN), with the deviations under which the model predicts that  *)
(* the round trip breaks; the harness spells the tree as fully             *)
(* parenthesised Elk text, lets the REAL parser build the tree, prints it  *)
(* with the real String(), reparses and compares.                          *)
(***************************************************************************)
EXTENDS Integers, Sequences, FiniteSets, TLC, Json

CONSTANTS Depth,        \* maximal depth of the enumerated trees
          Deviations    \* deviations of parser/ast's parenthesisation rule to reproduce ({} = reference)

(* Operators, ascending grammar level.  lv: level in parser.go's chain; p: ExpressionPrecedence  *)
(* in parser/ast/ast.go; fix: how the level's production is shaped.                              *)
Ops == <<
  [s |-> "=",   fix |-> "assign", lv |-> 1,  p |-> 30],   \* assignmentExpression = logicalOr | lvalue = assignmentExpression
  [s |-> "||",  fix |-> "binl",   lv |-> 2,  p |-> 40],
  [s |-> "&&",  fix |-> "binl",   lv |-> 3,  p |-> 50],
  [s |-> "|",   fix |-> "binl",   lv |-> 4,  p |-> 70],
  [s |-> "^",   fix |-> "binl",   lv |-> 5,  p |-> 80],
  [s |-> "&",   fix |-> "binl",   lv |-> 6,  p |-> 90],
  [s |-> "&~",  fix |-> "binl",   lv |-> 7,  p |-> 100],
  [s |-> "==",  fix |-> "binl",   lv |-> 8,  p |-> 110],
  [s |-> "<",   fix |-> "binl",   lv |-> 9,  p |-> 120],
  [s |-> "<<",  fix |-> "binl",   lv |-> 10, p |-> 130],
  [s |-> "+",   fix |-> "binl",   lv |-> 11, p |-> 140],
  [s |-> "*",   fix |-> "binl",   lv |-> 12, p |-> 150],
  [s |-> "...", fix |-> "range",  lv |-> 13, p |-> 160],  \* rangeLiteral = asExpression [op asExpression]
  [s |-> "as",  fix |-> "as",     lv |-> 14, p |-> 170],  \* asExpression = unaryExpression ["as" Type]
  [s |-> "-",   fix |-> "pre",    lv |-> 15, p |-> 180],  \* unaryExpression = op unaryExpression | powerExpression
  [s |-> "**",  fix |-> "binr",   lv |-> 16, p |-> 190],  \* powerExpression = postfix ["**" powerExpression]
  [s |-> "++",  fix |-> "post",   lv |-> 17, p |-> 200]   \* postfixExpression = methodCall ["++"]
>>
NOps == Len(Ops)
Primary == 18            \* level of identifiers and parenthesised expressions

Leaf == [k |-> "leaf"]
Node(o, l, r) == [k |-> "node", o |-> o, l |-> l, r |-> r]   \* unary nodes keep their operand in r, l = Leaf

Unary(o) == Ops[o].fix \in {"pre", "post", "as"}

RECURSIVE Trees(_)
Trees(d) == IF d = 0 THEN {Leaf}
            ELSE LET sub == Trees(d - 1)
                 IN sub \cup {Node(o, l, r) : o \in 1 .. NOps, l \in sub, r \in sub}
(* well-formed: unary nodes have l = Leaf; the target of an assignment is an identifier *)
RECURSIVE WellFormed(_)
WellFormed(t) == \/ t.k = "leaf"
                 \/ /\ (Unary(t.o) \/ Ops[t.o].fix = "assign") => t.l = Leaf
                    /\ WellFormed(t.l) /\ WellFormed(t.r)

Level(t) == IF t.k = "leaf" THEN Primary ELSE Ops[t.o].lv
Prec(t)  == IF t.k = "leaf" THEN 255 ELSE Ops[t.o].p

(* The level at which the grammar parses each operand slot of operator o *)
SlotLevel(o, side) ==
  LET f == Ops[o].fix  lv == Ops[o].lv
  IN CASE f = "binl"   -> IF side = "l" THEN lv ELSE lv + 1
       [] f = "binr"   -> IF side = "l" THEN lv + 1 ELSE lv
       [] f = "range"  -> lv + 1
       [] f = "as"     -> lv + 1
       [] f = "pre"    -> lv
       [] f = "post"   -> lv + 1
       [] f = "assign" -> IF side = "l" THEN Primary ELSE lv

(* reference rule: wrap a child iff its production is below the level its slot parses at *)
RefParen(o, side, c) == Level(c) < SlotLevel(o, side)

(* rule of parser/ast: BinaryExpressionNode.String and the String methods of RangeLiteralNode,  *)
(* AsExpressionNode, UnaryExpressionNode, PostfixExpressionNode, AssignmentExpressionNode        *)
AstParen(o, side, c) ==
  LET f == Ops[o].fix
  IN CASE f \in {"binl", "range"} -> IF side = "l" THEN Ops[o].p > Prec(c) ELSE Ops[o].p >= Prec(c)
       [] f = "binr"              -> IF side = "l" THEN Ops[o].p >= Prec(c) ELSE Ops[o].p > Prec(c)
       [] f = "assign"            -> side = "r" /\ Ops[o].p > Prec(c)
       [] OTHER                   -> Ops[o].p > Prec(c)

(* KNOWN deviations: the operators whose String method follows AstParen where it differs from   *)
(* RefParen (an operand of the same non-associative level is left without parentheses)          *)
DevOf(o) == CASE Ops[o].fix = "post"  -> "postfix_operand_same_level"
              [] Ops[o].fix = "as"    -> "as_operand_same_level"
              [] Ops[o].fix = "range" -> "range_operand_same_level"
              [] OTHER                -> "none"
Paren(devs, o, side, c) == IF DevOf(o) \in devs THEN AstParen(o, side, c) ELSE RefParen(o, side, c)

RECURSIVE Show(_, _)
Wrap(devs, o, side, c) == IF Paren(devs, o, side, c) THEN <<"(">> \o Show(devs, c) \o <<")">> ELSE Show(devs, c)
Show(devs, t) ==
  IF t.k = "leaf" THEN <<"a">>
  ELSE LET f == Ops[t.o].fix  s == Ops[t.o].s
       IN CASE f = "pre"  -> LET x == Wrap(devs, t.o, "r", t.r)
                             IN \* KNOWN deviation: UnaryExpressionNode.String writes the operator directly in
                                \* front of its operand; a sign in front of the same sign reads as ONE token
                                \* (`-` `-a` becomes `--a`), which is the decrement operator
                                IF "unary_sign_glued" \in devs /\ Head(x) = s
                                THEN <<s \o s>> \o Tail(x) ELSE <<s>> \o x
            [] f = "post" -> Wrap(devs, t.o, "r", t.r) \o <<s>>
            [] f = "as"   -> Wrap(devs, t.o, "r", t.r) \o <<s, "T">>
            [] OTHER      -> Wrap(devs, t.o, "l", t.l) \o <<s>> \o Wrap(devs, t.o, "r", t.r)

(* The parser: ParseAt(lv, ts) parses the longest prefix of ts at grammar level lv and returns  *)
(* [ok, t, rest].                                                                               *)
OpAt(lv) == CHOOSE o \in 1 .. NOps : Ops[o].lv = lv
Fail == [ok |-> FALSE, t |-> Leaf, rest |-> <<>>]
Res(t, rest) == [ok |-> TRUE, t |-> t, rest |-> rest]
Starts(ts, s) == ts # <<>> /\ Head(ts) = s

RECURSIVE ParseAt(_, _), LeftLoop(_, _, _)
(* left-recursive level: x (op y)* with y one level up *)
LeftLoop(o, x, ts) ==
  IF Starts(ts, Ops[o].s)
  THEN LET y == ParseAt(Ops[o].lv + 1, Tail(ts))
       IN IF y.ok THEN LeftLoop(o, Node(o, x, y.t), y.rest) ELSE Fail
  ELSE Res(x, ts)
ParseAt(lv, ts) ==
  IF lv = Primary
  THEN IF Starts(ts, "a") THEN Res(Leaf, Tail(ts))
       ELSE IF Starts(ts, "(")
            THEN LET e == ParseAt(1, Tail(ts))
                 IN IF e.ok /\ Starts(e.rest, ")") THEN Res(e.t, Tail(e.rest)) ELSE Fail
            ELSE Fail
  ELSE
  LET o == OpAt(lv)  f == Ops[o].fix  s == Ops[o].s
  IN CASE f = "pre" ->
            IF Starts(ts, s)
            THEN LET x == ParseAt(lv, Tail(ts)) IN IF x.ok THEN Res(Node(o, Leaf, x.t), x.rest) ELSE Fail
            ELSE ParseAt(lv + 1, ts)
       [] f = "binl" ->
            LET x == ParseAt(lv + 1, ts) IN IF x.ok THEN LeftLoop(o, x.t, x.rest) ELSE Fail
       [] f = "binr" ->
            LET x == ParseAt(lv + 1, ts)
            IN IF x.ok /\ Starts(x.rest, s)
               THEN LET y == ParseAt(lv, Tail(x.rest)) IN IF y.ok THEN Res(Node(o, x.t, y.t), y.rest) ELSE Fail
               ELSE x
       [] f = "range" ->
            LET x == ParseAt(lv + 1, ts)
            IN IF x.ok /\ Starts(x.rest, s)
               THEN LET y == ParseAt(lv + 1, Tail(x.rest)) IN IF y.ok THEN Res(Node(o, x.t, y.t), y.rest) ELSE Fail
               ELSE x
       [] f = "as" ->
            LET x == ParseAt(lv + 1, ts)
            IN IF x.ok /\ Starts(x.rest, s)
               THEN IF Starts(Tail(x.rest), "T") THEN Res(Node(o, Leaf, x.t), Tail(Tail(x.rest))) ELSE Fail
               ELSE x
       [] f = "post" ->
            LET x == ParseAt(lv + 1, ts)
            IN IF x.ok /\ Starts(x.rest, s) THEN Res(Node(o, Leaf, x.t), Tail(x.rest)) ELSE x
       [] f = "assign" ->
            LET x == ParseAt(lv + 1, ts)
            IN IF x.ok /\ Starts(x.rest, s) /\ x.t = Leaf
               THEN LET y == ParseAt(lv, Tail(x.rest)) IN IF y.ok THEN Res(Node(o, Leaf, y.t), y.rest) ELSE Fail
               ELSE x

Parse(ts) == LET r == ParseAt(1, ts) IN IF r.ok /\ r.rest = <<>> THEN r ELSE Fail

RoundTrips(devs, t) == LET r == Parse(Show(devs, t)) IN r.ok /\ r.t = t

-----------------------------------------------------------------------------
VARIABLES tree, sent
vars == <<tree, sent>>

Init == /\ tree \in {t \in Trees(Depth) : WellFormed(t)}
        /\ sent = FALSE

(* deeper trees chosen by the harness (seeded) instead of enumerated: same theorem, same GEN *)
Given == ndJsonDeserialize("trees.ndjson")
InitGiven == /\ tree \in {g \in {Given[i] : i \in 1 .. Len(Given)} : WellFormed(g)}
             /\ sent = FALSE

AllDevs == {"postfix_operand_same_level", "as_operand_same_level", "range_operand_same_level", "unary_sign_glued"}
(* the deviations (one at a time) under which the model predicts a broken round trip *)
Breaks(t) == {d \in AllDevs : ~RoundTrips({d}, t)}

Emit == /\ ~sent
        /\ PrintT(<<"GEN", ToJson([tree |-> tree, text |-> Show({}, tree), breaks |-> Breaks(tree)])>>)
        /\ sent' = TRUE
        /\ UNCHANGED tree
Next == Emit

(* THE PROPERTY on the model: print, reparse, same tree *)
RoundTrip == RoundTrips(Deviations, tree)
(* the reference printer never adds parentheses the grammar does not need: a fully wrapped     *)
(* child could always be printed, so minimality is not part of the property, only checked here  *)
PrintIsParsable == Parse(Show(Deviations, tree)).ok
=============================================================================
