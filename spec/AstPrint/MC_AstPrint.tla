---- MODULE MC_AstPrint ----
EXTENDS AstPrint
MCDeviations == {}
MCAstGo == {"postfix_operand_same_level", "as_operand_same_level", "range_operand_same_level", "unary_sign_glued"}
====
