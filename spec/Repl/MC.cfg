CONSTANTS
  Alphabet = {"dm1", "dm2", "dc1", "k1", "k2", "lx", "inc", "boom", "incboom", "bad_body", "bad_class", "bad_mix", "bad_types"}
  MaxLen = 3
  Deviations = {}
  Emit = FALSE
INIT Init
NEXT Next
INVARIANTS TypeOK NoTrace RejectedNeverRuns SessionIsBatch CheckerAgreesWithRuntime
CHECK_DEADLOCK TRUE
