-------------------------------- MODULE Repl --------------------------------
(***************************************************************************)
(* The REPL evaluator (repl/repl.go evaluate) over the incremental checker *)
(* (types/checker/checker.go CheckSource) and the persistent VM thread     *)
(* (vm/thread.go InterpretREPL) -- property C27.                           *)
(*                                                                         *)
(* One action per step of the code:                                        *)
(*   Submit    an input arrives; CheckSource deep-copies the checker's     *)
(*             state (global environment, locals, scopes) -> snap          *)
(*   CheckAtom the checker processes the next definition / statement of    *)
(*             the input and MUTATES its environment while doing so (an    *)
(*             invalid input is partially checked before it fails)         *)
(*   Restore   the input failed: the snapshot is put back, nothing runs    *)
(*   Accept    the input checked: its bytecode is handed to the VM         *)
(*   ExecAtom  the VM executes the next definition / statement on the      *)
(*             persistent runtime state; a throw ends the input, its       *)
(*             effects so far stay (ResetError)                            *)
(*   Finish    the input joins the accepted inputs                         *)
(*                                                                         *)
(* An input is a sequence of atoms in the order the checker meets them     *)
(* (definitions are hoisted before statements; the inputs below are        *)
(* written in that order).  The universe: one method m, one class A with   *)
(* a method f, one constant K, one local x.                                *)
(*                                                                         *)
(* The property: (1) after a rejected input the checker's state is the     *)
(* snapshot (NoTrace); (2) at rest the checker's and the VM's state are    *)
(* the ones a batch check+run of the accepted inputs, as one program,      *)
(* produces, and what the last accepted input printed is what its group    *)
(* prints in that program (SessionIsBatch).  Batch is a second, direct     *)
(* definition (a fold over the accepted inputs only).                      *)
(***************************************************************************)
EXTENDS Integers, Sequences, FiniteSets, TLC, Json

CONSTANTS Alphabet,    \* the input names histories are built from
          MaxLen,      \* maximal length of a history
          Deviations,  \* named deviations (negative control): "restore_skips_locals", "restore_skips_methods"
          Emit         \* TRUE: print one GEN record per completed input

VARIABLES hist,   \* names of the inputs submitted so far
          acc,    \* names of the accepted ones
          ck,     \* checker state: [m, a, k, x] declared types, "none" = undefined
          rt,     \* runtime state: [m, a, k, x] values, 0 = undefined (x: [def, v])
          snap,   \* the snapshot CheckSource took for the current / last input
          phase,  \* "idle" | "checking" | "failed" | "running" | "thrown"
          cur,    \* the input being processed
          pend,   \* its atoms still to check / to execute
          out,    \* lines it printed so far
          last    \* [v, out, err] of the last completed input
vars == <<hist, acc, ck, rt, snap, phase, cur, pend, out, last>>

-----------------------------------------------------------------------------
(* Atoms and inputs.                                                       *)
DefM(v, ty)  == [op |-> "defm", v |-> v, ty |-> ty]     \* def m: ty then v
SigM(ty)     == [op |-> "sigm", v |-> 0, ty |-> ty]     \* the signature of a def whose BODY is ill-typed
DefC(v)      == [op |-> "defc", v |-> v, ty |-> ""]     \* class A; def f: Int then v; end
Const(v)     == [op |-> "const", v |-> v, ty |-> ""]    \* const K = v
Let(ty, v)   == [op |-> "let", v |-> v, ty |-> ty]      \* x := v  (declares x, or assigns if x exists)
IncX         == [op |-> "inc", v |-> 0, ty |-> ""]      \* x = x + 1
Probe(e)     == [op |-> "print", v |-> 0, ty |-> e]     \* o(e + 100)   e in m | a | k | x
PrintX       == [op |-> "printx", v |-> 0, ty |-> ""]   \* o(x)
Boom(e)      == [op |-> "boom", v |-> 0, ty |-> e]      \* o(e + try boom())  e in x | one : throws with an operand pushed
Fail         == [op |-> "fail", v |-> 0, ty |-> ""]     \* o(1 + "a"): a type error
DefU(v)      == [op |-> "defu", v |-> v, ty |-> ""]     \* module Foo; def bar: Int then v; end; using Foo::bar  (a method import)
DefP(v)      == [op |-> "defp", v |-> v, ty |-> ""]     \* class P; val @x: Int; init(@x); end; def x: Int then @x; end

Atoms(i) ==
  CASE i = "dm1" -> <<DefM(1, "Int")>>
    [] i = "dm2" -> <<DefM(2, "Int")>>
    [] i = "dc1" -> <<DefC(1)>>
    [] i = "dc2" -> <<DefC(2)>>
    [] i = "k1"  -> <<Const(1)>>
    [] i = "k2"  -> <<Const(2)>>                       \* rejected when K exists (cannot redeclare)
    [] i = "lx"  -> <<Let("Int", 1)>>
    [] i = "inc" -> <<IncX, PrintX>>                   \* rejected when x is undefined
    [] i = "boom" -> <<Boom("one")>>                   \* accepted, throws
    [] i = "incboom" -> <<IncX, PrintX, Boom("x")>>    \* effects before the throw stay
    [] i = "bad_body"  -> <<SigM("Int"), Fail>>        \* def m: Int then "oops"
    [] i = "bad_class" -> <<DefC(9), Fail>>            \* class A; def f: Int then "oops"; end
    [] i = "bad_mix"   -> <<DefC(9), DefM(9, "Int"), Const(9), Let("Int", 9), Fail>>
    [] i = "bad_types" -> <<DefM(0, "String"), Let("String", 0), Fail>>
    [] i = "us" -> <<DefU(3)>>                         \* accepted; the import must survive later rejected inputs
    [] i = "dv" -> <<DefP(5)>>                         \* accepted; @x stays single-assignment for ever
    [] i = "bad_valset" -> <<Fail>>                    \* class P; def set(v: Int) then @x = v; end: rejected whether or not
                                                       \* P exists (reassigns a `val` / uses an undeclared ivar)
    [] i = "pu" -> <<Probe("u")>>
    [] i = "pp" -> <<Probe("p")>>
    [] i = "pm" -> <<Probe("m")>>                      \* the probes: rejected iff the name is undefined
    [] i = "pa" -> <<Probe("a")>>
    [] i = "pk" -> <<Probe("k")>>
    [] i = "px" -> <<Probe("x")>>
Probes == <<"pm", "pa", "pk", "px", "pu", "pp">>

CK0 == [m |-> "none", a |-> "none", k |-> "none", x |-> "none", u |-> "none", p |-> "none"]
RT0 == [m |-> 0, a |-> 0, k |-> 0, x |-> [def |-> FALSE, v |-> 0], u |-> 0, p |-> 0]

(* The checker on one atom: does it type check in environment c, and the   *)
(* environment afterwards (mutated also when a LATER atom fails).          *)
CheckOK(c, at) ==
  CASE at.op \in {"defm", "sigm"} -> c.m \in {"none", at.ty}     \* else: not a valid override
    [] at.op \in {"defc", "defu", "defp"} -> TRUE
    [] at.op = "const"  -> c.k = "none"                          \* else: cannot redeclare constant
    [] at.op = "let"    -> c.x \in {"none", at.ty}               \* else: cannot be assigned to type
    [] at.op \in {"inc", "printx"} -> c.x = "Int"
    [] at.op = "print"  -> c[at.ty] \in {"Int", "def"}
    [] at.op = "boom"   -> at.ty = "one" \/ c.x = "Int"
    [] at.op = "fail"   -> FALSE
CheckEff(c, at) ==
  CASE at.op \in {"defm", "sigm"} -> [c EXCEPT !.m = at.ty]
    [] at.op = "defc"   -> [c EXCEPT !.a = "def"]
    [] at.op = "defu"   -> [c EXCEPT !.u = "def"]
    [] at.op = "defp"   -> [c EXCEPT !.p = "def"]
    [] at.op = "const"  -> [c EXCEPT !.k = "Int"]
    [] at.op = "let"    -> [c EXCEPT !.x = at.ty]
    [] OTHER            -> c

(* The VM on one atom: new runtime state, lines printed, thrown?           *)
Val(r, e) == CASE e = "m" -> r.m [] e = "a" -> r.a [] e = "k" -> r.k [] e = "x" -> r.x.v [] e = "u" -> r.u [] e = "p" -> r.p
Exec(r, at) ==
  CASE at.op = "defm"  -> [r |-> [r EXCEPT !.m = at.v], o |-> <<>>, thrown |-> FALSE]
    [] at.op = "defc"  -> [r |-> [r EXCEPT !.a = at.v], o |-> <<>>, thrown |-> FALSE]
    [] at.op = "defu"  -> [r |-> [r EXCEPT !.u = at.v], o |-> <<>>, thrown |-> FALSE]
    [] at.op = "defp"  -> [r |-> [r EXCEPT !.p = at.v], o |-> <<>>, thrown |-> FALSE]
    [] at.op = "const" -> [r |-> [r EXCEPT !.k = at.v], o |-> <<>>, thrown |-> FALSE]
    [] at.op = "let"   -> [r |-> [r EXCEPT !.x = [def |-> TRUE, v |-> at.v]], o |-> <<>>, thrown |-> FALSE]
    [] at.op = "inc"   -> [r |-> [r EXCEPT !.x.v = @ + 1], o |-> <<>>, thrown |-> FALSE]
    [] at.op = "printx" -> [r |-> r, o |-> <<r.x.v>>, thrown |-> FALSE]
    [] at.op = "print" -> [r |-> r, o |-> <<Val(r, at.ty) + 100>>, thrown |-> FALSE]
    [] at.op = "boom"  -> [r |-> r, o |-> <<>>, thrown |-> TRUE]

-----------------------------------------------------------------------------
(* BATCH: the accepted inputs as one program, checked and run from         *)
(* scratch.  (A group that throws is wrapped in do ... catch: the rest of  *)
(* the group is skipped, the program goes on.)                             *)
RECURSIVE CheckSeq(_, _), ExecSeq(_, _)
CheckSeq(c, ats) == IF ats = <<>> THEN [ok |-> TRUE, c |-> c]
                    ELSE IF ~CheckOK(c, Head(ats)) THEN [ok |-> FALSE, c |-> c]
                    ELSE CheckSeq(CheckEff(c, Head(ats)), Tail(ats))
ExecSeq(r, ats) == IF ats = <<>> THEN [r |-> r, o |-> <<>>, thrown |-> FALSE]
                   ELSE LET e == Exec(r, Head(ats)) IN
                        IF e.thrown THEN [r |-> e.r, o |-> e.o, thrown |-> TRUE]
                        ELSE LET rest == ExecSeq(e.r, Tail(ats)) IN [r |-> rest.r, o |-> e.o \o rest.o, thrown |-> rest.thrown]
RECURSIVE Batch(_)
\* [ok, c, r, o, thrown]: the program of the inputs s checks (ok), the checker / runtime state at
\* its end, and what its LAST group printed / whether it threw
Batch(s) == IF s = <<>> THEN [ok |-> TRUE, c |-> CK0, r |-> RT0, o |-> <<>>, thrown |-> FALSE]
            ELSE LET b == Batch(SubSeq(s, 1, Len(s) - 1))
                     ch == CheckSeq(b.c, Atoms(s[Len(s)]))
                     ex == ExecSeq(b.r, Atoms(s[Len(s)]))
                 IN [ok |-> b.ok /\ ch.ok, c |-> ch.c, r |-> ex.r, o |-> ex.o, thrown |-> ex.thrown]

-----------------------------------------------------------------------------
(* The session, step by step.                                              *)
Init == /\ hist = <<>> /\ acc = <<>> /\ ck = CK0 /\ rt = RT0 /\ snap = CK0
        /\ phase = "idle" /\ cur = "" /\ pend = <<>> /\ out = <<>>
        /\ last = [v |-> "none", out |-> <<>>, err |-> FALSE]

Submit(i) == /\ phase = "idle" /\ Len(hist) < MaxLen
             /\ cur' = i /\ snap' = ck /\ pend' = Atoms(i) /\ phase' = "checking" /\ out' = <<>>
             /\ UNCHANGED <<hist, acc, ck, rt, last>>

CheckAtom == /\ phase = "checking" /\ pend # <<>>
             /\ IF CheckOK(ck, Head(pend))
                THEN ck' = CheckEff(ck, Head(pend)) /\ pend' = Tail(pend) /\ UNCHANGED phase
                ELSE phase' = "failed" /\ UNCHANGED <<ck, pend>>
             /\ UNCHANGED <<hist, acc, rt, snap, cur, out, last>>

\* what the probe inputs would answer in state (c, r): the harness appends them to the session
ProbeAnswers(c, r) == [p \in 1..Len(Probes) |->
                         LET at == Atoms(Probes[p])[1] IN
                         IF CheckOK(c, at) THEN [v |-> "accepted", out |-> Exec(r, at).o]
                         ELSE [v |-> "rejected", out |-> <<>>]]
Gen(h, a, l, c, r) ==
  Emit => PrintT(<<"GEN", ToJson([hist |-> h, acc |-> a, v |-> l.v, out |-> l.out, err |-> l.err,
                                  probes |-> ProbeAnswers(c, r), x |-> r.x.v])>>)

Restore == /\ phase = "failed"
           /\ ck' = CASE "restore_skips_locals" \in Deviations -> [snap EXCEPT !.x = ck.x]     \* DEVIATION (negative control)
                      [] "restore_skips_methods" \in Deviations -> [snap EXCEPT !.m = ck.m]   \* DEVIATION (negative control)
                      [] OTHER -> snap
           /\ hist' = Append(hist, cur) /\ phase' = "idle" /\ pend' = <<>>
           /\ last' = [v |-> "rejected", out |-> <<>>, err |-> FALSE]
           /\ UNCHANGED <<acc, rt, snap, cur, out>>
           /\ Gen(hist', acc, last', ck', rt)

Accept == /\ phase = "checking" /\ pend = <<>>
          /\ phase' = "running" /\ pend' = Atoms(cur)
          /\ UNCHANGED <<hist, acc, ck, rt, snap, cur, out, last>>

ExecAtom == /\ phase = "running" /\ pend # <<>>
            /\ LET e == Exec(rt, Head(pend)) IN
               /\ rt' = e.r /\ out' = out \o e.o
               /\ IF e.thrown THEN phase' = "thrown" /\ UNCHANGED pend
                  ELSE pend' = Tail(pend) /\ UNCHANGED phase
            /\ UNCHANGED <<hist, acc, ck, snap, cur, last>>

Finish == /\ \/ phase = "running" /\ pend = <<>>
             \/ phase = "thrown"                      \* PrintError, ResetError
          /\ hist' = Append(hist, cur) /\ acc' = Append(acc, cur) /\ phase' = "idle" /\ pend' = <<>>
          /\ last' = [v |-> "accepted", out |-> out, err |-> (phase = "thrown")]
          /\ UNCHANGED <<ck, rt, snap, cur, out>>
          /\ Gen(hist', acc', last', ck, rt)

Done == phase = "idle" /\ Len(hist) = MaxLen /\ UNCHANGED vars

Next == (\E i \in Alphabet : Submit(i)) \/ CheckAtom \/ Restore \/ Accept \/ ExecAtom \/ Finish \/ Done

-----------------------------------------------------------------------------
(* The property.                                                           *)
AtRest == phase = "idle"

\* a rejected input leaves no trace: no class, method, constant or local added, no declared type changed
NoTrace == AtRest /\ last.v = "rejected" => ck = snap
\* nothing of a rejected input ever runs
RejectedNeverRuns == phase \in {"failed"} => rt = Batch(acc).r

\* the session is the batch run of its accepted inputs
SessionIsBatch ==
  AtRest => LET b == Batch(acc) IN
            /\ b.ok                                    \* the accepted inputs are a valid program
            /\ ck = b.c /\ rt = b.r                    \* same declarations, same runtime state
            /\ last.v = "accepted" => (last.out = b.o /\ last.err = b.thrown)

\* what the checker believes exists is what exists at run time
CheckerAgreesWithRuntime ==
  AtRest => /\ (ck.m = "none") = (rt.m = 0) /\ (ck.a = "none") = (rt.a = 0)
            /\ (ck.k = "none") = (rt.k = 0) /\ (ck.x = "none") = ~rt.x.def
            /\ (ck.u = "none") = (rt.u = 0) /\ (ck.p = "none") = (rt.p = 0)

TypeOK == /\ phase \in {"idle", "checking", "failed", "running", "thrown"}
          /\ Len(hist) <= MaxLen /\ Len(acc) <= Len(hist)
=============================================================================
