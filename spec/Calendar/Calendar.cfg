CONSTANTS
  StartDates <- MCStartDates
  StartStamps <- MCStartStamps
  DaySpans <- MCDaySpans
  MonthSpans <- MCMonthSpans
  YearSpans <- MCYearSpans
  ClockSpans <- MCClockSpans
  Targets <- MCTargets
  DateSpanVals <- MCDateSpanVals
  TimeSpanVals <- MCTimeSpanVals
  StampSpanVals <- MCStampSpanVals
  MaxDepth <- MCMaxDepth
  FormatLevel <- MCFormatLevel
  Deviations <- MCDeviations
INIT Init
NEXT Next
INVARIANTS TypeOK CalendarBijection ArithmeticExact DifferenceLaw RoundTripLaw SpanComponentsLaw
CHECK_DEADLOCK FALSE
