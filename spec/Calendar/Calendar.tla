------------------------------ MODULE Calendar ------------------------------
(***************************************************************************)
(* Reference semantics of Elk's calendar values (property C22).            *)
(*                                                                         *)
(*   * the proleptic Gregorian calendar as a bijection between civil       *)
(*     dates (y, m, d) and day numbers (day 0 = 0000-01-01), defined from  *)
(*     the leap rule (DaysFromCivil) and, independently, by the closed     *)
(*     era/day-of-era form (CivilFromDays);                                *)
(*   * Date / DateTime plus or minus spans: exact day arithmetic, month    *)
(*     and year arithmetic on the month index, time of day kept as         *)
(*     separate (second-of-day, nanosecond) components so that nothing     *)
(*     exceeds TLC's 32-bit integers;                                      *)
(*   * Representable(y): results of Date arithmetic outside the year range *)
(*     are the ERROR outcome, never a wrapped value;                       *)
(*   * the difference law  d1 + (d2 - d1) = d2 ;                           *)
(*   * the round-trip laws  Parse(Format(v, f), f) = v  for every format f *)
(*     whose directives determine v, and  Parse(ToString(s)) = s  for      *)
(*     spans.                                                              *)
(*                                                                         *)
(* The state is ONE calendar value (or one span); every action is one      *)
(* operation of the real API and emits a GEN record: operation, operands   *)
(* and the outcome the reference semantics allows.  The harness replays    *)
(* every record on the real code (natives of Std::Date, Std::DateTime and  *)
(* the span classes, and emitted Elk programs) and compares.  The laws are *)
(* invariants checked by TLC on every reachable value.                     *)
(*                                                                         *)
(* Known deviations of the implementation are NAMED guarded operators      *)
(* (section "Deviations"): when a name is in Deviations and its guard      *)
(* holds, the GEN record carries the outcome that deviation predicts, so   *)
(* that a recorded finding is recognised exactly and any other difference  *)
(* is still reported.  They never influence the transitions or the laws.   *)
(***************************************************************************)
EXTENDS Integers, Sequences, FiniteSets, TLC, Json

CONSTANTS
  StartDates,     \* set of <<y, m, d>>                      Date values the walk starts from
  StartStamps,    \* set of <<y, m, d, sod, ns, off>>        DateTime values (off = zone offset, minutes)
  DaySpans,       \* set of Int                              n.days
  MonthSpans,     \* set of Int                              n.months
  YearSpans,      \* set of Int                              n.years
  ClockSpans,     \* set of <<days, secs, ns>>               Time::Span, components of one sign
  Targets,        \* set of <<y, m, d, sod, ns>>             second operands of the difference law
  DateSpanVals,   \* set of <<months, days>>                 Date::Span values (round trip)
  TimeSpanVals,   \* set of <<sign, hours, secs, ns>>        Time::Span values (round trip)
  StampSpanVals,  \* set of <<months, days, sign, secs, ns>> DateTime::Span values (round trip)
  MaxDepth,       \* length of the arithmetic walk
  FormatLevel,    \* -1: no round trips, 0: base formats, 1: every directive one by one, 2: in pairs, 3: all combinations
  Deviations      \* names of known deviations to annotate

VARIABLES cur,    \* the calendar value: [k, y, m, d, sod, ns, off], k in {"date","dt","err","none"}
          sp,     \* the span under test: [k, mo, dy, sg, h, s, n], k in {"dspan","tspan","dtspan","none"}
          depth

vars == <<cur, sp, depth>>

-----------------------------------------------------------------------------
(* The proleptic Gregorian calendar (astronomical year numbering: year 0 is *)
(* a leap year, year -1 is 2 BC).                                           *)

MinYear == -4194304
MaxYear == 4194303
Representable(y) == y >= MinYear /\ y <= MaxYear

IsLeap(y) == (y % 4 = 0 /\ y % 100 # 0) \/ y % 400 = 0

DaysInMonth(y, m) == CASE m = 2 -> IF IsLeap(y) THEN 29 ELSE 28
                       [] m \in {4, 6, 9, 11} -> 30
                       [] OTHER -> 31

ValidCivil(y, m, d) == m \in 1..12 /\ d >= 1 /\ d <= DaysInMonth(y, m)

CumDays == <<0, 31, 59, 90, 120, 151, 181, 212, 243, 273, 304, 334>>
DaysBeforeMonth(y, m) == CumDays[m] + (IF m > 2 /\ IsLeap(y) THEN 1 ELSE 0)

\* leap years in [0, y) for y > 0, minus leap years in [y, 0) for y < 0 (\div is floor division)
DaysBeforeYear(y) == 365 * y + ((y + 3) \div 4) - ((y + 99) \div 100) + ((y + 399) \div 400)

DaysFromCivil(y, m, d) == DaysBeforeYear(y) + DaysBeforeMonth(y, m) + d - 1

\* the inverse, in closed form (400-year eras starting on 0000-03-01 = day 60)
CivilFromDays(z) ==
  LET z0  == z - 60
      era == z0 \div 146097
      doe == z0 - era * 146097
      yoe == (doe - (doe \div 1460) + (doe \div 36524) - (doe \div 146096)) \div 365
      doy == doe - (365 * yoe + (yoe \div 4) - (yoe \div 100))
      mp  == (5 * doy + 2) \div 153
      d   == doy - ((153 * mp + 2) \div 5) + 1
      m   == IF mp < 10 THEN mp + 3 ELSE mp - 9
      y   == yoe + era * 400 + (IF m <= 2 THEN 1 ELSE 0)
  IN <<y, m, d>>

\* 0000-01-01 is a Saturday.  Monday = 1 .. Sunday = 7
Weekday(z)    == ((z + 5) % 7) + 1
WeekdaySun(z) == Weekday(z) % 7                     \* Sunday = 0 .. Saturday = 6

-----------------------------------------------------------------------------
(* Values *)

Val(k, y, m, d, sod, ns, off) == [k |-> k, y |-> y, m |-> m, d |-> d, sod |-> sod, ns |-> ns, off |-> off]
DateV(t)  == Val("date", t[1], t[2], t[3], 0, 0, 0)
StampV(t) == Val("dt", t[1], t[2], t[3], t[4], t[5], t[6])
ErrV      == Val("err", 0, 0, 0, 0, 0, 0)
NoV       == Val("none", 0, 0, 0, 0, 0, 0)
NoSpan    == [k |-> "none", mo |-> 0, dy |-> 0, sg |-> 0, h |-> 0, s |-> 0, n |-> 0]

Days(v) == DaysFromCivil(v.y, v.m, v.d)
IsCal(v) == v.k \in {"date", "dt"}

\* the result of an operation on a value of kind k: Date results outside the year range are errors
Mk(k, ymd, sod, ns, off) ==
  IF k = "date" /\ ~Representable(ymd[1]) THEN ErrV ELSE Val(k, ymd[1], ymd[2], ymd[3], sod, ns, off)

-----------------------------------------------------------------------------
(* Arithmetic *)

AddDays(v, n) == Mk(v.k, CivilFromDays(Days(v) + n), v.sod, v.ns, v.off)

\* Month arithmetic works on the month index.  When the day of month does not exist in the target
\* month the property leaves the choice open: clamp to the last day, or roll over into the next month.
MonthTarget(v, k) == LET t == v.y * 12 + (v.m - 1) + k IN <<t \div 12, (t % 12) + 1>>
AddMonthsAlts(v, k) ==
  LET ym == MonthTarget(v, k)
      dim == DaysInMonth(ym[1], ym[2])
  IN IF v.d <= dim
     THEN {Mk(v.k, <<ym[1], ym[2], v.d>>, v.sod, v.ns, v.off)}
     ELSE {Mk(v.k, <<ym[1], ym[2], dim>>, v.sod, v.ns, v.off),
           Mk(v.k, CivilFromDays(DaysFromCivil(ym[1], ym[2], 1) + v.d - 1), v.sod, v.ns, v.off)}
AddMonthsClamp(v, k) ==
  LET ym == MonthTarget(v, k)
      dim == DaysInMonth(ym[1], ym[2])
  IN Mk(v.k, <<ym[1], ym[2], IF v.d <= dim THEN v.d ELSE dim>>, v.sod, v.ns, v.off)

\* A Time::Span is <<days, secs, ns>> with all components of one sign (so each fits 32 bits).
AddClock(v, c) ==
  LET n2  == v.ns + c[3]
      s2  == v.sod + c[2] + (n2 \div 1000000000)
  IN Mk(v.k, CivilFromDays(Days(v) + c[1] + (s2 \div 86400)), s2 % 86400, n2 % 1000000000, v.off)
NegClock(c) == <<0 - c[1], 0 - c[2], 0 - c[3]>>

\* The difference of two values, as an exact <<days, secs, ns>> triple, and the difference law.
DiffClock(a, b) == <<Days(a) - Days(b), a.sod - b.sod, a.ns - b.ns>>
TargetV(v, t) == Val(v.k, t[1], t[2], t[3], IF v.k = "date" THEN 0 ELSE t[4], IF v.k = "date" THEN 0 ELSE t[5], v.off)

-----------------------------------------------------------------------------
(* Calendar fields carried by format directives, and their inverse.        *)

YearDay(v) == Days(v) - DaysFromCivil(v.y, 1, 1) + 1

ISOWeeksIn(y) == LET w == Weekday(DaysFromCivil(y, 1, 1))
                 IN IF w = 4 \/ (w = 3 /\ IsLeap(y)) THEN 53 ELSE 52
ISOYearWeek(v) ==
  LET w == (YearDay(v) - Weekday(Days(v)) + 10) \div 7
  IN IF w < 1 THEN <<v.y - 1, ISOWeeksIn(v.y - 1)>>
     ELSE IF w > ISOWeeksIn(v.y) THEN <<v.y + 1, 1>>
     ELSE <<v.y, w>>
FromISO(g, w, wd) == LET z4 == DaysFromCivil(g, 1, 4)
                     IN CivilFromDays(z4 - (Weekday(z4) - 1) + (w - 1) * 7 + (wd - 1))

\* %U: week of the year, weeks start on Sunday, days before the first Sunday are week 0 (C strftime)
WeekU(v) == (YearDay(v) + 6 - WeekdaySun(Days(v))) \div 7
FromWeekU(y, u, ws) == LET z1 == DaysFromCivil(y, 1, 1)
                           s1 == z1 + ((7 - WeekdaySun(z1)) % 7)          \* first Sunday
                       IN CivilFromDays(IF u = 0 THEN z1 + (ws - WeekdaySun(z1)) ELSE s1 + (u - 1) * 7 + ws)
\* %W: the same with weeks starting on Monday
WeekW(v) == (YearDay(v) + 6 - (Weekday(Days(v)) - 1)) \div 7
FromWeekW(y, w, wd) == LET z1 == DaysFromCivil(y, 1, 1)
                           m1 == z1 + ((8 - Weekday(z1)) % 7)             \* first Monday
                       IN CivilFromDays(IF w = 0 THEN z1 + (wd - Weekday(z1)) ELSE m1 + (w - 1) * 7 + (wd - 1))

\* truncated quotient (Go's / on ints) without negating the dividend
Quot(a, b) == IF a >= 0 THEN a \div b ELSE (a + b - 1) \div b
Rem(a, b)  == a - b * Quot(a, b)

-----------------------------------------------------------------------------
(* Formats.  A format is a record [sch, parts, seps]: the scheme says which *)
(* fields determine the date, parts are the directive texts of its slots,   *)
(* the text is parts joined by the separators.                              *)

YearAlt  == <<"%Y", "%-Y", "%_Y", "%C%y", "%-C.%-y", "%_C.%_y">>
MonthAlt == <<"%m", "%-m", "%_m", "%B", "%^B", "%b", "%^b", "%h">>
DayAlt   == <<"%d", "%-d", "%_d", "%e">>
YDayAlt  == <<"%j", "%-j", "%_j">>
IsoYAlt  == <<"%G", "%-G", "%_G">>
IsoWAlt  == <<"%V", "%-V", "%_V">>
WdayAlt  == <<"%u", "%w", "%A", "%^A", "%a", "%^a">>
WeekUAlt == <<"%U", "%-U", "%_U">>
WeekWAlt == <<"%W", "%-W", "%_W">>
SepAlt   == <<"-", " ", "/", "%%", "%n", "%t", ", ">>

HourAlt  == <<"%H", "%-H", "%_H", "%k", "%I %p", "%-I %P", "%_I %^P", "%l %p">>
MinAlt   == <<"%M", "%-M", "%_M">>
SecAlt   == <<"%S", "%-S", "%_S">>
\* fraction directives and the resolution (in ns) they keep; "" keeps whole seconds only
FracAlt  == <<".%9N", ".%N", ".%-N", ".%_N", ".%L", ".%-L", ".%_L", ".%3N", ".%6N", ".%-6N", ".%_6N",
              ".%12N", ".%15N", ".%18N", ".%21N", ".%24N", ".%_12N", ".%-12N", "">>
FracRes(f) == CASE f \in {".%L", ".%-L", ".%_L", ".%3N"} -> 1000000
                [] f \in {".%6N", ".%-6N", ".%_6N"} -> 1000
                [] f = "" -> 1000000000
                [] OTHER -> 1
ZoneAlt  == <<" %:z", " %z", "", " %Z">>
\* zone directives that work for every offset; "" and %Z only say "the local zone" (UTC in the harness)
ZoneCarriesOffset(z) == z \in {" %:z", " %z"}

Slots(sch) == CASE sch = "ymd" -> <<YearAlt, MonthAlt, DayAlt>>
                [] sch = "yj"  -> <<YearAlt, YDayAlt>>
                [] sch = "gvu" -> <<IsoYAlt, IsoWAlt, WdayAlt>>
                [] sch = "yUw" -> <<YearAlt, WeekUAlt, WdayAlt>>
                [] sch = "yWu" -> <<YearAlt, WeekWAlt, WdayAlt>>
                [] sch = "hms" -> <<HourAlt, MinAlt, SecAlt, FracAlt, ZoneAlt>>
DateSchemes == {"ymd", "yj", "gvu", "yUw", "yWu"}

Range(q) == {q[i] : i \in DOMAIN q}

\* all choices of one alternative per slot that differ from the base (first) alternative in at most
\* FormatLevel slots
RECURSIVE Choices(_, _)
Choices(slots, budget) ==
  IF Len(slots) = 0 THEN {<<>>}
  ELSE LET alts == Head(slots)
       IN {<<alts[1]>> \o r : r \in Choices(Tail(slots), budget)}
          \cup (IF budget = 0 THEN {}
                ELSE {<<a>> \o r : a \in Range(alts) \ {alts[1]}, r \in Choices(Tail(slots), budget - 1)})

Budget == IF FormatLevel >= 3 THEN 9 ELSE FormatLevel

RECURSIVE Join(_, _)
Join(parts, sep) == IF Len(parts) = 0 THEN ""
                    ELSE IF Len(parts) = 1 THEN parts[1]
                    ELSE parts[1] \o sep \o Join(Tail(parts), sep)

\* Date formats: every scheme with the chosen directives, joined by "-" (and, for the base choice,
\* by every other separator); plus the composite directives.
\* (wsun: the weekday directive is %w, the Sunday-based number)
DateFormats ==
  UNION {{[sch |-> sch, text |-> Join(c, "-"), wsun |-> (Len(c) = 3 /\ c[3] = "%w")] : c \in Choices(Slots(sch), Budget)} : sch \in DateSchemes}
  \cup (IF FormatLevel = 0 THEN {}
        ELSE {[sch |-> sch, text |-> Join([i \in 1..Len(Slots(sch)) |-> Slots(sch)[i][1]], s), wsun |-> FALSE] :
                 sch \in DateSchemes, s \in Range(SepAlt)})
  \cup {[sch |-> "ymd", text |-> "%F", wsun |-> FALSE], [sch |-> "ymd", text |-> "%C %D", wsun |-> FALSE]}

\* DateTime formats: a date part, a clock part (slots joined by ":" , the fraction and the zone are
\* appended), or one of the composite directives.
ClockText(c) == c[1] \o ":" \o c[2] \o ":" \o c[3] \o c[4] \o c[5]
StampFormats ==
  {[sch |-> "ymd", clock |-> c, text |-> "%Y-%m-%d " \o ClockText(c)] : c \in Choices(Slots("hms"), Budget)}
  \cup {[sch |-> "gvu", clock |-> <<"%H", "%M", "%S", ".%9N", " %:z">>, text |-> "%G-W%V-%u %H:%M:%S.%9N %:z"],
        [sch |-> "yj",  clock |-> <<"%H", "%M", "%S", ".%9N", " %z">>,  text |-> "%Y %j %H:%M:%S.%9N %z"],
        [sch |-> "ymd", clock |-> <<"%H", "%M", "%S", "", " %:z">>,     text |-> "%FT%T %:z"],
        [sch |-> "ymd", clock |-> <<"%H", "%M", "%S", "", "">>,         text |-> "%F %R:%S"],
        [sch |-> "ymd", clock |-> <<"%I %p", "%M", "%S", "", "">>,      text |-> "%F %r"],
        [sch |-> "ymd", clock |-> <<"%H", "%M", "%S", "", "">>,         text |-> "%c"],
        [sch |-> "ymd", clock |-> <<"%H", "%M", "%S", "", "">>,         text |-> "%^c"],
        [sch |-> "ymd", clock |-> <<"%H", "%M", "%S", "", " %Z">>,      text |-> "%+"],
        [sch |-> "ymd", clock |-> <<"%H", "%M", "%S", "", " %Z">>,      text |-> "%^+"]}

\* does the clock part keep everything of v?  (fraction resolution, zone)
ClockDetermines(c, v) ==
  /\ v.ns % FracRes(c[4]) = 0
  /\ (ZoneCarriesOffset(c[5]) \/ v.off = 0)

\* What the directives of a scheme say about v, and the value they determine (the reference
\* inverse).  RoundTripLaw below states that the latter undoes the former.
Project(sch, v) ==
  CASE sch = "ymd" -> <<v.y, v.m, v.d>>
    [] sch = "yj"  -> <<v.y, YearDay(v)>>
    [] sch = "gvu" -> ISOYearWeek(v) \o <<Weekday(Days(v))>>
    [] sch = "yUw" -> <<v.y, WeekU(v), WeekdaySun(Days(v))>>
    [] sch = "yWu" -> <<v.y, WeekW(v), Weekday(Days(v))>>
Reconstruct(sch, p) ==
  CASE sch = "ymd" -> <<p[1], p[2], p[3]>>
    [] sch = "yj"  -> CivilFromDays(DaysFromCivil(p[1], 1, 1) + p[2] - 1)
    [] sch = "gvu" -> FromISO(p[1], p[2], p[3])
    [] sch = "yUw" -> FromWeekU(p[1], p[2], p[3])
    [] sch = "yWu" -> FromWeekW(p[1], p[2], p[3])

-----------------------------------------------------------------------------------------------------------------------------------------------------
(* Deviations: named, guarded descriptions of what the implementation is    *)
(* known to do instead.  Each yields a sequence of [name, out] annotations  *)
(* (out = the value that deviation predicts; k = "err": any error; k =      *)
(* "any": an unrelated value).  They never influence transitions or laws.   *)

Dev(name, out) == <<[name |-> name, out |-> out]>>
AnyV == Val("any", 0, 0, 0, 0, 0, 0)
WrapYear(y) == ((y + 4194304) % 8388608) - 4194304
Raw(v) == [v EXCEPT !.k = "dt"]                       \* arithmetic without the Date range check
Packed(v, r) == IF v.k = "date" THEN Val("date", WrapYear(r.y), r.m, r.d, 0, 0, 0) ELSE r

\* "year_wrap": the packed Date keeps 23 year bits and no operation checks the range.
DevYearWrap(v, ymd) ==
  IF "year_wrap" \in Deviations /\ v.k = "date" /\ ~Representable(ymd[1])
  THEN Dev("year_wrap", Val("date", WrapYear(ymd[1]), ymd[2], ymd[3], 0, 0, 0)) ELSE <<>>

\* "day_span_ns_overflow": n days are added as n * 86_400_000_000_000 ns in an int64, which wraps once
\* for 106751 < |n| <= 320255 (2^64 ns = 213503 d 84873.709551616 s).
Overflows(n) == (n > 106751 \/ n < -106751) /\ n <= 320255 /\ n >= -320255
WrappedClock(n) == IF n > 0 THEN <<n - 213504, 1526, 290448384>> ELSE <<n + 213503, 84873, 709551616>>
\*   value + n.days : the wrapped duration is added to the value itself
DevDayOverflow(v, n) ==
  IF "day_span_ns_overflow" \in Deviations /\ Overflows(n)
  THEN Dev("day_span_ns_overflow", Packed(v, AddClock(Raw(v), WrappedClock(n)))) ELSE <<>>
\*   value - n.days : the date is rebuilt from a packed Date (year bits wrapped) holding the first of
\*   the month, plus (day - 1 - n) days (plus the lost borrow below); the clock is kept
SubBorrow(v, n) == IF v.k = "dt" /\ v.d - 1 - n < 0 /\ (v.sod > 0 \/ v.ns > 0) THEN 1 ELSE 0
SubImpl(v, n, wrapped) ==
  LET e    == v.d - 1 - n + SubBorrow(v, n)
      t    == v.y * 12 + v.m
      by   == WrapYear(t \div 12)
      base == IF t % 12 = 0 THEN <<by - 1, 12>> ELSE <<by, t % 12>>
      r    == AddClock(Val("dt", base[1], base[2], 1, 0, 0, 0), IF wrapped THEN WrappedClock(e) ELSE <<e, 0, 0>>)
  IN Val(v.k, WrapYear(r.y), r.m, r.d, v.sod, v.ns, 0)
DevSubOverflow(v, n) ==
  LET e == v.d - 1 - n + SubBorrow(v, n)
      t == v.y * 12 + v.m
  IN IF "day_span_ns_overflow" \in Deviations /\ Overflows(e) /\ (t > 0 \/ t % 12 = 0)
     THEN Dev("day_span_ns_overflow", SubImpl(v, n, TRUE))
     ELSE IF "year_wrap" \in Deviations /\ ~Overflows(e) /\ t > 0 /\ ~Representable(t \div 12)
     THEN Dev("year_wrap", SubImpl(v, n, FALSE))     \* the intermediate first-of-month Date wrapped
     ELSE <<>>

\* "sub_days_borrow_lost": `datetime - n.days` turns the value into a span (days, clock), subtracts, and
\* normalises a negative day count with a positive clock to (days + 1, clock - 24h); converting back
\* takes the clock modulo 24h, so the borrowed day is lost: the result is one day late.
DevSubBorrow(v, n) ==
  IF "sub_days_borrow_lost" \in Deviations /\ SubBorrow(v, n) = 1 /\ ~Overflows(v.d - n)
  THEN Dev("sub_days_borrow_lost", [AddDays(v, 1 - n) EXCEPT !.off = 0]) ELSE <<>>

\* "sub_span_drops_zone": `datetime - span` converts the value to a span and back, and the way back
\* always uses the local time zone (UTC in the harness): the wall clock is kept, the instant is not.
\* (The other deviations of the subtraction path therefore predict offset 0 as well.)
DevSubZone(v, ymd) ==
  IF "sub_span_drops_zone" \in Deviations /\ v.off # 0
  THEN Dev("sub_span_drops_zone", Val(v.k, ymd[1], ymd[2], ymd[3], v.sod, v.ns, 0)) ELSE <<>>

\* "sub_negative_month_index": `value - span` rebuilds the date from a month index with truncated
\* division; a negative index that is not a multiple of 12 yields an unrelated date.
DevSubNegative(v, k) ==
  LET t == v.y * 12 + (v.m - 1) - k + 1
  IN IF "sub_negative_month_index" \in Deviations /\ t < 0 /\ t % 12 # 0
     THEN Dev("sub_negative_month_index", AnyV) ELSE <<>>

\* "diff_fieldwise": a - b is the field-wise difference (months, days, clock); adding it back applies
\* the clock, then the days, then the months (clamped), which is not the inverse.
DevDiff(v, t) ==
  IF "diff_fieldwise" \notin Deviations THEN <<>>
  ELSE LET tv  == TargetV(v, t)
           mo  == (tv.y * 12 + tv.m) - (v.y * 12 + v.m)
           x   == AddClock(Raw(v), <<tv.d - v.d, tv.sod - v.sod, tv.ns - v.ns>>)
           r   == Packed(v, AddMonthsClamp(x, mo))
       IN IF r # tv THEN Dev("diff_fieldwise", r) ELSE <<>>

\* "generic_plus_reads_span_bits": when the span's static type is a union, `datetime + span` and
\* `datetime - span` are dispatched at run time (DateTime#+ / #-); an inline Date::Span
\* (months << 32 | uint32(days)) is then read as a count of nanoseconds.
DevDynDays(v, n, sign) ==
  LET c == IF n >= 0 THEN <<0, 0, n>> ELSE <<0, 4, 294967296 + n>>
  IN IF "generic_plus_reads_span_bits" \in Deviations
     THEN Dev("generic_plus_reads_span_bits", AddClock(v, IF sign = 1 THEN c ELSE NegClock(c))) ELSE <<>>

\* "year_text_unparseable": years are printed with a sign and as many digits as needed, but parsed as
\* at most four digits without a sign (the ISO year for %G).
DevYearText(sch, v) ==
  LET y == IF sch = "gvu" THEN ISOYearWeek(v)[1] ELSE v.y
  IN IF "year_text_unparseable" \in Deviations /\ (y < 0 \/ y > 9999)
     THEN Dev("year_text_unparseable", ErrV) ELSE <<>>

\* "week_directives_disagree": strftime and parse do not agree on the week-based directives.
\*   %V  parse adds V weeks (not V - 1) to the Monday of ISO week 1;
\*   %U %W  strftime counts from the 1-based day of the year, parse from the first Sunday / Monday;
\*   the weekday is then applied relative to the weekday of that week start in the directive's own
\*   numbering (%w: Sunday = 0; the others: Monday = 1), whatever day the week starts on.
\* ImplWeekDays is the day number the implementation's parse yields for its own strftime output.
ImplWeekDays(sch, wsun, v) ==
  LET z  == Days(v)
      wd == Weekday(z)
      ws == WeekdaySun(z)
      z1 == DaysFromCivil(v.y, 1, 1)
      Adjust(base) == IF wsun THEN base + (ws - WeekdaySun(base)) ELSE base + (wd - Weekday(base))
  IN CASE sch = "gvu" -> LET gw == ISOYearWeek(v)
                             z4 == DaysFromCivil(gw[1], 1, 4)
                         IN Adjust(z4 - (Weekday(z4) - 1) + gw[2] * 7)
       [] sch = "yUw" -> LET u  == (YearDay(v) + 7 - ws) \div 7
                             s1 == z1 + ((7 - WeekdaySun(z1)) % 7)
                         IN Adjust(IF u = 0 THEN z1 ELSE s1 + (u - 1) * 7)
       [] sch = "yWu" -> LET w  == (YearDay(v) + 7 - (wd - 1)) \div 7
                             m1 == z1 + ((8 - Weekday(z1)) % 7)
                         IN Adjust(IF w = 0 THEN z1 ELSE m1 + (w - 1) * 7)
       [] OTHER -> z
DevWeek(sch, wsun, v) ==
  IF "week_directives_disagree" \in Deviations /\ sch \in {"gvu", "yUw", "yWu"} /\ ImplWeekDays(sch, wsun, v) # Days(v)
  THEN LET r == CivilFromDays(ImplWeekDays(sch, wsun, v))
       IN Dev("week_directives_disagree", Val(v.k, IF v.k = "date" THEN WrapYear(r[1]) ELSE r[1], r[2], r[3], v.sod, v.ns, v.off))
  ELSE <<>>

-----
(* The machine *)

Gen(rec) == PrintT(<<"GEN", ToJson(rec)>>)

Init ==
  /\ depth = 0
  /\ \/ /\ cur \in {DateV(t) : t \in StartDates} \cup {StampV(t) : t \in StartStamps}
        /\ sp = NoSpan
     \/ /\ cur = NoV
        /\ sp \in {[k |-> "dspan", mo |-> t[1], dy |-> t[2], sg |-> 0, h |-> 0, s |-> 0, n |-> 0] : t \in DateSpanVals}
             \cup {[k |-> "tspan", mo |-> 0, dy |-> 0, sg |-> t[1], h |-> t[2], s |-> t[3], n |-> t[4]] : t \in TimeSpanVals}
             \cup {[k |-> "dtspan", mo |-> t[1], dy |-> t[2], sg |-> t[3], h |-> 0, s |-> t[4], n |-> t[5]] : t \in StampSpanVals}

Step(op, arg, alts, devs) ==
  /\ Gen([op |-> op, from |-> cur, arg |-> arg, exp |-> alts, devs |-> devs])
  /\ cur' \in alts
  /\ depth' = depth + 1
  /\ UNCHANGED sp

Walking == IsCal(cur) /\ depth < MaxDepth

PlusDays ==
  /\ Walking
  /\ \E n \in DaySpans :
       Step("add_days", <<n>>, {AddDays(cur, n)},
            DevYearWrap(cur, CivilFromDays(Days(cur) + n)) \o DevDayOverflow(cur, n))

MinusDays ==
  /\ Walking
  /\ \E n \in DaySpans :
       Step("sub_days", <<n>>, {AddDays(cur, 0 - n)},
            DevYearWrap(cur, CivilFromDays(Days(cur) - n)) \o DevSubNegative(cur, 0) \o DevSubOverflow(cur, n) \o DevSubBorrow(cur, n)
              \o DevSubZone(cur, CivilFromDays(Days(cur) - n)))

\* the same operations reached through dynamic dispatch (the span is typed Date::Span | Time::Span)
PlusDaysDyn ==
  /\ Walking /\ cur.k = "dt"
  /\ \E n \in DaySpans : Step("add_days_dyn", <<n>>, {AddDays(cur, n)}, DevDynDays(cur, n, 1))

MinusDaysDyn ==
  /\ Walking /\ cur.k = "dt"
  /\ \E n \in DaySpans : Step("sub_days_dyn", <<n>>, {AddDays(cur, 0 - n)}, DevDynDays(cur, n, -1))

PlusMonths ==
  /\ Walking
  /\ \E k \in MonthSpans :
       Step("add_months", <<k>>, AddMonthsAlts(cur, k),
            LET ym == MonthTarget(cur, k) IN DevYearWrap(cur, <<ym[1], ym[2], IF cur.d <= DaysInMonth(ym[1], ym[2]) THEN cur.d ELSE DaysInMonth(ym[1], ym[2])>>))

MinusMonths ==
  /\ Walking
  /\ \E k \in MonthSpans :
       Step("sub_months", <<k>>, AddMonthsAlts(cur, 0 - k),
            (LET ym == MonthTarget(cur, 0 - k)
                 ro == CivilFromDays(DaysFromCivil(ym[1], ym[2], 1) + cur.d - 1)
             IN DevYearWrap(cur, ro) \o DevSubZone(cur, ro)) \o DevSubNegative(cur, k))

PlusYears ==
  /\ Walking
  /\ \E k \in YearSpans :
       Step("add_years", <<k>>, AddMonthsAlts(cur, 12 * k),
            LET ym == MonthTarget(cur, 12 * k) IN DevYearWrap(cur, <<ym[1], ym[2], IF cur.d <= DaysInMonth(ym[1], ym[2]) THEN cur.d ELSE DaysInMonth(ym[1], ym[2])>>))

MinusYears ==
  /\ Walking
  /\ \E k \in YearSpans :
       Step("sub_years", <<k>>, AddMonthsAlts(cur, 0 - 12 * k),
            (LET ym == MonthTarget(cur, 0 - 12 * k)
                 ro == CivilFromDays(DaysFromCivil(ym[1], ym[2], 1) + cur.d - 1)
             IN DevYearWrap(cur, ro) \o DevSubZone(cur, ro)) \o DevSubNegative(cur, 12 * k))

PlusClock ==
  /\ Walking /\ cur.k = "dt"
  /\ \E c \in ClockSpans : Step("add_clock", c, {AddClock(cur, c)}, <<>>)

MinusClock ==
  /\ Walking /\ cur.k = "dt"
  /\ \E c \in ClockSpans : Step("sub_clock", c, {AddClock(cur, NegClock(c))}, <<>>)

\* cur + (t - cur) = t
DiffAdd ==
  /\ Walking /\ cur.off = 0
  /\ \E t \in Targets :
       LET tv == TargetV(cur, t)
       IN /\ tv # cur
          /\ Step("diff_add", t, {tv}, DevDiff(cur, t))

\* Parse(Format(cur, f), f) = cur ; the value does not change
RoundTrip(op, text, devs) ==
  /\ Gen([op |-> op, from |-> cur, arg |-> text, exp |-> {cur}, devs |-> devs])
  /\ UNCHANGED vars

FormatDate ==
  /\ cur.k = "date" /\ FormatLevel >= 0
  /\ \/ RoundTrip("rt_to_string", "", DevYearText("ymd", cur))
     \/ \E f \in DateFormats : RoundTrip("rt_format", f.text, DevYearText(f.sch, cur) \o DevWeek(f.sch, f.wsun, cur))

FormatStamp ==
  /\ cur.k = "dt" /\ FormatLevel >= 0
  /\ \/ RoundTrip("rt_to_string", "", DevYearText("ymd", cur))
     \/ \E f \in StampFormats : /\ ClockDetermines(f.clock, cur)
                                 /\ RoundTrip("rt_format", f.text, DevYearText(f.sch, cur) \o DevWeek(f.sch, FALSE, cur))

\* Parse(ToString(sp)) = sp
SpanRoundTrip ==
  /\ sp.k # "none"
  /\ Gen([op |-> "rt_span", from |-> sp, arg |-> "", exp |-> {sp}, devs |-> <<>>])
  /\ UNCHANGED vars

Next == \/ PlusDays \/ MinusDays \/ PlusDaysDyn \/ MinusDaysDyn \/ PlusMonths \/ MinusMonths \/ PlusYears \/ MinusYears
        \/ PlusClock \/ MinusClock \/ DiffAdd
        \/ FormatDate \/ FormatStamp \/ SpanRoundTrip

Spec == Init /\ [][Next]_vars

-----------------------------------------------------------------------------
(* The laws (invariants over every reachable value) *)

TypeOK ==
  /\ cur.k \in {"date", "dt", "err", "none"}
  /\ IsCal(cur) => /\ ValidCivil(cur.y, cur.m, cur.d)
                   /\ cur.sod \in 0..86399 /\ cur.ns \in 0..999999999
                   /\ (cur.k = "date" => Representable(cur.y) /\ cur.sod = 0 /\ cur.ns = 0)

\* the two definitions of the calendar are inverse to each other, and consecutive day numbers are
\* consecutive civil dates
CalendarBijection ==
  IsCal(cur) =>
    /\ CivilFromDays(Days(cur)) = <<cur.y, cur.m, cur.d>>
    /\ LET nx == CivilFromDays(Days(cur) + 1)
       IN IF cur.d < DaysInMonth(cur.y, cur.m) THEN nx = <<cur.y, cur.m, cur.d + 1>>
          ELSE IF cur.m < 12 THEN nx = <<cur.y, cur.m + 1, 1>>
          ELSE nx = <<cur.y + 1, 1, 1>>

\* plus and minus are inverse, results move in the direction of the span (no wrapping), and a Date
\* result is an error exactly when it leaves the year range
\* (all spans on the start values; on the values reached by the walk a fixed small set, which keeps
\* TLC's work per state bounded)
LawDays   == IF depth = 0 THEN DaySpans ELSE {1, -1, 31, -366, 146097}
LawMonths == IF depth = 0 THEN MonthSpans \cup {12 * j : j \in YearSpans} ELSE {1, -1, 13, -4800}
LawClocks == IF depth = 0 THEN ClockSpans ELSE {<<0, 0, 1>>, <<0, -86399, -999999999>>}
ArithmeticExact ==
  IsCal(cur) =>
    /\ \A n \in LawDays :
         LET r == AddDays(cur, n)
         IN IF r.k = "err" THEN cur.k = "date" /\ ~Representable(CivilFromDays(Days(cur) + n)[1])
            ELSE /\ Days(r) - Days(cur) = n
                 /\ AddDays(r, 0 - n) = cur
    /\ \A k \in LawMonths :
         \A r \in AddMonthsAlts(cur, k) :
            r.k # "err" =>
               /\ ValidCivil(r.y, r.m, r.d)
               /\ LET ym == MonthTarget(cur, k)
                  IN \/ <<r.y, r.m>> = ym /\ (r.d = cur.d \/ r.d = DaysInMonth(r.y, r.m))
                     \/ /\ cur.d > DaysInMonth(ym[1], ym[2])              \* rolled over into the next month
                        /\ Days(r) = DaysFromCivil(ym[1], ym[2], 1) + cur.d - 1
    /\ cur.k = "dt" =>
         \A c \in LawClocks : AddClock(AddClock(cur, c), NegClock(c)) = cur

\* (the exact difference of two values more than 5 000 000 years apart does not fit TLC's integers)
DifferenceLaw ==
  (IsCal(cur) /\ cur.off = 0) =>
    \A t \in (IF depth = 0 THEN Targets ELSE {}) :
       (t[1] - cur.y \in -5000000..5000000) => AddClock(cur, DiffClock(TargetV(cur, t), cur)) = TargetV(cur, t)

\* the fields of every date scheme determine the date
RoundTripLaw ==
  IsCal(cur) => \A sch \in DateSchemes : Reconstruct(sch, Project(sch, cur)) = <<cur.y, cur.m, cur.d>>

\* a span is the sum of the components its text lists (years/months/days; hours .. nanoseconds)
SpanComponentsLaw ==
  /\ sp.k \in {"dspan", "dtspan"} => Quot(sp.mo, 12) * 12 + Rem(sp.mo, 12) = sp.mo
  /\ sp.k \in {"tspan", "dtspan"} =>
        LET mi == sp.s \div 60  se == sp.s % 60
            ms == sp.n \div 1000000  us == (sp.n \div 1000) % 1000  ns == sp.n % 1000
        IN /\ mi * 60 + se = sp.s
           /\ (ms * 1000 + us) * 1000 + ns = sp.n
           /\ sp.s \in 0..(IF sp.k = "tspan" THEN 3599 ELSE 86399)
           /\ sp.n \in 0..999999999 /\ sp.sg \in {-1, 1}

=============================================================================
