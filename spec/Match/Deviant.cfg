\* the model with named deviations enabled: BoundToMatchedParts is expected to fail there
CONSTANTS
  MissingKey <- MCMissingKey
  Deviations <- MCDeviations
INIT Init
NEXT Next
INVARIANTS TypeOK SelectsFirstMatch SkippedDoNotMatch
CHECK_DEADLOCK FALSE
