------------------------------- MODULE Match -------------------------------
(***************************************************************************)
(* Reference semantics of Elk pattern matching (property C30).             *)
(*                                                                         *)
(*   Match(p, v)          NoMatch | bindings    -- the reference relation  *)
(*   FirstMatch(cases, v) index of the first matching case, 0 = none/else  *)
(*                                                                         *)
(* and a small state machine that mirrors what the compiled `switch` /     *)
(* `do ... catch` does at run time: the cases are tried top to bottom, one *)
(* action per tested case (the compiler emits: pattern code, JUMP_UNLESS   *)
(* to the next case, body, JUMP to the end), the first success selects the *)
(* case and publishes the bindings, running out of cases selects `else`.   *)
(*                                                                         *)
(* Values, patterns and switches are data (JSON records in vals.ndjson and *)
(* switches.ndjson written by the harness' bounded enumerator); Init picks *)
(* every (switch, value of the scrutinee type) pair, so one TLC run        *)
(* decides the invariants below for the whole bounded instance and emits   *)
(* one GEN record per behaviour: the predicted selected case and bindings, *)
(* which the harness compares with the real checker+compiler+VM run of the *)
(* emitted Elk `switch` / `match` / `catch` text.                          *)
(***************************************************************************)
EXTENDS Integers, Sequences, FiniteSets, TLC, Json

CONSTANTS
  MissingKey,   \* The property statement does not say what `{ k: p }` does on a map/record WITHOUT
                \* the key k.  Two readings are admitted, the harness accepts either:
                \*   "fails" - the element (hence the pattern) does not match
                \*   "nil"   - p is matched against nil (what `record[k]` evaluates to)
  Deviations    \* names of KNOWN deviations of the implementation the model should reproduce
                \* ({} = reference semantics).  Each is a named guarded branch below.

Vals     == ndJsonDeserialize("vals.ndjson")      \* sequence of values
Switches == ndJsonDeserialize("switches.ndjson")  \* sequence of [id, ty, cases, claimed]

-----------------------------------------------------------------------------
(* Values: [k |-> kind, ...].                                              *)
(*   nil | bool b | int n | float h (h = twice the value: 1.5 is h=3) |    *)
(*   str s | sym s | char s | list es | tuple es | map ks vs | record ks vs *)
(*   | obj c fs   (instance of class c, fs = attribute values in order)    *)
NilV       == [k |-> "nil"]
UndefV     == [k |-> "undef"]        \* only produced by a deviation; never a reference value
ListV(es)  == [k |-> "list", es |-> es]

Scalar(v) == v.k \in {"nil", "bool", "int", "float", "str", "sym", "char"}

(* `==` on scalars: same class and same value (1 == 1.0 is false in Elk).  *)
ScalarEq(a, b) ==
  /\ a.k = b.k
  /\ CASE a.k = "nil"   -> TRUE
       [] a.k = "bool"  -> a.b = b.b
       [] a.k = "int"   -> a.n = b.n
       [] a.k = "float" -> a.h = b.h
       [] a.k \in {"str", "sym", "char"} -> a.s = b.s
       [] OTHER -> FALSE

(* magnitude used by relational patterns; only compared within one class *)
Num(v) == IF v.k = "int" THEN v.n ELSE v.h

(* Classes of the instance: P(x, y) and its subclass Q. *)
Attrs == <<"x", "y">>
AttrIdx(a) == CHOOSE i \in 1..Len(Attrs) : Attrs[i] = a

(* the classes / mixins a value is an instance of (the part of the real   *)
(* hierarchy the instance uses: an ArrayList is a List and a Tuple, a      *)
(* HashMap is a Map and a Record)                                          *)
ClassesOf(v) ==
  CASE v.k = "nil"    -> {"Nil"}
    [] v.k = "bool"   -> {"Bool"}
    [] v.k = "int"    -> {"Int"}
    [] v.k = "float"  -> {"Float"}
    [] v.k = "str"    -> {"String"}
    [] v.k = "sym"    -> {"Symbol"}
    [] v.k = "char"   -> {"Char"}
    [] v.k = "list"   -> {"List", "Tuple"}
    [] v.k = "tuple"  -> {"Tuple"}
    [] v.k = "map"    -> {"Map", "Record"}
    [] v.k = "record" -> {"Record"}
    [] v.k = "obj"    -> IF v.c = "Q" THEN {"Q", "P"} ELSE {v.c}
    [] OTHER          -> {}
IsA(v, c) == c \in ClassesOf(v)

(* static scrutinee types of the instance are unions of these atoms ("any" = top) *)
Inhabits(v, ty) ==
  \E i \in 1..Len(ty) : ty[i] = "any" \/ (ty[i] = "nil" /\ v.k = "nil") \/ IsA(v, ty[i])

-----------------------------------------------------------------------------
(* Match results *)
Ok(b) == [ok |-> TRUE, b |-> b]      \* b: sequence of [n |-> name, v |-> value]; later entries win
No    == [ok |-> FALSE, b |-> <<>>]

InRange(p, n) ==
  /\ p.haslo => IF p.op \in {"<..", "<.<"} THEN p.lo < n ELSE p.lo <= n
  /\ p.hashi => IF p.op \in {"..<", "<.<"} THEN n < p.hi ELSE n <= p.hi

Rel(op, a, b) == CASE op = "<" -> a < b [] op = "<=" -> a <= b [] op = ">" -> a > b [] op = ">=" -> a >= b

KeyIdx(v, key) == IF \E i \in 1..Len(v.ks) : ScalarEq(v.ks[i], key)
                  THEN CHOOSE i \in 1..Len(v.ks) : ScalarEq(v.ks[i], key) ELSE 0

RECURSIVE Match(_, _), MatchAll(_, _, _), MatchEntries(_, _, _, _), MatchAttrs(_, _, _)

(* what a key pattern element sees when the key is missing (pk = "map" | "record": the pattern) *)
Missing(p, v, pk) ==
  IF "map_missing_key_undefined" \in Deviations
  THEN IF pk = "map" THEN Match(p, UndefV)     \* DEVIATION: the typed HashMap subscript a map pattern
                                               \* compiles to leaks the internal `undefined`
       ELSE Match(p, NilV)                     \* (a record pattern calls `[]`, which yields nil)
  ELSE IF MissingKey = "nil" THEN Match(p, NilV) ELSE No

Match(p, v) ==
  CASE p.k = "lit"    -> IF ScalarEq(v, p.v) THEN Ok(<<>>) ELSE No
    [] p.k = "eq"     -> IF (p.op = "==") = ScalarEq(v, p.v) THEN Ok(<<>>) ELSE No
    [] p.k = "rel"    -> IF v.k = p.v.k /\ Rel(p.op, Num(v), Num(p.v)) THEN Ok(<<>>) ELSE No
    [] p.k = "range"  -> IF v.k = "int" /\ InRange(p, v.n) THEN Ok(<<>>) ELSE No
    [] p.k = "bind"   -> Ok(<<[n |-> p.n, v |-> v]>>)
    [] p.k = "wild"   -> Ok(<<>>)
    [] p.k = "must"   -> IF v.k # "nil" THEN Ok(<<>>) ELSE No
    [] p.k = "type"   -> IF IsA(v, p.c) THEN Ok(<<>>) ELSE No
    [] p.k = "obj"    -> IF IsA(v, p.c) THEN MatchAttrs(p.attrs, v, 1) ELSE No
    [] p.k \in {"list", "tuple"} ->
         IF ~IsA(v, IF p.k = "list" THEN "List" ELSE "Tuple") THEN No
         ELSE LET n == Len(v.es) a == Len(p.pre) z == Len(p.post) IN
              IF ~p.rest THEN (IF n = a THEN MatchAll(p.pre, v.es, 1) ELSE No)
              ELSE IF n < a + z THEN No
              ELSE LET ra  == MatchAll(p.pre, SubSeq(v.es, 1, a), 1)
                       rz  == MatchAll(p.post, SubSeq(v.es, n - z + 1, n), 1)
                       mid == IF p.restn = "" THEN <<>>
                              ELSE <<[n |-> p.restn, v |-> ListV(SubSeq(v.es, a + 1, n - z))]>>
                   IN IF ra.ok /\ rz.ok THEN Ok(ra.b \o mid \o rz.b) ELSE No
    [] p.k \in {"map", "record"} ->
         IF IsA(v, IF p.k = "map" THEN "Map" ELSE "Record") THEN MatchEntries(p.es, v, 1, p.k) ELSE No
    [] p.k = "as"     -> LET r == Match(p.p, v) IN
                         IF r.ok THEN Ok(r.b \o <<[n |-> p.n, v |-> v]>>) ELSE No
    [] p.k = "or"     -> LET l == Match(p.l, v) IN IF l.ok THEN l ELSE Match(p.r, v)
    [] p.k = "and"    -> LET l == Match(p.l, v) IN
                         IF ~l.ok THEN No
                         ELSE LET r == Match(p.r, v) IN IF r.ok THEN Ok(l.b \o r.b) ELSE No
    [] p.k = "nilable" -> LET l == Match(p.p, v) IN       \* `p?` is `p || nil`
                          IF l.ok THEN l ELSE IF v.k = "nil" THEN Ok(<<>>) ELSE No

(* ps[j..] against vs[j..] (equal lengths), left to right *)
MatchAll(ps, vs, j) ==
  IF j > Len(ps) THEN Ok(<<>>)
  ELSE LET r == Match(ps[j], vs[j]) IN
       IF ~r.ok THEN No
       ELSE LET rs == MatchAll(ps, vs, j + 1) IN IF rs.ok THEN Ok(r.b \o rs.b) ELSE No

(* map / record pattern elements [key, p] *)
MatchEntries(es, v, j, pk) ==
  IF j > Len(es) THEN Ok(<<>>)
  ELSE LET i == KeyIdx(v, es[j].key)
           r == IF i = 0 THEN Missing(es[j].p, v, pk) ELSE Match(es[j].p, v.vs[i]) IN
       IF ~r.ok THEN No
       ELSE LET rs == MatchEntries(es, v, j + 1, pk) IN IF rs.ok THEN Ok(r.b \o rs.b) ELSE No

(* object pattern attributes [a, p]: p against the value of getter a *)
MatchAttrs(as, v, j) ==
  IF j > Len(as) THEN Ok(<<>>)
  ELSE LET r == Match(as[j].p, v.fs[AttrIdx(as[j].a)]) IN
       IF ~r.ok THEN No
       ELSE LET rs == MatchAttrs(as, v, j + 1) IN IF rs.ok THEN Ok(r.b \o rs.b) ELSE No

(* the reference relation of the property: the FIRST case whose pattern matches *)
Matching(cases, v) == {i \in 1..Len(cases) : Match(cases[i], v).ok}
FirstMatch(cases, v) ==
  IF Matching(cases, v) = {} THEN 0
  ELSE CHOOSE i \in Matching(cases, v) : \A j \in Matching(cases, v) : i <= j

-----------------------------------------------------------------------------
(* "Variables are bound to the matched parts": the parts of a value *)
RECURSIVE Parts(_)
Parts(v) ==
  {v} \cup
  CASE v.k \in {"list", "tuple"} ->
         UNION {Parts(v.es[i]) : i \in 1..Len(v.es)}
         \cup (IF v.k = "list" \/ v.k = "tuple"
               THEN {ListV(SubSeq(v.es, i, j)) : i \in 1..(Len(v.es) + 1), j \in 0..Len(v.es)}
               ELSE {})
    [] v.k \in {"map", "record"} -> UNION {Parts(v.vs[i]) : i \in 1..Len(v.vs)}
    [] v.k = "obj" -> UNION {Parts(v.fs[i]) : i \in 1..Len(v.fs)}
    [] OTHER -> {}

-----------------------------------------------------------------------------
(* The run-time machine of one switch on one value *)
VARIABLES si,    \* index of the switch
          vi,    \* index of the scrutinee value
          pc,    \* "test" | "done"
          ci,    \* case being tested
          sel,   \* selected case (0 = else / nothing caught), -1 while testing
          bnd    \* bindings published by the selected case
vars == <<si, vi, pc, ci, sel, bnd>>

Sw    == Switches[si]
Val   == Vals[vi]
Cases == Sw.cases

Init == /\ si \in 1..Len(Switches)
        /\ vi \in {i \in 1..Len(Vals) : Inhabits(Vals[i], Switches[si].ty)}
        /\ pc = "test" /\ ci = 1 /\ sel = -1 /\ bnd = <<>>

(* a switch the checker accepted as exhaustive (claimed) must select a case *)
ExhaustiveHolds(s, selected) == s.claimed => selected # 0

Emit(selected, b) ==
  PrintT(<<"GEN", ToJson([sw |-> Sw.id, vi |-> vi, sel |-> selected, b |-> b,
                          exh |-> ExhaustiveHolds(Sw, selected)])>>)

CaseFails ==
  /\ pc = "test" /\ ci <= Len(Cases) /\ ~Match(Cases[ci], Val).ok
  /\ ci' = ci + 1
  /\ UNCHANGED <<si, vi, pc, sel, bnd>>

CaseMatches ==
  /\ pc = "test" /\ ci <= Len(Cases)
  /\ LET r == Match(Cases[ci], Val) IN
     /\ r.ok
     /\ sel' = ci /\ bnd' = r.b /\ pc' = "done"
     /\ Emit(ci, r.b)
  /\ UNCHANGED <<si, vi, ci>>

NoCaseLeft ==
  /\ pc = "test" /\ ci > Len(Cases)
  /\ sel' = 0 /\ bnd' = <<>> /\ pc' = "done"
  /\ Emit(0, <<>>)
  /\ UNCHANGED <<si, vi, ci>>

Done == pc = "done" /\ UNCHANGED vars

Next == CaseFails \/ CaseMatches \/ NoCaseLeft \/ Done

-----------------------------------------------------------------------------
(* Properties *)

(* the machine selects exactly the first matching case of the reference relation *)
SelectsFirstMatch == pc = "done" => sel = FirstMatch(Cases, Val)

(* every case skipped so far does not match, nothing is selected early *)
SkippedDoNotMatch == pc = "test" => \A j \in 1..(ci - 1) : ~Match(Cases[j], Val).ok

(* variables are bound to parts of the scrutinee (or to nil under the "nil" reading of a *)
(* missing key); a deviation that binds anything else violates this                     *)
BoundToMatchedParts ==
  pc = "done" => \A i \in 1..Len(bnd) :
                    bnd[i].v \in Parts(Val) \/ (MissingKey = "nil" /\ bnd[i].v = NilV)

(* selecting does not depend on anything but the (cases, value) pair: publishing is final *)
TypeOK == /\ pc \in {"test", "done"} /\ ci \in 1..(Len(Cases) + 1)
          /\ sel \in -1..Len(Cases) /\ (pc = "test" <=> sel = -1)
=============================================================================
