CONSTANTS
  MissingKey <- MCMissingKey
  Deviations <- MCDeviations
INIT Init
NEXT Next
INVARIANTS TypeOK SelectsFirstMatch SkippedDoNotMatch BoundToMatchedParts
CHECK_DEADLOCK FALSE
