------------------------------ MODULE Iterables ------------------------------
(***************************************************************************)
(* Property C23: ranges and iterable operations agree with a list model.   *)
(*                                                                         *)
(* A SOURCE is an iterable value: a list, tuple, set, map, a range of one  *)
(* of the eight kinds, a generator, a channel, a list iterator.  Its       *)
(* reference meaning is the sequence Elems(src) ("the materialised element *)
(* list").  The state is a source and a cursor `pos`: the number of        *)
(* elements already taken out of a ONE-SHOT source (iterator, generator,   *)
(* channel, range iterator) with `next`.  Actions:                         *)
(*   Advance   one call of `next`: yields Elems[pos+1] or :stop_iteration  *)
(*   Op        one generic iterable operation; its result is the list      *)
(*             operation applied to the remaining elements                 *)
(*   Iterate   a `for .. in` loop over the source: yields Elems in order   *)
(*   Contains  range membership: agrees with the bounds                    *)
(* Every transition emits a GEN record (source, cursor, operation,         *)
(* arguments, expected outcome); harness/prop/c23 replays them as batched  *)
(* Elk programs.  After an operation on a one-shot source the cursor is    *)
(* unspecified (how far a short-circuiting operation reads ahead is not    *)
(* part of the property), so a behaviour ends there.                       *)
(*                                                                         *)
(* Sets and maps have no specified iteration order: the harness observes   *)
(* the order of each set/map of the instance on the real implementation    *)
(* first and passes it in as the constant Order; TLC checks that every     *)
(* observed order is a permutation of the inserted elements (invariant     *)
(* OrderIsPermutation - a violation is a violation of the real code) and   *)
(* all operations are then predicted on that order.                        *)
(***************************************************************************)
EXTENDS Integers, Sequences, FiniteSets, TLC, Json

CONSTANTS
  Vals,        \* element alphabet of collections
  MaxLen,      \* longest collection
  Kinds,       \* collection kinds of the instance: subset of CollKinds
  RangeKinds,  \* subset of the eight range kinds
  Bounds,      \* range bounds
  Probes,      \* values probed with contains / index_of
  Counts,      \* arguments of take / drop
  Preds,       \* predicate closures  (names, see PredHolds)
  Maps,        \* mapper closures     (names, see MapApply)
  Inits,       \* initial accumulators of fold
  EndlessTake, \* how many elements of an endless range are looked at
  Order        \* observed iteration order: [kind -> [insertion sequence -> sequence]], for sets and maps

VARIABLES src, pos, done
vars == <<src, pos, done>>

CollKinds == {"list", "tuple", "set", "map", "gen", "chan", "listiter"}
OneShot(k) == k \in {"gen", "chan", "listiter", "rangeiter"}
Unordered(k) == k \in {"set", "map"}

-----------------------------------------------------------------------------
(* Ranges: (rk, lo, hi).                                                   *)
HasLo(rk)  == rk \in {"closed", "open", "lopen", "ropen", "el_closed", "el_open"}
HasHi(rk)  == rk \in {"closed", "open", "lopen", "ropen", "bl_closed", "bl_open"}
LoOpen(rk) == rk \in {"open", "lopen", "el_open"}
HiOpen(rk) == rk \in {"open", "ropen", "bl_open"}

InRange(rk, lo, hi, x) ==
  /\ HasLo(rk) => (IF LoOpen(rk) THEN x > lo ELSE x >= lo)
  /\ HasHi(rk) => (IF HiOpen(rk) THEN x < hi ELSE x <= hi)

RECURSIVE Upto(_, _)
Upto(a, b) == IF a > b THEN <<>> ELSE <<a>> \o Upto(a + 1, b)

\* the elements a range with a lower bound yields, in order; of an endless range: its first n
RangeElemsN(rk, lo, hi, n) ==
  LET first == IF LoOpen(rk) THEN lo + 1 ELSE lo
      last  == IF ~HasHi(rk) THEN first + n - 1 ELSE IF HiOpen(rk) THEN hi - 1 ELSE hi
  IN Upto(first, last)
RangeElems(rk, lo, hi) == RangeElemsN(rk, lo, hi, EndlessTake)

-----------------------------------------------------------------------------
(* Sources.                                                                *)
SeqsUpTo(n) == UNION { [1..k -> Vals] : k \in 0..n }
ToSet(s) == { s[i] : i \in 1..Len(s) }

\* (a generator always yields at least one element: the value of its body is its last element)
CollSources == { s \in { [k |-> k, es |-> es, rk |-> "", lo |-> 0, hi |-> 0] : k \in Kinds, es \in SeqsUpTo(MaxLen) } :
                   s.k = "gen" => s.es # <<>> }
RangeSources == { [k |-> "range", es |-> <<>>, rk |-> rk, lo |-> lo, hi |-> hi] :
                    rk \in RangeKinds, lo \in Bounds, hi \in Bounds }
ValidRange(s) == (HasLo(s.rk) \/ s.lo = 0) /\ (HasHi(s.rk) \/ s.hi = 0)
Sources == CollSources \cup { s \in RangeSources : ValidRange(s) }

Infinite(s) == s.k = "range" /\ ~HasHi(s.rk)
Iterable(s) == s.k # "range" \/ HasLo(s.rk)

Elems(s) == CASE s.k = "range"     -> RangeElems(s.rk, s.lo, s.hi)
              [] Unordered(s.k)    -> Order[s.k][s.es]
              [] OTHER             -> s.es

\* what remains of a one-shot source after `pos` calls of next (of an endless range: the next
\* EndlessTake elements - enough for every operation of the instance that terminates)
Rest(s, p) == IF Infinite(s)
              THEN SubSeq(RangeElemsN(s.rk, s.lo, s.hi, p + EndlessTake), p + 1, p + EndlessTake)
              ELSE SubSeq(Elems(s), p + 1, Len(Elems(s)))

-----------------------------------------------------------------------------
(* The closures of the instance (fixed, pure).                             *)
PredHolds(p, x) == CASE p = "pos"  -> x > 0
                     [] p = "one"  -> x = 1
                     [] p = "lt5"  -> x < 5
                     [] p = "neg"  -> x < 0
MapApply(m, x)  == CASE m = "inc"  -> x + 1
                     [] m = "dbl"  -> x * 2
Combine(a, x)   == a * 2 + x            \* not commutative, not associative: order matters

-----------------------------------------------------------------------------
(* The list model of every generic operation.                              *)
OVal(x)  == [t |-> "v", v |-> x, s |-> <<>>]
OBool(b) == [t |-> "b", v |-> IF b THEN 1 ELSE 0, s |-> <<>>]
OSeq(q)  == [t |-> "s", v |-> 0, s |-> q]
OErr     == [t |-> "e", v |-> 0, s |-> <<>>]     \* an Elk error (NotFoundError, OutOfRangeError), never a crash
OStop    == [t |-> "stop", v |-> 0, s |-> <<>>]  \* :stop_iteration
OAny     == [t |-> "any", v |-> 0, s |-> <<>>]   \* not determined by the property (but no crash)
OBag(q)  == [t |-> "u", v |-> 0, s |-> q]        \* these elements in an unspecified order

RECURSIVE SelectIf(_, _, _)
SelectIf(s, p, keep) == IF s = <<>> THEN <<>>
                        ELSE (IF PredHolds(p, Head(s)) = keep THEN <<Head(s)>> ELSE <<>>) \o SelectIf(Tail(s), p, keep)
RECURSIVE MapSeq(_, _)
MapSeq(s, m) == IF s = <<>> THEN <<>> ELSE <<MapApply(m, Head(s))>> \o MapSeq(Tail(s), m)
RECURSIVE PrefixLen(_, _)   \* length of the longest prefix whose elements all satisfy p
PrefixLen(s, p) == IF s = <<>> \/ ~PredHolds(p, Head(s)) THEN 0 ELSE 1 + PrefixLen(Tail(s), p)
RECURSIVE FoldL(_, _)
FoldL(a, s) == IF s = <<>> THEN a ELSE FoldL(Combine(a, Head(s)), Tail(s))
FirstIdx(s, P(_)) == IF \E i \in 1..Len(s) : P(s[i])
                     THEN CHOOSE i \in 1..Len(s) : P(s[i]) /\ \A j \in 1..(i - 1) : ~P(s[j])
                     ELSE 0
TakeN(s, n) == SubSeq(s, 1, IF n > Len(s) THEN Len(s) ELSE n)
DropN(s, n) == SubSeq(s, (IF n > Len(s) THEN Len(s) ELSE n) + 1, Len(s))

\* op names; a = integer argument, f = closure name
OpResult(op, e, a, f) ==
  CASE op = "map"        -> OSeq(MapSeq(e, f))
    [] op = "filter"     -> OSeq(SelectIf(e, f, TRUE))
    [] op = "reject"     -> OSeq(SelectIf(e, f, FALSE))
    [] op = "take"       -> IF a < 0 THEN OErr ELSE OSeq(TakeN(e, a))
    [] op = "drop"       -> IF a < 0 THEN OErr ELSE OSeq(DropN(e, a))
    [] op = "take_while" -> OSeq(TakeN(e, PrefixLen(e, f)))
    [] op = "drop_while" -> OSeq(DropN(e, PrefixLen(e, f)))
    [] op = "fold"       -> OVal(FoldL(a, e))
    [] op = "reduce"     -> IF e = <<>> THEN OAny ELSE OVal(FoldL(Head(e), Tail(e)))
    [] op = "first"      -> IF e = <<>> THEN OErr ELSE OVal(e[1])
    [] op = "last"       -> IF e = <<>> THEN OErr ELSE OVal(e[Len(e)])
    [] op = "count"      -> OVal(Len(SelectIf(e, f, TRUE)))
    [] op = "any"        -> OBool(\E i \in 1..Len(e) : PredHolds(f, e[i]))
    [] op = "every"      -> OBool(\A i \in 1..Len(e) : PredHolds(f, e[i]))
    [] op = "find"       -> LET i == FirstIdx(e, LAMBDA x : PredHolds(f, x)) IN IF i = 0 THEN OErr ELSE OVal(e[i])
    [] op = "index_of"   -> OVal(FirstIdx(e, LAMBDA x : x = a) - 1)
    [] op = "length"     -> OVal(Len(e))
    [] op = "contains"   -> OBool(\E i \in 1..Len(e) : e[i] = a)
    [] op = "to_list"    -> OSeq(e)

PredOps  == {"filter", "reject", "take_while", "drop_while", "count", "any", "every", "find"}
CountOps == {"take", "drop"}
ProbeOps == {"index_of", "contains"}
PlainOps == {"reduce", "first", "last", "length", "to_list"}

\* On an infinite source only the operations that stop by themselves are meaningful.
Terminates(op, e, a, f) ==
  CASE op = "take" -> TRUE
    [] op = "first" -> TRUE
    [] op \in {"any", "find"} -> \E i \in 1..Len(e) : PredHolds(f, e[i])
    [] op = "take_while" -> \E i \in 1..Len(e) : ~PredHolds(f, e[i])
    [] op \in {"index_of", "contains"} -> \E i \in 1..Len(e) : e[i] = a
    [] op = "every" -> \E i \in 1..Len(e) : ~PredHolds(f, e[i])
    [] OTHER -> FALSE

-----------------------------------------------------------------------------
Init == src \in Sources /\ pos = 0 /\ done = FALSE

Rec(act, op, a, f, exp) ==
  [src |-> src, pos |-> pos, act |-> act, op |-> op, a |-> a, f |-> f, exp |-> exp, order |-> IF Iterable(src) THEN Elems(src) ELSE <<>>]
Emit(r) == PrintT(<<"GEN", ToJson(r)>>)

\* one call of `next` on a one-shot source (a range is iterated through its iterator)
Advance ==
  /\ ~done /\ Iterable(src) /\ (OneShot(src.k) \/ src.k = "range")
  /\ pos <= Len(Elems(src))
  /\ (Infinite(src) => pos < Len(Elems(src)))
  /\ Emit(Rec("next", "", 0, "", IF pos < Len(Elems(src)) THEN OVal(Elems(src)[pos + 1]) ELSE OStop))
  /\ pos' = pos + 1
  /\ UNCHANGED <<src, done>>

\* a `for x in src` loop yields exactly the elements, in order
Iterate ==
  /\ ~done /\ Iterable(src) /\ pos = 0
  /\ Emit(Rec("iterate", "", 0, "", OSeq(Elems(src))))
  /\ done' = TRUE /\ UNCHANGED <<src, pos>>

OpWith(op, a, f) ==
  /\ ~done /\ Iterable(src) /\ pos <= Len(Elems(src))
  /\ (~OneShot(src.k) /\ src.k # "range") => pos = 0
  /\ LET e == Rest(src, pos) IN
       /\ Infinite(src) => Terminates(op, e, a, f)
       \* HashSet#map is declared to return a HashSet: its order is unspecified (the mappers of the
       \* instance are injective, so the number of elements is kept)
       /\ Emit(Rec("op", op, a, f, IF src.k = "set" /\ op = "map" THEN OBag(MapSeq(e, f)) ELSE OpResult(op, e, a, f)))
  /\ done' = TRUE /\ UNCHANGED <<src, pos>>

Op == \/ \E op \in PredOps, f \in Preds : OpWith(op, 0, f)
      \/ \E f \in Maps : OpWith("map", 0, f)
      \/ \E op \in CountOps, n \in Counts : OpWith(op, n, "")
      \/ \E op \in ProbeOps, v \in Probes : OpWith(op, v, "")
      \/ \E i \in Inits : OpWith("fold", i, "")
      \/ \E op \in PlainOps : OpWith(op, 0, "")

\* range membership agrees with the bounds (all eight kinds)
Contains ==
  /\ ~done /\ src.k = "range" /\ pos = 0
  /\ \E x \in Probes :
       Emit(Rec("range_contains", "contains", x, "", OBool(InRange(src.rk, src.lo, src.hi, x))))
  /\ done' = TRUE /\ UNCHANGED <<src, pos>>

Next == Advance \/ Iterate \/ Op \/ Contains
Spec == Init /\ [][Next]_vars

-----------------------------------------------------------------------------
(* Properties checked by TLC.                                              *)
TypeOK == src \in Sources /\ pos \in 0..(MaxLen + EndlessTake + 2) /\ done \in BOOLEAN

\* the observed iteration order of every set / map is a permutation of what was inserted
OrderIsPermutation ==
  Unordered(src.k) => /\ ToSet(Order[src.k][src.es]) = ToSet(src.es)
                      /\ Len(Order[src.k][src.es]) = Cardinality(ToSet(src.es))

\* sanity of the model itself: contains agrees with iteration for every iterable range, and the
\* derived operations are consistent with each other
RangeContainsAgreesWithElems ==
  (src.k = "range" /\ HasLo(src.rk) /\ HasHi(src.rk)) =>
     \A x \in Probes : InRange(src.rk, src.lo, src.hi, x) <=> x \in ToSet(Elems(src))
ModelConsistent ==
  Iterable(src) =>
    LET e == Rest(src, IF pos <= Len(Elems(src)) THEN pos ELSE Len(Elems(src))) IN
      /\ \A n \in Counts : n >= 0 => TakeN(e, n) \o DropN(e, n) = e
      /\ \A f \in Preds : /\ TakeN(e, PrefixLen(e, f)) \o DropN(e, PrefixLen(e, f)) = e
                          /\ Len(SelectIf(e, f, TRUE)) + Len(SelectIf(e, f, FALSE)) = Len(e)
=============================================================================
