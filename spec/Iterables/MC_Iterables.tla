---- MODULE MC_Iterables ----
EXTENDS Iterables
MCVals == 0..2
MCMaxLen == 3
MCKinds == {"list", "tuple", "set", "map", "gen", "chan", "listiter"}
MCRangeKinds == {"closed", "open", "lopen", "ropen", "bl_closed", "bl_open", "el_closed", "el_open"}
MCBounds == -2..3
MCProbes == -3..4
MCCounts == -1..4
MCPreds == {"pos", "one", "lt5", "neg"}
MCMaps == {"inc", "dbl"}
MCInits == {0, 1}
MCEndlessTake == 5
RECURSIVE Dedup(_, _)
Dedup(s, seen) == IF s = <<>> THEN <<>>
                  ELSE IF Head(s) \in seen THEN Dedup(Tail(s), seen)
                  ELSE <<Head(s)>> \o Dedup(Tail(s), seen \cup {Head(s)})
\* by hand: insertion order; the harness replaces this by the order observed on the implementation
MCOrder == [k \in {"set", "map"} |-> [es \in SeqsUpTo(MCMaxLen) |-> Dedup(es, {})]]
====
