\* Bounded instance of Iterables; constants come from MC_Iterables.tla (generated by the harness per
\* tier; the file in this directory is a small instance for running TLC by hand).
CONSTANTS
  Vals <- MCVals
  MaxLen <- MCMaxLen
  Kinds <- MCKinds
  RangeKinds <- MCRangeKinds
  Bounds <- MCBounds
  Probes <- MCProbes
  Counts <- MCCounts
  Preds <- MCPreds
  Maps <- MCMaps
  Inits <- MCInits
  EndlessTake <- MCEndlessTake
  Order <- MCOrder
INIT Init
NEXT Next
INVARIANTS TypeOK OrderIsPermutation RangeContainsAgreesWithElems ModelConsistent
CHECK_DEADLOCK FALSE
