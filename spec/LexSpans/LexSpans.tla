------------------------------ MODULE LexSpans ------------------------------
(***************************************************************************)
(* Property C04: lexing partitions the source faithfully; colouring never  *)
(* alters text.                                                            *)
(*                                                                         *)
(*  1. GROUND TRUTH.  A source is a sequence of bytes 0..255.  Characters  *)
(*     (UTF-8 sequences; a byte that is not part of a valid sequence is a  *)
(*     character of its own), lines and columns are defined from the bytes *)
(*     alone: LineOf, ColOf.                                               *)
(*  2. THE PROPERTY as guards of the actions Token (a token handed out by  *)
(*     the lexer) and Seg / Finish (one iteration / the epilogue of the    *)
(*     colourizer loop).  A run of the lexer or colourizer is correct iff  *)
(*     every one of its steps is such an action.  Next is the MOST GENERAL *)
(*     lexer and colourizer the property allows; TLC checks on it that the *)
(*     guards imply the state invariants.                                  *)
(*  3. KNOWN DEVIATIONS of lexer.go as named branches (constant            *)
(*     Deviations; {} = the property as stated).                           *)
(* LexSpansTrace re-uses Token/Seg/Finish to validate token streams and    *)
(* colourizer outputs recorded from the real code.                         *)
(*                                                                         *)
(* Vocabulary of position.Span in the implementation (not part of the      *)
(* property): offsets are 0-based; a span is [s, e] with e the offset of   *)
(* the LAST byte; an empty token (END_OF_FILE, empty string content before *)
(* an error token) has e = s - 1 and its end position is not constrained;  *)
(* the end column is the column of the character that contains byte e.     *)
(***************************************************************************)
EXTENDS Integers, Sequences, FiniteSets

CONSTANT Deviations  \* names of the KNOWN deviations of the implementation to tolerate

-----------------------------------------------------------------------------
(* 1. Ground truth *)

ByteAt(in, o) == IF o >= 0 /\ o < Len(in) THEN in[o + 1] ELSE -1
IsCont(b) == b >= 128 /\ b <= 191

(* Width in bytes of the character starting at offset o (o < Len(in)): the *)
(* UTF-8 well-formedness table of the Unicode standard (no overlong forms, *)
(* no surrogates, at most U+10FFFF); anything else is one byte.            *)
CharWidth(in, o) ==
  LET b0 == ByteAt(in, o)     b1 == ByteAt(in, o + 1)
      b2 == ByteAt(in, o + 2) b3 == ByteAt(in, o + 3)
      lo == CASE b0 = 224 -> 160 [] b0 = 240 -> 144 [] OTHER -> 128
      hi == CASE b0 = 237 -> 159 [] b0 = 244 -> 143 [] OTHER -> 191
      c1 == b1 >= lo /\ b1 <= hi
  IN CASE b0 < 128 -> 1
       [] b0 >= 194 /\ b0 <= 223 /\ c1 -> 2
       [] b0 >= 224 /\ b0 <= 239 /\ c1 /\ IsCont(b2) -> 3
       [] b0 >= 240 /\ b0 <= 244 /\ c1 /\ IsCont(b2) /\ IsCont(b3) -> 4
       [] OTHER -> 1

RECURSIVE StartsFrom(_, _)
StartsFrom(in, o) == IF o >= Len(in) THEN {Len(in)}
                     ELSE {o} \cup StartsFrom(in, o + CharWidth(in, o))
(* offsets at which a character starts, plus the end-of-input position *)
CharStarts(in) == StartsFrom(in, 0)
LineFeeds(in)  == {o \in 0 .. Len(in) - 1 : in[o + 1] = 10}

Max(S) == CHOOSE x \in S : \A y \in S : y <= x

-----------------------------------------------------------------------------
(* 2. The property *)

VARIABLES input,   \* the source text
          cs, lfs, \* CharStarts(input), LineFeeds(input): functions of input, kept as state only so
                   \* that TLC computes them once per source text
          phase,   \* "lex" -> "colour" -> "done"
          nxt,     \* lexing: offset of the first byte not covered by the tokens handed out so far
          pos,     \* colouring: number of source bytes reproduced so far
          strip,   \* colouring: the output so far with the colour codes removed
          anc,     \* only used when Deviations # {}: the lexer's own counters [o, l, c] (offset, line,
                   \* column of its cursor) as implied by the end position of the last token
          alt,     \* a second candidate for anc (see D2), or NoAnchor
          used     \* deviation branches taken so far
vars == <<input, cs, lfs, phase, nxt, pos, strip, anc, alt, used>>

(* line of the byte at offset off (a line feed belongs to the line it ends) *)
LineOf(off) == 1 + Cardinality({o \in lfs : o < off})
(* column of the character containing the byte at offset off: 1 + number   *)
(* of characters between the start of its line and that character          *)
ColOf(off) == LET bol == Max({-1} \cup {o \in lfs : o < off})
              IN Cardinality({s \in cs : s > bol /\ s <= off})

Tok(ty, s, e, sl, sc, el, ec) == [ty |-> ty, s |-> s, e |-> e, sl |-> sl, sc |-> sc, el |-> el, ec |-> ec]

(* Positions as the property defines them are the ground truth.  While known deviations are    *)
(* being tolerated, a tolerated token leaves the lexer's line/column counters off the truth;   *)
(* the following tokens are then judged against the truth SHIFTED by that drift: the counters  *)
(* a (offset, line, column) implied by the previous token's reported end, advanced over the    *)
(* bytes in between.  As long as no deviation has been taken the two coincide (ViewIsTruth).   *)
NoAnchor == [o |-> -1, l |-> 0, c |-> 0]
LFsIn(from, to) == {o \in lfs : o >= from /\ o <= to}
ViewLine(a, off) == a.l + Cardinality(LFsIn(a.o, off - 1))
ViewCol(a, off)  == IF LFsIn(a.o, off - 1) = {}
                    THEN a.c + Cardinality({s \in cs : s > a.o /\ s <= off})
                    ELSE ColOf(off)
Line(a, off) == IF Deviations = {} THEN LineOf(off) ELSE ViewLine(a, off)
Col(a, off)  == IF Deviations = {} THEN ColOf(off) ELSE ViewCol(a, off)

InOrder(tk)        == tk.s >= nxt                    \* source order, no overlap with earlier tokens
InsideInput(tk)    == tk.s <= Len(input) /\ tk.e < Len(input) /\ tk.e >= tk.s - 1
StartAgrees(a, tk) == tk.sl = Line(a, tk.s) /\ tk.sc = Col(a, tk.s)
EndAgrees(a, tk)   == \/ tk.e < tk.s                 \* empty token: no last byte
                      \/ tk.el = Line(a, tk.e) /\ tk.ec = Col(a, tk.e)

TokenOK(a, tk) == InOrder(tk) /\ InsideInput(tk) /\ StartAgrees(a, tk) /\ EndAgrees(a, tk)

(* first clause of the property a token breaks ("" = none); used for reporting only *)
TokenVerdict(tk) == CASE ~InOrder(tk)          -> "out_of_order_or_overlap"
                      [] ~InsideInput(tk)      -> "outside_input"
                      [] ~StartAgrees(anc, tk) -> "start_line_column"
                      [] ~EndAgrees(anc, tk)   -> "end_line_column"
                      [] OTHER                 -> ""

-----------------------------------------------------------------------------
(* 3. KNOWN deviations of lexer.go.  Each is a named branch that tolerates one token; none of *)
(* them touches InOrder / InsideInput.                                                        *)

\* D1 tokenWithValue reads line/column after incrementLine: a token of two or more bytes whose
\*    last byte is a line feed reports the end position "next line, column 0"
DevLfEnd(a, tk) == /\ "lf_end_on_next_line" \in Deviations
                   /\ StartAgrees(a, tk)
                   /\ tk.e > tk.s /\ ByteAt(input, tk.e) = 10
                   /\ tk.el = Line(a, tk.e) + 1 /\ tk.ec = 0
\* D2 character(), rawCharacter() and the scanInvalid*Escape functions consume characters with
\*    advanceChar(s) without calling incrementLine for a line feed: a character literal or error
\*    token that contains a line feed ends on too early a line (the column keeps running).  When
\*    the line feed is the token's last byte the token itself is reported correctly and the
\*    drift shows on the next token: alt holds the counters "line feed not counted".
LiteralTypes == {"CHAR_LITERAL", "RAW_CHAR_LITERAL", "ERROR"}
DevUncountedLf(a, tk) == /\ "uncounted_lf_in_literal" \in Deviations
                         /\ tk.ty \in LiteralTypes
                         /\ StartAgrees(a, tk) /\ LFsIn(tk.s, tk.e) # {}
                         /\ tk.el >= tk.sl /\ tk.el <= Line(a, tk.e) + 1
\* D3 after an invalid escape `\c` in a string or quoted identifier the lexer rewinds with
\*    backupChars(2): two BYTES and two columns, also when c is a multi-byte character (the token
\*    boundary then falls inside the character) or a line feed (the line stays incremented, the
\*    column becomes negative).  Tolerated for tokens next to such an escape.
NearBadEscape(tk) == \E b \in (tk.s - 4) .. (tk.e + 1) :
                        /\ ByteAt(input, b) = 92
                        /\ (ByteAt(input, b + 1) >= 128 \/ ByteAt(input, b + 1) = 10)
DevByteBackup(tk) == "byte_backup_on_invalid_escape" \in Deviations /\ NearBadEscape(tk)

DevTakenA(a, tk) == IF TokenOK(a, tk) THEN {}
                    ELSE IF DevLfEnd(a, tk) THEN {"lf_end_on_next_line"}
                    ELSE IF DevUncountedLf(a, tk) THEN {"uncounted_lf_in_literal"}
                    ELSE IF DevByteBackup(tk) THEN {"byte_backup_on_invalid_escape"}
                    ELSE {"none"}
AllowedA(a, tk) == InOrder(tk) /\ InsideInput(tk) /\ DevTakenA(a, tk) # {"none"}

UseAlt(tk) == ~AllowedA(anc, tk) /\ alt # NoAnchor /\ AllowedA(alt, tk)
TokenAllowed(tk) == AllowedA(anc, tk) \/ UseAlt(tk)
Anchor(tk) == IF UseAlt(tk) THEN alt ELSE anc
DevTaken(tk) == IF UseAlt(tk) THEN DevTakenA(alt, tk) \cup {"uncounted_lf_in_literal"}
                ELSE DevTakenA(anc, tk)

(* the lexer's counters after the token, as its reported end implies them *)
EndsWithCountedLf(a, tk) == /\ tk.e >= tk.s /\ ByteAt(input, tk.e) = 10
                            /\ tk.el = Line(a, tk.e) /\ tk.ec = Col(a, tk.e)
AnchorAfter(a, tk) ==
  IF tk.e < tk.s
  THEN IF DevTakenA(a, tk) # {} THEN [o |-> tk.s, l |-> tk.el, c |-> tk.ec + 1] ELSE a
  ELSE IF EndsWithCountedLf(a, tk)
       THEN [o |-> tk.e + 1, l |-> tk.el + 1, c |-> 1]
       ELSE [o |-> tk.e + 1, l |-> tk.el, c |-> tk.ec + 1]
AltAfter(a, tk) ==
  IF "uncounted_lf_in_literal" \in Deviations /\ tk.ty \in LiteralTypes /\ EndsWithCountedLf(a, tk)
  THEN [o |-> tk.e + 1, l |-> tk.el, c |-> tk.ec + 1]
  ELSE NoAnchor

Token(tk) == /\ phase = "lex"
             /\ TokenAllowed(tk)
             /\ nxt' = tk.e + 1
             /\ LET a == Anchor(tk)
                IN /\ anc' = AnchorAfter(a, tk)
                   /\ alt' = IF tk.e < tk.s THEN alt ELSE AltAfter(a, tk)
             /\ used' = used \cup DevTaken(tk)
             /\ UNCHANGED <<input, cs, lfs, phase, pos, strip>>

(* The end-of-file token closes the token stream (it is a Token as well). *)
EndLex == /\ phase = "lex"
          /\ phase' = "colour"
          /\ UNCHANGED <<input, cs, lfs, nxt, pos, strip, anc, alt, used>>

(* Colour codes: a sequence of SGR escapes  ESC [ (digit | ;)* m *)
RECURSIVE IsSgrs(_), IsSgrBody(_)
IsSgrBody(x) == IF x = <<>> THEN FALSE
                ELSE IF Head(x) = 109 THEN IsSgrs(Tail(x))
                ELSE (Head(x) = 59 \/ (Head(x) >= 48 /\ Head(x) <= 57)) /\ IsSgrBody(Tail(x))
IsSgrs(x) == \/ x = <<>>
             \/ Len(x) >= 3 /\ x[1] = 27 /\ x[2] = 91 /\ IsSgrBody(Tail(Tail(x)))

CopiesSource(txt) == pos + Len(txt) <= Len(input) /\ SubSeq(input, pos + 1, pos + Len(txt)) = txt

(* One iteration of the colourizer loop: the text between two tokens, then the lexeme wrapped *)
(* in colour codes.  Only pre and post may differ from the source.                           *)
SegOK(sg) == IsSgrs(sg.pre) /\ IsSgrs(sg.post) /\ CopiesSource(sg.gap \o sg.lex)
Seg(sg) == /\ phase = "colour"
           /\ SegOK(sg)
           /\ pos' = pos + Len(sg.gap) + Len(sg.lex)
           /\ strip' = strip \o sg.gap \o sg.lex
           /\ UNCHANGED <<input, cs, lfs, phase, nxt, anc, alt, used>>

(* The epilogue: whatever follows the last token; the whole source must have been reproduced. *)
FinishOK(rest) == CopiesSource(rest) /\ pos + Len(rest) = Len(input)
Finish(rest) == /\ phase = "colour"
                /\ FinishOK(rest)
                /\ pos' = Len(input)
                /\ strip' = strip \o rest
                /\ phase' = "done"
                /\ UNCHANGED <<input, cs, lfs, nxt, anc, alt, used>>

-----------------------------------------------------------------------------
(* The most general behaviour the property allows, for model checking the guards. *)
CONSTANT Inputs   \* set of byte strings explored by TLC

InitFor(in) == /\ input = in /\ cs = CharStarts(in) /\ lfs = LineFeeds(in)
               /\ phase = "lex" /\ nxt = 0 /\ pos = 0 /\ strip = <<>>
               /\ anc = [o |-> 0, l |-> 1, c |-> 1] /\ alt = NoAnchor /\ used = {}
Init == \E in \in Inputs : InitFor(in)

AnyToken == \E s \in nxt .. Len(input), e \in (nxt - 1) .. (Len(input) - 1) :
              /\ e >= s - 1
              /\ \E el \in 0 .. Len(input) + 2, ec \in 0 .. Len(input) + 1 :
                   Token(Tok("ANY", s, e, LineOf(s), ColOf(s), el, ec))

SgrSamples == {<<>>, <<27, 91, 109>>, <<27, 91, 51, 49, 59, 49, 109>>}

AnySeg == \E g \in 0 .. Len(input) - pos : \E l \in 0 .. Len(input) - pos - g :
            \E pre \in SgrSamples, post \in SgrSamples :
              Seg([gap |-> SubSeq(input, pos + 1, pos + g), pre |-> pre,
                   lex |-> SubSeq(input, pos + g + 1, pos + g + l), post |-> post])

AnyFinish == Finish(SubSeq(input, pos + 1, Len(input)))

Next == AnyToken \/ EndLex \/ AnySeg \/ AnyFinish
Spec == Init /\ [][Next]_vars

(* What the guards are supposed to guarantee *)
TypeOK == /\ phase \in {"lex", "colour", "done"}
          /\ nxt \in 0 .. Len(input) /\ pos \in 0 .. Len(input)
Partition        == nxt <= Len(input)                       \* tokens never run past the input
StrippedIsPrefix == strip = SubSeq(input, 1, pos)           \* colouring only adds colour codes
FaithfulAtEnd    == phase = "done" => strip = input
(* the anchored view used while tolerating deviations is the ground truth as long as no       *)
(* deviation branch has been taken (and no token boundary fell inside a character)            *)
ViewIsTruth == (used = {} /\ phase = "lex" /\ anc.o \in cs) =>
                 \A off \in nxt .. Len(input) : ViewLine(anc, off) = LineOf(off) /\ ViewCol(anc, off) = ColOf(off)
=============================================================================
