---- MODULE MC_LexSpans ----
EXTENDS LexSpans
(* all byte strings of length <= 3 over: a  LF  the two bytes of U+00E9  an invalid byte *)
Alphabet == {97, 10, 195, 169, 255}
MCInputs == UNION {[1 .. n -> Alphabet] : n \in 0 .. 3}
MCDeviations == {}
====
