CONSTANTS
  Inputs <- NoInputs
  Deviations <- MCDeviations
INIT TInit
NEXT TNext
INVARIANT TraceInv
CHECK_DEADLOCK FALSE
