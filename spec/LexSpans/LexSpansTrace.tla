--------------------------- MODULE LexSpansTrace ---------------------------
(***************************************************************************)
(* Trace validation for C04.  traces.ndjson holds one record per source    *)
(* text: its bytes and the events recorded from the real code              *)
(*   tok    one token returned by lexer.Next (END_OF_FILE included)        *)
(*   endlex the token stream is finished                                   *)
(*   cbeg   a call of Colorize / ColorizeEmbellishedText starts            *)
(*   seg    one loop iteration of the colourizer (gap, codes, lexeme, codes)*)
(*   fin    the colourizer's epilogue (rest of the source)                 *)
(* Every event must be a step of LexSpans (Token / EndLex / Seg / Finish). *)
(* All traces are validated in one TLC run: Init chooses the trace.  An    *)
(* event that is no step of LexSpans ends the trace with a verdict record  *)
(* (Reject) instead of stopping TLC, so one run classifies every trace.    *)
(***************************************************************************)
EXTENDS LexSpans, TLC, Json

Traces == ndJsonDeserialize("traces.ndjson")
NoInputs == {}

VARIABLES t,     \* index of the trace being validated
          i      \* number of events accepted so far; -1 once the trace has its verdict
tvars == <<vars, t, i>>

Events == Traces[t].ev
Ev == Events[i + 1]

TInit == /\ t \in 1 .. Len(Traces)
         /\ i = 0
         /\ InitFor(Traces[t].bytes)

TokOf(e) == Tok(e.ty, e.s, e.e, e.sl, e.sc, e.el, e.ec)

(* a new colourizer call starts from scratch on the same source *)
ColourBegin == /\ phase \in {"colour", "done"}
               /\ phase' = "colour" /\ pos' = 0 /\ strip' = <<>>
               /\ UNCHANGED <<input, cs, lfs, nxt, anc, alt, used>>

Step == CASE Ev.op = "tok"    -> Token(TokOf(Ev))
          [] Ev.op = "endlex" -> EndLex
          [] Ev.op = "cbeg"   -> ColourBegin
          [] Ev.op = "seg"    -> Seg(Ev)
          [] Ev.op = "fin"    -> Finish(Ev.rest)

(* the enabling condition of Step, spelled out (cheaper for TLC than ENABLED Step) *)
StepOK == CASE Ev.op = "tok"    -> phase = "lex" /\ TokenAllowed(TokOf(Ev))
            [] Ev.op = "endlex" -> phase = "lex"
            [] Ev.op = "cbeg"   -> phase \in {"colour", "done"}
            [] Ev.op = "seg"    -> phase = "colour" /\ SegOK(Ev)
            [] Ev.op = "fin"    -> phase = "colour" /\ FinishOK(Ev.rest)
            [] OTHER            -> FALSE

Why == CASE Ev.op = "tok" -> TokenVerdict(TokOf(Ev))
         [] Ev.op = "seg" -> IF ~(IsSgrs(Ev.pre) /\ IsSgrs(Ev.post)) THEN "not_a_colour_code"
                             ELSE "text_altered"
         [] Ev.op = "fin" -> "text_altered_or_incomplete"
         [] OTHER         -> "event_out_of_protocol"

Verdict(ok, why) ==
  PrintT(<<"GEN", ToJson([id |-> Traces[t].id, ok |-> ok, at |-> i + 1, why |-> why,
                        chars |-> Cardinality(cs) - 1, used |-> used])>>)

Accept == /\ i >= 0 /\ i < Len(Events)
          /\ StepOK
          /\ Step
          /\ i' = i + 1 /\ t' = t

Reject == /\ i >= 0 /\ i < Len(Events)
          /\ ~StepOK
          /\ Verdict(FALSE, Why)
          /\ i' = -1
          /\ UNCHANGED <<vars, t>>

Done == /\ i = Len(Events)
        /\ Verdict(TRUE, "")
        /\ i' = -1
        /\ UNCHANGED <<vars, t>>

TNext == Accept \/ Reject \/ Done

(* the invariants of LexSpans hold along every validated prefix *)
TraceInv == TypeOK /\ Partition /\ StrippedIsPrefix /\ FaithfulAtEnd
=============================================================================
