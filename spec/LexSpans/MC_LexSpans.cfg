CONSTANTS
  Inputs <- MCInputs
  Deviations <- MCDeviations
INIT Init
NEXT Next
INVARIANTS TypeOK Partition StrippedIsPrefix FaithfulAtEnd ViewIsTruth
CHECK_DEADLOCK FALSE
