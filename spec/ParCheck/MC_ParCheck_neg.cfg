\* NEGATIVE CONTROL: prepLocals does not shift the offsets of pending calls (commit 6ba6640 reverted) -- TLC must report CodeOK violated
\* (Variant = "no_drain" violates ReturnAfterAll/ExactlyOnce, "unsync_diags" violates DiagsOK)
CONSTANTS
  Configs <- MCConfigs
  Calls <- MCCalls
  HasLocals <- MCHasLocals
  Internal = TRUE
  Record = FALSE
  Variant = "stale_offset"
SPECIFICATION Spec
VIEW View
INVARIANTS TypeOK AtMostLimit SemOK AtMostOnce ExactlyOnce ReturnAfterAll DiagsOK CacheOK CodeOK

CHECK_DEADLOCK TRUE
