----------------------------- MODULE MC_ParCheck -----------------------------
(* bounded instance of ParCheck for a hand run; the harness generates the same module with its own constants *)
EXTENDS ParCheck
MCConfigs == {<<3, 1>>, <<3, 2>>, <<3, 3>>}
MCCalls == {<<1, 2>>, <<2, 1>>, <<3, 1>>}
MCHasLocals == {1, 3}
=============================================================================
