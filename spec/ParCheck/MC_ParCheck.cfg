CONSTANTS
  Configs <- MCConfigs
  Calls <- MCCalls
  HasLocals <- MCHasLocals
  Internal = TRUE
  Record = FALSE
  Variant = "ok"
SPECIFICATION Spec
VIEW View
INVARIANTS TypeOK AtMostLimit SemOK AtMostOnce ExactlyOnce ReturnAfterAll DiagsOK CacheOK CodeOK
PROPERTY Termination
CHECK_DEADLOCK TRUE
