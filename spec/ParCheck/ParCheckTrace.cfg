CONSTANTS
  Configs <- TraceConfigs
  Calls <- TraceCalls
  HasLocals <- TraceHasLocals
  Internal = FALSE
  Record = FALSE
  Variant = "ok"
INIT TInit
NEXT TNext
CONSTRAINT Constr
INVARIANTS TypeOK AtMostLimit SemOK AtMostOnce ExactlyOnce ReturnAfterAll
POSTCONDITION TraceAccepted
CHECK_DEADLOCK FALSE
