------------------------------- MODULE ParCheck -------------------------------
(***************************************************************************)
(* Parallel checking/compilation of method (and macro) bodies:             *)
(* concurrent.Foreach (concurrent/foreach.go) as used by                   *)
(* checkMethodBodies / checkMacros (types/checker/method.go, macro.go),    *)
(* with the shared objects the bodies touch.  Property C11.                *)
(*                                                                         *)
(*   func Foreach(limit, collection, f) {                                  *)
(*       sem := make(chan bool, limit)                                     *)
(*       for element { sem <- true; go func() { f(element); <-sem }() }    *)
(*       for range cap(sem) { sem <- true }       // final drain           *)
(*   }                                                                     *)
(*                                                                         *)
(* ONE ACTION PER HOOK EVENT (build tag verif): foreach.begin,             *)
(* foreach.acquire.try / acquired (spawner, before/after `sem <- true`),   *)
(* foreach.start / done / released (body goroutine: before f, after f,     *)
(* after `<-sem`), foreach.drain.try / drained, foreach.return.            *)
(* Between foreach.start and foreach.done a body takes the abstract steps  *)
(* BodyProg on the shared objects (not hooked: the goroutine runs freely): *)
(*   diagnostics list under its mutex (SyncDiagnosticList.Append),         *)
(*   the compiler's pending-call list (a call to a method whose body is    *)
(*   not compiled yet is emitted by name and patched after Foreach),       *)
(*   PREP_LOCALS prologue (shifts the function's recorded offsets),        *)
(*   the method cache.                                                     *)
(***************************************************************************)
EXTENDS Integers, Sequences, FiniteSets, TLC, Json

CONSTANTS Configs,    \* set of <<number of bodies, Limit>>
          Calls,      \* set of <<caller, callee>>: call sites between bodies (pairs outside 1..N are ignored)
          HasLocals,  \* bodies whose function gets a PREP_LOCALS prologue
          Internal,   \* TRUE: bodies take the abstract steps of BodyProg; FALSE: none (Foreach protocol only)
          Record,     \* TRUE: keep the schedule in hist
          Variant     \* "ok" | negative controls: "stale_offset" (prepLocals does not shift the offsets of pending calls:
                      \* commit 6ba6640 reverted), "no_drain" (Foreach returns without the final drain),
                      \* "unsync_diags" (diagnostics appended without the mutex), "sem_after" (semaphore taken inside the goroutine)

VARIABLES N, Limit      \* the instance, chosen in Init (set by the trace spec from foreach.begin)
VARIABLES spc,          \* spawner: begin | acquire.try | acquired | drain.try | drained | return | after | optimised
          si,           \* spawner: current item (acquire) or drain iteration
          sem,          \* tokens in the channel
          bpc,          \* body goroutine: none | start | run | done | released | exit
          bstep,        \* body: next step of BodyProg
          runs,         \* body: number of times f ran
          diags, dlock, dtmp,    \* diagnostics list, its mutex (holder or 0), a body's unsynchronised copy
          cache,        \* method cache
          compiled,     \* bodies whose bytecode is registered
          pending,      \* pending call optimisations [cs |-> call site, shifted |-> offset valid]
          code,         \* call site -> "none" | "direct" | "byname" | "patched" | "corrupt"
          hist

inst == <<N, Limit>>
vars == <<N, Limit, spc, si, sem, bpc, bstep, runs, diags, dlock, dtmp, cache, compiled, pending, code, hist>>

MaxN == 8
Bodies == 1..N
AllB == 1..MaxN
Sites == {cs \in Calls : cs[1] \in Bodies /\ cs[2] \in Bodies}

BodyProg == IF ~Internal THEN <<>>
            ELSE IF Variant = "unsync_diags" THEN <<"dread", "dwrite", "emit", "preplocals", "cache">>
            ELSE <<"dlock", "dappend", "dunlock", "emit", "preplocals", "cache">>

\* k: "go" release the actor, it stops next at e | "fire" release it, it runs on without a gate
\*    | "arrive" it reaches e by itself
Ev(a, k, e, i) == [a |-> a, k |-> k, e |-> e, i |-> i]
Log1(x)    == hist' = IF Record THEN Append(hist, x) ELSE hist
Log2(x, y) == hist' = IF Record THEN Append(Append(hist, x), y) ELSE hist

InitRest == /\ spc = "begin" /\ si = 0 /\ sem = 0
            /\ bpc = [i \in AllB |-> "none"] /\ bstep = [i \in AllB |-> 1] /\ runs = [i \in AllB |-> 0]
            /\ diags = <<>> /\ dlock = 0 /\ dtmp = [i \in AllB |-> <<>>]
            /\ cache = {} /\ compiled = {} /\ pending = {} /\ code = [cs \in Calls |-> "none"]
\* the same as an action (used by the trace spec between two Foreach calls)
ResetRest == /\ spc' = "begin" /\ si' = 0 /\ sem' = 0
             /\ bpc' = [i \in AllB |-> "none"] /\ bstep' = [i \in AllB |-> 1] /\ runs' = [i \in AllB |-> 0]
             /\ diags' = <<>> /\ dlock' = 0 /\ dtmp' = [i \in AllB |-> <<>>]
             /\ cache' = {} /\ compiled' = {} /\ pending' = {} /\ code' = [cs \in Calls |-> "none"]
Init == /\ \E cf \in Configs : N = cf[1] /\ Limit = cf[2]
        /\ InitRest /\ hist = <<>>

-----------------------------------------------------------------------------
(* the spawner: the goroutine that called Foreach *)
NextGate(i) == IF i <= N THEN "acquire.try" ELSE IF Variant = "no_drain" THEN "return" ELSE "drain.try"
\* the item index of hook events is 0-based
Begin ==
  /\ UNCHANGED inst /\ UNCHANGED <<sem, bpc, bstep, runs, diags, dlock, dtmp, cache, compiled, pending, code>>
  /\ spc = "begin"
  /\ spc' = NextGate(1) /\ si' = 1
  /\ Log1(Ev(0, "go", "foreach." \o NextGate(1), IF 1 <= N THEN 0 ELSE -1))

Acquire ==   \* sem <- true
  /\ UNCHANGED inst /\ UNCHANGED <<si, bpc, bstep, runs, diags, dlock, dtmp, cache, compiled, pending, code>>
  /\ spc = "acquire.try"
  /\ IF Variant = "sem_after" THEN UNCHANGED sem ELSE sem < Limit /\ sem' = sem + 1
  /\ spc' = "acquired"
  /\ Log1(Ev(0, "go", "foreach.acquired", si - 1))

Spawn ==   \* go func(){...}(): the new goroutine runs to its first hook by itself
  /\ UNCHANGED inst /\ UNCHANGED <<sem, bstep, runs, diags, dlock, dtmp, cache, compiled, pending, code>>
  /\ spc = "acquired"
  /\ bpc' = [bpc EXCEPT ![si] = "start"]
  /\ si' = si + 1
  /\ spc' = NextGate(si + 1)
  /\ Log2(Ev(0, "go", "foreach." \o NextGate(si + 1), IF si + 1 <= N THEN si ELSE -1),
          Ev(si, "arrive", "foreach.start", si - 1))

Drain ==   \* sem <- true in the final loop
  /\ UNCHANGED inst /\ UNCHANGED <<si, bpc, bstep, runs, diags, dlock, dtmp, cache, compiled, pending, code>>
  /\ spc = "drain.try" /\ sem < Limit
  /\ sem' = sem + 1
  /\ spc' = "drained"
  /\ Log1(Ev(0, "go", "foreach.drained", -1))

DrainNext ==
  /\ UNCHANGED inst /\ UNCHANGED <<sem, bpc, bstep, runs, diags, dlock, dtmp, cache, compiled, pending, code>>
  /\ spc = "drained"
  /\ si' = si + 1
  /\ spc' = IF si + 1 - N <= Limit THEN "drain.try" ELSE "return"     \* si counts N+1 .. N+Limit in the drain
  /\ Log1(Ev(0, "go", "foreach." \o spc', -1))

Return ==   \* Foreach returns to checkMethodBodies
  /\ UNCHANGED inst /\ UNCHANGED <<si, sem, bpc, bstep, runs, diags, dlock, dtmp, cache, compiled, pending, code>>
  /\ spc = "return"
  /\ spc' = "after"
  /\ Log1(Ev(0, "fire", "after", -1))

Optimise ==   \* compileMethods / optimiseCalls: patch the pending calls (sequential, after Foreach)
  /\ UNCHANGED inst /\ UNCHANGED <<si, sem, bpc, bstep, runs, diags, dlock, dtmp, cache, compiled>>
  /\ spc = "after"
  /\ spc' = "optimised"
  /\ code' = [cs \in Calls |-> IF \E p \in pending : p.cs = cs
                                 THEN (IF \E p \in pending : p.cs = cs /\ ~p.shifted THEN "corrupt" ELSE "patched")
                                 ELSE code[cs]]
  /\ pending' = {}
  /\ UNCHANGED hist

-----------------------------------------------------------------------------
(* a body goroutine *)
Start(i) ==   \* released from foreach.start: f(element) begins
  /\ UNCHANGED inst /\ UNCHANGED <<spc, si, bstep, diags, dlock, dtmp, cache, compiled, pending, code>>
  /\ bpc[i] = "start"
  /\ IF Variant = "sem_after" THEN sem < Limit /\ sem' = sem + 1 ELSE UNCHANGED sem
  /\ bpc' = [bpc EXCEPT ![i] = "run"]
  /\ runs' = [runs EXCEPT ![i] = @ + 1]
  /\ Log1(Ev(i, "fire", "run", i - 1))

Step(i) ==   \* one abstract step of the body on a shared object
  /\ UNCHANGED inst /\ UNCHANGED <<spc, si, sem, bpc, runs, hist>>
  /\ bpc[i] = "run" /\ bstep[i] <= Len(BodyProg)
  /\ bstep' = [bstep EXCEPT ![i] = @ + 1]
  /\ LET s == BodyProg[bstep[i]] IN
     CASE s = "dlock"   -> dlock = 0 /\ dlock' = i /\ UNCHANGED <<diags, dtmp, cache, compiled, pending, code>>
       [] s = "dappend" -> diags' = Append(diags, i) /\ UNCHANGED <<dlock, dtmp, cache, compiled, pending, code>>
       [] s = "dunlock" -> dlock' = 0 /\ UNCHANGED <<diags, dtmp, cache, compiled, pending, code>>
       [] s = "dread"   -> dtmp' = [dtmp EXCEPT ![i] = diags] /\ UNCHANGED <<diags, dlock, cache, compiled, pending, code>>
       [] s = "dwrite"  -> diags' = Append(dtmp[i], i) /\ UNCHANGED <<dlock, dtmp, cache, compiled, pending, code>>
       [] s = "emit"    ->   \* compile the calls of body i: direct if the callee's bytecode exists, else by name + pending
            /\ code' = [cs \in Calls |-> IF cs \in Sites /\ cs[1] = i THEN (IF cs[2] \in compiled THEN "direct" ELSE "byname") ELSE code[cs]]
            /\ pending' = pending \cup {[cs |-> cs, shifted |-> i \notin HasLocals] : cs \in {c \in Sites : c[1] = i /\ c[2] \notin compiled}}
            /\ UNCHANGED <<diags, dlock, dtmp, cache, compiled>>
       [] s = "preplocals" ->   \* prepend PREP_LOCALS, shift the recorded offsets, register the bytecode
            /\ pending' = IF Variant = "stale_offset" THEN pending
                          ELSE {IF p.cs[1] = i THEN [p EXCEPT !.shifted = TRUE] ELSE p : p \in pending}
            /\ compiled' = compiled \cup {i}
            /\ UNCHANGED <<diags, dlock, dtmp, cache, code>>
       [] s = "cache"   -> cache' = cache \cup {i} /\ UNCHANGED <<diags, dlock, dtmp, compiled, pending, code>>

Done(i) ==   \* f returned: the goroutine reaches foreach.done
  /\ UNCHANGED inst /\ UNCHANGED <<spc, si, sem, bstep, runs, diags, dlock, dtmp, cache, compiled, pending, code>>
  /\ bpc[i] = "run" /\ bstep[i] > Len(BodyProg)
  /\ bpc' = [bpc EXCEPT ![i] = "done"]
  /\ Log1(Ev(i, "arrive", "foreach.done", i - 1))

Release(i) ==   \* <-sem
  /\ UNCHANGED inst /\ UNCHANGED <<spc, si, bstep, runs, diags, dlock, dtmp, cache, compiled, pending, code>>
  /\ bpc[i] = "done" /\ sem > 0
  /\ sem' = sem - 1
  /\ bpc' = [bpc EXCEPT ![i] = "released"]
  /\ Log1(Ev(i, "go", "foreach.released", i - 1))

Exit(i) ==
  /\ UNCHANGED inst /\ UNCHANGED <<spc, si, sem, bstep, runs, diags, dlock, dtmp, cache, compiled, pending, code>>
  /\ bpc[i] = "released"
  /\ bpc' = [bpc EXCEPT ![i] = "exit"]
  /\ Log1(Ev(i, "fire", "exit", i - 1))

BNext(i) == Start(i) \/ Step(i) \/ Done(i) \/ Release(i) \/ Exit(i)
SNext == Begin \/ Acquire \/ Spawn \/ Drain \/ DrainNext \/ Return \/ Optimise

AllExited == \A i \in Bodies : bpc[i] = "exit"
Finished == spc = "optimised" /\ AllExited
Next == SNext \/ (\E i \in Bodies : BNext(i)) \/ (Finished /\ UNCHANGED vars)
NextSim == (SNext \/ \E i \in Bodies : BNext(i)) /\ ~Finished
Spec == Init /\ [][Next]_vars /\ WF_vars(Next)

-----------------------------------------------------------------------------
(* Properties *)
Holding == {i \in Bodies : bpc[i] \in {"start", "run", "done"}}
Running == {i \in Bodies : bpc[i] = "run"}
Returned == spc \in {"after", "optimised"}

TypeOK == /\ sem \in 0..Limit /\ dlock \in 0..N
          /\ \A i \in AllB : i > N => bpc[i] = "none"

\* at most Limit bodies run at a time: every started body holds a slot of the semaphore
AtMostLimit == Cardinality(Running) <= Limit
SemOK == Returned \/ Cardinality(Holding) <= sem
\* every body runs exactly once
AtMostOnce == \A i \in Bodies : runs[i] <= 1
ExactlyOnce == Returned => \A i \in Bodies : runs[i] = 1
\* Foreach returns only after every body has finished and released its slot
ReturnAfterAll == Returned => \A i \in Bodies : bpc[i] \in {"released", "exit"}
\* the mutex of the diagnostics list: what is appended is never lost; the final multiset is schedule independent
DiagsOK == /\ \A k, m \in 1..Len(diags) : k # m => diags[k] # diags[m]
           /\ \A i \in Bodies : (bstep[i] > 3 /\ Internal) => \E k \in 1..Len(diags) : diags[k] = i
           /\ (Returned /\ Internal) => Len(diags) = N
CacheOK == (Returned /\ Internal) => cache = Bodies
\* the compiled program: after the pending calls are patched every call site calls its callee, whatever the order
\* in which the bodies were compiled
CodeOK == spc = "optimised" => \A cs \in Sites : Internal => code[cs] \in {"direct", "byname", "patched"}

Termination == <>Finished

View == <<N, Limit, spc, si, sem, bpc, bstep, runs, diags, dlock, dtmp, cache, compiled, pending, code>>

EmitAtEnd == Finished =>
               PrintT(<<"GEN", ToJson([n |-> N, limit |-> Limit, hist |-> hist, done |-> Finished])>>)
=============================================================================
