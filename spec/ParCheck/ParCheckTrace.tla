---------------------------- MODULE ParCheckTrace ----------------------------
(***************************************************************************)
(* Trace validation of concurrent.Foreach (C11): the foreach.* hook events *)
(* recorded from free-running checks of the real checker must be a         *)
(* behaviour of ParCheck (Internal = FALSE: the Foreach protocol).         *)
(*                                                                         *)
(* Lines: [ev, i, n, limit] in the order of a global atomic counter read   *)
(* inside the hook.  The hooks of Foreach are not under a lock, so a line  *)
(* may be logged later than the state change it reports (and after lines   *)
(* of other goroutines that already depend on it).  Therefore every        *)
(* ParCheck action is a SILENT step and a line only confirms that its      *)
(* goroutine has arrived at that event:                                    *)
(*   unl[a] -- goroutine a has arrived at a hook event whose line has not  *)
(*             been consumed yet; a goroutine takes no further action      *)
(*             before its arrival is confirmed (it logs, then proceeds).   *)
(* Placement of the silent steps (exact for the guards sem < Limit): steps *)
(* that free a slot (Release) are taken as early as possible, all others   *)
(* as late as possible (when the next line is the line of that goroutine). *)
(* foreach.released lines are dropped by the recorder (they can be logged  *)
(* after foreach.return); Release and Exit stay silent.                    *)
(***************************************************************************)
EXTENDS ParCheck

Trace == ndJsonDeserialize("parcheck_trace.ndjson")

TraceConfigs == {<<0, 1>>}
TraceCalls == {}
TraceHasLocals == {}

VARIABLES l, unl
tvars == <<vars, l, unl>>

SHook == {"acquire.try", "acquired", "drain.try", "drained", "return"}
BHook == {"start", "done"}

TInit == /\ N = 0 /\ Limit = 1
         /\ spc = "after" /\ si = 0 /\ sem = 0
         /\ bpc = [i \in AllB |-> "none"] /\ bstep = [i \in AllB |-> 1] /\ runs = [i \in AllB |-> 0]
         /\ diags = <<>> /\ dlock = 0 /\ dtmp = [i \in AllB |-> <<>>]
         /\ cache = {} /\ compiled = {} /\ pending = {} /\ code = [cs \in Calls |-> "none"]
         /\ hist = <<>>
         /\ l = 1 /\ unl = [a \in 0..MaxN |-> FALSE]

\* arrivals produced by a step
NewUnl == [a \in 0..MaxN |->
             IF a = 0 THEN (IF <<spc', si'>> # <<spc, si>> /\ spc' \in SHook THEN TRUE ELSE unl[0])
             ELSE (IF bpc'[a] # bpc[a] /\ bpc'[a] \in BHook THEN TRUE ELSE unl[a])]
Silent(A, a) == /\ ~unl[a] /\ A /\ unl' = NewUnl /\ l' = l

More == l <= Len(Trace)
IsBodyLine == More /\ Trace[l].ev \in {"foreach.start", "foreach.done"}
LineActor == IF IsBodyLine THEN Trace[l].i + 1 ELSE 0

\* steps taken as early as possible
Eager == \/ \E i \in Bodies : Silent(Release(i), i) \/ Silent(Exit(i), i)
         \/ Silent(Return, 0)

\* steps taken when the next line belongs to the goroutine that arrives by them
Lazy == /\ More /\ Trace[l].ev # "foreach.begin"
        /\ IF LineActor = 0
             THEN Silent(Begin \/ Acquire \/ Spawn \/ Drain \/ DrainNext, 0)
             ELSE /\ LineActor \in Bodies
                  /\ \/ bpc[LineActor] = "none" /\ si = LineActor /\ Silent(Spawn, 0)
                     \/ Silent(Start(LineActor) \/ Done(LineActor), LineActor)

\* a line confirms an arrival
Line == /\ More
        /\ IF IsBodyLine
             THEN /\ LineActor \in Bodies /\ unl[LineActor]
                  /\ "foreach." \o bpc[LineActor] = Trace[l].ev
                  /\ unl' = [unl EXCEPT ![LineActor] = FALSE]
             ELSE /\ Trace[l].ev # "foreach.begin" /\ unl[0]
                  /\ "foreach." \o spc = Trace[l].ev
                  /\ (spc \in {"acquire.try", "acquired"}) => Trace[l].i = si - 1
                  /\ unl' = [unl EXCEPT ![0] = FALSE]
        /\ l' = l + 1 /\ UNCHANGED vars

\* foreach.begin: the previous call has returned and all its goroutines are gone
TraceReset == /\ More /\ Trace[l].ev = "foreach.begin"
              /\ spc = "after" /\ \A i \in Bodies : bpc[i] = "exit"
              /\ Trace[l].n <= MaxN
              /\ N' = Trace[l].n /\ Limit' = Trace[l].limit
              /\ ResetRest /\ UNCHANGED hist
              /\ unl' = [a \in 0..MaxN |-> FALSE] /\ l' = l + 1

TNext == Eager \/ (~ENABLED Eager /\ (Lazy \/ Line \/ TraceReset))

HighWater == TLCSet(1, IF TLCGet(1) < l THEN l ELSE TLCGet(1))
Constr == HighWater
TraceAccepted == IF TLCGet(1) = Len(Trace) + 1 THEN TRUE
                 ELSE PrintT(<<"STUCK", TLCGet(1), Trace[TLCGet(1)]>>) /\ FALSE
ASSUME TLCSet(1, 0)
=============================================================================
