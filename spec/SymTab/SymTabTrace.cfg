INIT Init
NEXT Next
CONSTRAINT Constr
INVARIANT NoDup
POSTCONDITION TraceAccepted
CHECK_DEADLOCK FALSE
