\* hand run of the instance the check uses: every interleaving of 3 goroutines x 2 operations over 2 names
\* (the harness generates its cfgs itself: harness/prop/c26/c26.go cfgText)
CONSTANTS
  Threads = {1, 2, 3}
  Names = {"a", "b"}
  NOps = 2
  Probe = FALSE
  Record = FALSE
  Variant = "ok"
SPECIFICATION Spec
VIEW View
INVARIANTS TypeOK MutualExclusion Bijection AbsOK ReturnOK
PROPERTIES Stable MissOK AbsGrows
CHECK_DEADLOCK TRUE
