-------------------------------- MODULE SymTab --------------------------------
(***************************************************************************)
(* The symbol table of the Elk runtime (value/symbol_table.go): a map      *)
(* name -> symbol, a slice symbol -> name, and one sync.RWMutex.           *)
(* Property C26: under any interleaving of Add / Get / GetName from any    *)
(* number of goroutines the table is a bijection, an interned name never   *)
(* changes its symbol, and every result is the one the table defines at    *)
(* the linearization point of the call.                                    *)
(*                                                                         *)
(* ONE ACTION PER HOOK EVENT (build tag verif): the implementation emits   *)
(* an event before every blocking operation (x.try) and after every state  *)
(* change, while the lock is held.  Every action is named after the event  *)
(* that ends it; its guard is the enabling condition of the blocking call  *)
(* it contains.  A behaviour is therefore a schedule for the gate driver.  *)
(*                                                                         *)
(*   Add(n):     add.lock.try  add.locked  add.lookup [add.name add.insert] ret   *)
(*               (the unlock is deferred: it happens at the return)        *)
(*   Get(n):     get.rlock.try get.rlocked get.read get.runlocked ret      *)
(*   GetName(k): getname.rlock.try getname.rlocked [getname.read] ret      *)
(***************************************************************************)
EXTENDS Integers, Sequences, FiniteSets, TLC, Json

CONSTANTS Threads,   \* set of goroutine ids (integers)
          Names,     \* set of names (strings)
          NOps,      \* operations per goroutine
          Probe,     \* TRUE: a goroutine may also be released into a Lock/RLock that is not available;
                     \*       it then waits inside the call (at most one at a time, so that the hand-off is
                     \*       deterministic) and is granted the lock by the unlock that makes it available.
                     \* FALSE: Lock/RLock are atomic guarded actions (every acquisition order).
          Record,    \* TRUE: keep the schedule in hist (behaviour generation); FALSE: hist stays empty (model checking)
          Variant    \* "ok": the design of value/symbol_table.go.  Deliberately broken designs (negative controls):
                     \* "add_rlock": Add takes the read lock; "get_nolock": Get reads without the lock;
                     \* "check_then_act": Add looks the name up under the read lock, then inserts under the
                     \*                   write lock without looking again

GetNameArgs == (0 - 1)..Cardinality(Names)   \* GetName arguments: every id that can become valid, -1 and one that never is
None == "-"                         \* "no name" / not found

VARIABLES nameTable,  \* name -> symbol or -1 (absent)
          idTable,    \* sequence of names; symbol k is idTable[k+1]
          writer,     \* thread holding the write lock, or 0
          readers,    \* set of threads holding a read lock
          waiting,    \* Probe: [t |-> thread, m |-> "w"|"r"] of the one goroutine blocked inside Lock/RLock, or NoWait
          pc,         \* per thread: the event it is stopped at
          op, arg,    \* per thread: current operation ("add" | "get" | "getname") and its argument
          done,       \* per thread: operations finished
          lval, lok,  \* per thread: the locals `val, ok` / `symbol` of the running call
          lin,        \* per thread: ghost -- the result the abstract table defines at the linearization point
          abs,        \* ghost: the abstract table = sequence of interned names in interning order
          hist        \* the schedule so far (hidden by VIEW)

vars == <<nameTable, idTable, writer, readers, waiting, pc, op, arg, done, lval, lok, lin, abs, hist>>
NoWait == [t |-> 0, m |-> "-"]
NoRes  == [v |-> -2, ok |-> FALSE, n |-> None]

AbsIndex(n) == IF \E i \in 1..Len(abs) : abs[i] = n THEN (CHOOSE i \in 1..Len(abs) : abs[i] = n) - 1 ELSE -1

\* k: "go" release the actor, it must stop next at e | "block" release it, it must NOT reach another event
\*    | "grant" it reaches e without being released (the lock was handed to it)
Ev(t, k, e, n, v, ok) == [a |-> t, k |-> k, e |-> e, n |-> n, v |-> v, ok |-> ok]
Log1(x)    == hist' = IF Record THEN Append(hist, x) ELSE hist
Log2(x, y) == hist' = IF Record THEN Append(Append(hist, x), y) ELSE hist

Init == /\ nameTable = [n \in Names |-> -1] /\ idTable = <<>>
        /\ writer = 0 /\ readers = {} /\ waiting = NoWait
        /\ pc = [t \in Threads |-> "start"]
        /\ op = [t \in Threads |-> "-"] /\ arg = [t \in Threads |-> None]
        /\ done = [t \in Threads |-> 0]
        /\ lval = [t \in Threads |-> -1] /\ lok = [t \in Threads |-> FALSE]
        /\ lin = [t \in Threads |-> NoRes]
        /\ abs = <<>>
        /\ hist = <<>>

-----------------------------------------------------------------------------
(* the RWMutex *)
WFree == writer = 0 /\ readers = {}
RFree == writer = 0
Free(m) == IF m = "w" THEN WFree ELSE RFree

\* the lock state after thread t gives up what it holds, and the hand-off to the waiting goroutine
AfterUnlock(t) ==
  LET w1 == IF writer = t THEN 0 ELSE writer
      r1 == readers \ {t}
      g  == waiting.t # 0 /\ (IF waiting.m = "w" THEN w1 = 0 /\ r1 = {} ELSE w1 = 0)
  IN [w |-> IF g /\ waiting.m = "w" THEN waiting.t ELSE w1,
      r |-> IF g /\ waiting.m = "r" THEN r1 \cup {waiting.t} ELSE r1,
      granted |-> g]

LockedEvent(o) == IF o = "add" THEN "add.locked" ELSE IF o = "get" THEN "get.rlocked"
                  ELSE IF o = "getname" THEN "getname.rlocked" ELSE "add.relocked"

\* Unlock by t as part of an action that ends at event e (logged first); the grant is logged second
Unlock(t, e, n, v, ok) ==
  LET u == AfterUnlock(t) IN
  /\ writer' = u.w /\ readers' = u.r
  /\ IF u.granted
       THEN /\ waiting' = NoWait
            /\ pc' = [pc EXCEPT ![t] = e, ![waiting.t] = LockedEvent(IF pc[waiting.t] = "add.relock.wait" THEN "relock" ELSE op[waiting.t])]
            /\ Log2(Ev(t, "go", e, n, v, ok),
                    Ev(waiting.t, "grant", LockedEvent(IF pc[waiting.t] = "add.relock.wait" THEN "relock" ELSE op[waiting.t]), arg[waiting.t], -1, FALSE))
       ELSE /\ UNCHANGED waiting
            /\ pc' = [pc EXCEPT ![t] = e]
            /\ Log1(Ev(t, "go", e, n, v, ok))

\* Lock (m = "w") or RLock (m = "r") by t, stopped at a x.try event; e is the event after the acquisition
Acquire(t, m, e, waitpc) ==
  \/ /\ Free(m) /\ waiting.t = 0
     /\ writer' = IF m = "w" THEN t ELSE writer
     /\ readers' = IF m = "r" THEN readers \cup {t} ELSE readers
     /\ pc' = [pc EXCEPT ![t] = e]
     /\ UNCHANGED waiting
     /\ Log1(Ev(t, "go", e, arg[t], -1, FALSE))
  \/ /\ Probe /\ ~Free(m) /\ waiting.t = 0
     /\ waiting' = [t |-> t, m |-> m]
     /\ pc' = [pc EXCEPT ![t] = waitpc]
     /\ UNCHANGED <<writer, readers>>
     /\ Log1(Ev(t, "block", e, arg[t], -1, FALSE))

\* the call returns: its locals (and the ghost) die
Return(t) == /\ done' = [done EXCEPT ![t] = @ + 1]
             /\ op' = [op EXCEPT ![t] = "-"] /\ arg' = [arg EXCEPT ![t] = None]
             /\ lval' = [lval EXCEPT ![t] = -1] /\ lok' = [lok EXCEPT ![t] = FALSE]
             /\ lin' = [lin EXCEPT ![t] = NoRes]

-----------------------------------------------------------------------------
(* a goroutine starts its next call, or finishes *)
AddLockMode == IF Variant \in {"add_rlock", "check_then_act"} THEN "r" ELSE "w"

Call(t) ==
  /\ UNCHANGED <<nameTable, idTable, writer, readers, waiting, done, lval, lok, lin, abs>>
  /\ pc[t] \in {"start", "ret"} /\ done[t] < NOps
  /\ \/ \E n \in Names : /\ op' = [op EXCEPT ![t] = "add"] /\ arg' = [arg EXCEPT ![t] = n]
                         /\ pc' = [pc EXCEPT ![t] = "add.lock.try"]
                         /\ Log1(Ev(t, "go", "add.lock.try", n, -1, FALSE))
     \/ \E n \in Names : /\ op' = [op EXCEPT ![t] = "get"] /\ arg' = [arg EXCEPT ![t] = n]
                         /\ pc' = [pc EXCEPT ![t] = "get.rlock.try"]
                         /\ Log1(Ev(t, "go", "get.rlock.try", n, -1, FALSE))
     \/ \E k \in GetNameArgs : /\ op' = [op EXCEPT ![t] = "getname"] /\ arg' = [arg EXCEPT ![t] = ToString(k)]
                               /\ pc' = [pc EXCEPT ![t] = "getname.rlock.try"]
                               /\ Log1(Ev(t, "go", "getname.rlock.try", ToString(k), -1, FALSE))

Finish(t) ==
  /\ UNCHANGED <<nameTable, idTable, writer, readers, waiting, op, arg, done, lval, lok, lin, abs>>
  /\ pc[t] \in {"start", "ret"} /\ done[t] = NOps
  /\ pc' = [pc EXCEPT ![t] = "done"]
  /\ Log1(Ev(t, "go", "done", None, -1, FALSE))

-----------------------------------------------------------------------------
(* Add(name) *)
AddLock(t) ==   \* s.mutex.Lock()
  /\ UNCHANGED <<nameTable, idTable, op, arg, done, lval, lok, lin, abs>>
  /\ pc[t] = "add.lock.try"
  /\ Acquire(t, AddLockMode, "add.locked", "add.lock.wait")

AddLookup(t) ==   \* val, ok := s.nameTable[name]; linearization point of an Add that finds the name
  /\ UNCHANGED <<nameTable, idTable, writer, readers, waiting, op, arg, done, abs>>
  /\ pc[t] = "add.locked"
  /\ lval' = [lval EXCEPT ![t] = nameTable[arg[t]]]
  /\ lok'  = [lok EXCEPT ![t] = nameTable[arg[t]] # -1]
  /\ lin'  = [lin EXCEPT ![t] = IF AbsIndex(arg[t]) # -1 THEN [v |-> AbsIndex(arg[t]), ok |-> TRUE, n |-> arg[t]] ELSE NoRes]
  /\ pc' = [pc EXCEPT ![t] = "add.lookup"]
  /\ Log1(Ev(t, "go", "add.lookup", arg[t], nameTable[arg[t]], nameTable[arg[t]] # -1))

AddReturnFound(t) ==   \* return val (deferred Unlock)
  /\ UNCHANGED <<nameTable, idTable, abs>>
  /\ pc[t] = "add.lookup" /\ lok[t]
  /\ Return(t)
  /\ Unlock(t, "ret", arg[t], lval[t], TRUE)

\* check_then_act only: the read lock is dropped and the write lock taken before the insertion
AddDropRead(t) ==
  /\ UNCHANGED <<nameTable, idTable, op, arg, done, lval, lok, lin, abs>>
  /\ Variant = "check_then_act" /\ pc[t] = "add.lookup" /\ ~lok[t]
  /\ Unlock(t, "add.relock.try", arg[t], -1, FALSE)
AddRelock(t) ==
  /\ UNCHANGED <<nameTable, idTable, op, arg, done, lval, lok, lin, abs>>
  /\ pc[t] = "add.relock.try"
  /\ Acquire(t, "w", "add.relocked", "add.relock.wait")

AddName(t) ==   \* symbol := Symbol(len(s.idTable)); s.nameTable[name] = symbol
  /\ UNCHANGED <<idTable, writer, readers, waiting, op, arg, done, lok, lin, abs>>
  /\ \/ pc[t] = "add.lookup" /\ ~lok[t] /\ Variant # "check_then_act"
     \/ pc[t] = "add.relocked"
  /\ lval' = [lval EXCEPT ![t] = Len(idTable)]
  /\ nameTable' = [nameTable EXCEPT ![arg[t]] = Len(idTable)]
  /\ pc' = [pc EXCEPT ![t] = "add.name"]
  /\ Log1(Ev(t, "go", "add.name", arg[t], Len(idTable), TRUE))

AddInsert(t) ==   \* s.idTable = append(s.idTable, name); linearization point of an Add that interns the name
  /\ UNCHANGED <<nameTable, writer, readers, waiting, op, arg, done, lval, lok>>
  /\ pc[t] = "add.name"
  /\ idTable' = Append(idTable, arg[t])
  /\ abs' = IF AbsIndex(arg[t]) = -1 THEN Append(abs, arg[t]) ELSE abs
  /\ lin' = [lin EXCEPT ![t] = [v |-> IF AbsIndex(arg[t]) = -1 THEN Len(abs) ELSE AbsIndex(arg[t]), ok |-> TRUE, n |-> arg[t]]]
  /\ pc' = [pc EXCEPT ![t] = "add.insert"]
  /\ Log1(Ev(t, "go", "add.insert", arg[t], lval[t], TRUE))

AddReturn(t) ==   \* return symbol (deferred Unlock)
  /\ UNCHANGED <<nameTable, idTable, abs>>
  /\ pc[t] = "add.insert"
  /\ Return(t)
  /\ Unlock(t, "ret", arg[t], lval[t], TRUE)

-----------------------------------------------------------------------------
(* Get(name) *)
GetRLock(t) ==   \* s.mutex.RLock()
  /\ UNCHANGED <<nameTable, idTable, op, arg, done, lval, lok, lin, abs>>
  /\ pc[t] = "get.rlock.try"
  /\ IF Variant = "get_nolock"
       THEN /\ pc' = [pc EXCEPT ![t] = "get.rlocked"] /\ UNCHANGED <<writer, readers, waiting>>
            /\ Log1(Ev(t, "go", "get.rlocked", arg[t], -1, FALSE))
       ELSE Acquire(t, "r", "get.rlocked", "get.rlock.wait")

GetRead(t) ==   \* val, ok := s.nameTable[name]; linearization point
  /\ UNCHANGED <<nameTable, idTable, writer, readers, waiting, op, arg, done, abs>>
  /\ pc[t] = "get.rlocked"
  /\ lval' = [lval EXCEPT ![t] = nameTable[arg[t]]]
  /\ lok'  = [lok EXCEPT ![t] = nameTable[arg[t]] # -1]
  /\ lin'  = [lin EXCEPT ![t] = [v |-> AbsIndex(arg[t]), ok |-> AbsIndex(arg[t]) # -1, n |-> arg[t]]]
  /\ pc' = [pc EXCEPT ![t] = "get.read"]
  /\ Log1(Ev(t, "go", "get.read", arg[t], nameTable[arg[t]], nameTable[arg[t]] # -1))

GetRUnlock(t) ==   \* s.mutex.RUnlock()
  /\ UNCHANGED <<nameTable, idTable, op, arg, done, lval, lok, lin, abs>>
  /\ pc[t] = "get.read"
  /\ IF Variant = "get_nolock"
       THEN /\ pc' = [pc EXCEPT ![t] = "get.runlocked"] /\ UNCHANGED <<writer, readers, waiting>>
            /\ Log1(Ev(t, "go", "get.runlocked", arg[t], lval[t], lok[t]))
       ELSE Unlock(t, "get.runlocked", arg[t], lval[t], lok[t])

GetReturn(t) ==   \* return -1, false | val, true
  /\ UNCHANGED <<nameTable, idTable, writer, readers, waiting, abs>>
  /\ pc[t] = "get.runlocked"
  /\ Return(t)
  /\ pc' = [pc EXCEPT ![t] = "ret"]
  /\ Log1(Ev(t, "go", "ret", arg[t], lval[t], lok[t]))

-----------------------------------------------------------------------------
(* GetName(symbol) *)
ArgK(t) == CHOOSE k \in GetNameArgs : ToString(k) = arg[t]

GetNameRLock(t) ==
  /\ UNCHANGED <<nameTable, idTable, op, arg, done, lval, lok, lin, abs>>
  /\ pc[t] = "getname.rlock.try"
  /\ Acquire(t, "r", "getname.rlocked", "getname.rlock.wait")

GetNameMiss(t) ==   \* symbol out of range: return "", false (deferred RUnlock); linearization point
  /\ UNCHANGED <<nameTable, idTable, abs>>
  /\ pc[t] = "getname.rlocked"
  /\ (ArgK(t) >= Len(idTable) \/ ArgK(t) < 0)
  /\ Return(t)
  /\ Unlock(t, "ret", None, ArgK(t), FALSE)

GetNameRead(t) ==   \* val := s.idTable[symbol]; linearization point
  /\ UNCHANGED <<nameTable, idTable, writer, readers, waiting, op, arg, done, lval, lok, abs>>
  /\ pc[t] = "getname.rlocked"
  /\ ArgK(t) >= 0 /\ ArgK(t) < Len(idTable)
  /\ lin' = [lin EXCEPT ![t] = IF ArgK(t) < Len(abs) THEN [v |-> ArgK(t), ok |-> TRUE, n |-> abs[ArgK(t) + 1]]
                                ELSE [v |-> ArgK(t), ok |-> FALSE, n |-> None]]
  /\ pc' = [pc EXCEPT ![t] = "getname.read"]
  /\ Log1(Ev(t, "go", "getname.read", idTable[ArgK(t) + 1], ArgK(t), TRUE))

GetNameReturn(t) ==   \* return val, true (deferred RUnlock)
  /\ UNCHANGED <<nameTable, idTable, abs>>
  /\ pc[t] = "getname.read"
  /\ Return(t)
  /\ Unlock(t, "ret", idTable[ArgK(t) + 1], ArgK(t), TRUE)

-----------------------------------------------------------------------------
TNext(t) == \/ Call(t) \/ Finish(t)
            \/ AddLock(t) \/ AddLookup(t) \/ AddReturnFound(t) \/ AddDropRead(t) \/ AddRelock(t)
            \/ AddName(t) \/ AddInsert(t) \/ AddReturn(t)
            \/ GetRLock(t) \/ GetRead(t) \/ GetRUnlock(t) \/ GetReturn(t)
            \/ GetNameRLock(t) \/ GetNameMiss(t) \/ GetNameRead(t) \/ GetNameReturn(t)

Done == \A t \in Threads : pc[t] = "done"
Finished == Done /\ UNCHANGED vars
Next == (\E t \in Threads : TNext(t)) \/ Finished
NextSim == Next /\ ~Done
Spec == Init /\ [][Next]_vars /\ WF_vars(Next)

-----------------------------------------------------------------------------
(* Properties *)
WaitPcs == {"add.lock.wait", "add.relock.wait", "get.rlock.wait", "getname.rlock.wait"}

TypeOK == /\ writer \in Threads \cup {0} /\ readers \subseteq Threads
          /\ \A n \in Names : nameTable[n] \in (0 - 1)..Cardinality(Names)
          /\ (waiting.t # 0) <=> (\E t \in Threads : pc[t] \in WaitPcs)

\* the RWMutex contract: a writer excludes everybody else
MutualExclusion == writer # 0 => readers = {}

\* nobody is in the middle of an insertion (between add.name and the end of the call)
Quiescent == \A t \in Threads : pc[t] \notin {"add.name", "add.insert"}

\* C26: the same name always maps to the same symbol, distinct names to distinct symbols, every symbol's name is
\* recoverable.  While an insertion is in progress this must hold for every name other than the one being inserted.
Interned == {n \in Names : nameTable[n] # -1}
Bijection ==
  /\ \A n \in Interned : \A m \in Interned : (n # m) => nameTable[n] # nameTable[m]
  /\ \A i, j \in 1..Len(idTable) : (i # j) => idTable[i] # idTable[j]
  /\ Quiescent => /\ \A n \in Interned : nameTable[n] < Len(idTable) /\ idTable[nameTable[n] + 1] = n
                  /\ \A k \in 1..Len(idTable) : nameTable[idTable[k]] = k - 1
                  /\ Len(idTable) = Cardinality(Interned)
\* the concrete tables implement the abstract one
AbsOK == Quiescent => idTable = abs

\* an interned name never changes its symbol and a symbol never changes its name (action property)
Stable == [][/\ \A n \in Names : nameTable[n] # -1 => nameTable'[n] = nameTable[n]
             /\ \A k \in 1..Len(idTable) : Len(idTable') >= k /\ idTable'[k] = idTable[k]]_vars

\* every call returns what the abstract table defined at its linearization point
\* (checked in the state in which the locals are about to be returned)
ReturnOK == \A t \in Threads :
   /\ pc[t] \in {"add.lookup"} /\ lok[t] => lin[t] = [v |-> lval[t], ok |-> TRUE, n |-> arg[t]]
   /\ pc[t] = "add.insert" => lin[t] = [v |-> lval[t], ok |-> TRUE, n |-> arg[t]]
   /\ pc[t] \in {"get.read", "get.runlocked"} => lin[t] = [v |-> lval[t], ok |-> lok[t], n |-> arg[t]]
   /\ pc[t] = "getname.read" => lin[t] = [v |-> ArgK(t), ok |-> TRUE, n |-> idTable[ArgK(t) + 1]]
\* a GetName that answers "no such symbol" is right about it
MissOK == [][\A t \in Threads : (pc[t] = "getname.rlocked" /\ pc'[t] = "ret") => ~(ArgK(t) >= 0 /\ ArgK(t) < Len(abs))]_vars

\* what a client can observe through results alone: Add(n) = k implies later GetName(k) = n and Get(n) = k
\* follows from ReturnOK + Stable + AbsOK (abs only grows).
AbsGrows == [][Len(abs') >= Len(abs) /\ SubSeq(abs', 1, Len(abs)) = abs]_vars

Termination == <>Done

View == <<nameTable, idTable, writer, readers, waiting, pc, op, arg, done, lval, lok, lin, abs>>

FinalTable == [names |-> [n \in Names |-> nameTable[n]], ids |-> idTable]
EmitAtEnd == Done =>
               PrintT(<<"GEN", ToJson([hist |-> hist, done |-> Done, final |-> FinalTable])>>)
=============================================================================
