----------------------------- MODULE SymTabTrace -----------------------------
(***************************************************************************)
(* Linearizability trace validation for value.SymbolTableStruct (C26).     *)
(* A trace is the call/return history of free-running goroutines that      *)
(* hammer one real table; the order of the lines is the order of a global  *)
(* atomic counter read before a call starts and after it has returned.     *)
(*                                                                         *)
(*   [ev |-> "call", t, op |-> "add"|"get"|"getname", n, k, ok]            *)
(*        -- the call line already carries the result the call returned    *)
(*           (copied from its return by the recorder: a prophecy that only *)
(*           prunes the search, the result is still computed from `tab`)   *)
(*   [ev |-> "ret", t]      [ev |-> "reset"]  (next trace: new, empty table)*)
(*                                                                         *)
(* The sequential specification is the abstract table of SymTab.tla: `tab`,*)
(* the sequence of interned names; Add(n) returns the index of n, interning*)
(* it at the end if absent; Get(n) returns the index or "absent";          *)
(* GetName(k) returns tab[k] or "absent".  Every call must take effect at  *)
(* one instant between its call and its return:                            *)
(*   - an interning Add takes effect at a SILENT step LinAdd between the   *)
(*     two lines (nondeterministic: TLC searches all placements);          *)
(*   - a call that does not change the table is linearizable iff at some   *)
(*     instant of its interval the table defines the result it returned;   *)
(*     the table only changes at LinAdd steps, so `sat` records whether    *)
(*     that was the case at the call or after any LinAdd since.            *)
(* Acceptance: some behaviour consumes every line (high-water mark in a    *)
(* TLC register, run with -workers 1).                                     *)
(***************************************************************************)
EXTENDS Integers, Sequences, FiniteSets, TLC, Json

Trace == ndJsonDeserialize("symtab_trace.ndjson")
Threads == {Trace[i].t : i \in 1..Len(Trace)}

VARIABLES l, tab, pend
vars == <<l, tab, pend>>

NoOp == [op |-> "none", n |-> "", k |-> 0, ok |-> FALSE, sat |-> FALSE]

IndexIn(s, n) == IF \E i \in 1..Len(s) : s[i] = n THEN (CHOOSE i \in 1..Len(s) : s[i] = n) - 1 ELSE -1

\* the result the abstract table s defines for the pending call p equals the result it returned
\* (for add: without interning -- the name is already there)
Consistent(s, p) ==
  CASE p.op = "add"     -> IndexIn(s, p.n) # -1 /\ IndexIn(s, p.n) = p.k
    [] p.op = "get"     -> IF IndexIn(s, p.n) = -1 THEN ~p.ok /\ p.k = -1 ELSE p.ok /\ p.k = IndexIn(s, p.n)
    [] p.op = "getname" -> IF p.k >= 0 /\ p.k < Len(s) THEN p.ok /\ p.n = s[p.k + 1] ELSE ~p.ok /\ p.n = ""
    [] OTHER            -> FALSE

Init == l = 1 /\ tab = <<>> /\ pend = [t \in Threads |-> NoOp]

Call == /\ l <= Len(Trace) /\ Trace[l].ev = "call"
        /\ pend[Trace[l].t].op = "none"
        /\ LET p == [op |-> Trace[l].op, n |-> Trace[l].n, k |-> Trace[l].k, ok |-> Trace[l].ok, sat |-> FALSE] IN
             pend' = [pend EXCEPT ![Trace[l].t] = [p EXCEPT !.sat = Consistent(tab, p)]]
        /\ l' = l + 1 /\ UNCHANGED tab

\* silent step: the pending Add of t interns its name now; it must get the symbol it returned
LinAdd(t) == /\ pend[t].op = "add" /\ ~pend[t].sat
             /\ IndexIn(tab, pend[t].n) = -1 /\ Len(tab) = pend[t].k
             /\ tab' = Append(tab, pend[t].n)
             /\ pend' = [u \in Threads |->
                           IF u = t THEN [pend[u] EXCEPT !.sat = TRUE]
                           ELSE IF pend[u].op = "none" \/ pend[u].sat THEN pend[u]
                           ELSE [pend[u] EXCEPT !.sat = Consistent(Append(tab, pend[t].n), pend[u])]]
             /\ UNCHANGED l

Ret == /\ l <= Len(Trace) /\ Trace[l].ev = "ret"
       /\ pend[Trace[l].t].op # "none" /\ pend[Trace[l].t].sat
       /\ pend' = [pend EXCEPT ![Trace[l].t] = NoOp]
       /\ l' = l + 1 /\ UNCHANGED tab

TraceReset == /\ l <= Len(Trace) /\ Trace[l].ev = "reset"
              /\ \A t \in Threads : pend[t].op = "none"
              /\ tab' = <<>> /\ l' = l + 1 /\ UNCHANGED pend

Next == Call \/ Ret \/ TraceReset \/ \E t \in Threads : LinAdd(t)

\* the abstract table is a bijection by construction; stated so that TLC checks it on every explored prefix
NoDup == \A i, j \in 1..Len(tab) : i # j => tab[i] # tab[j]

HighWater == TLCSet(1, IF TLCGet(1) < l THEN l ELSE TLCGet(1))
Constr == HighWater
TraceAccepted == IF TLCGet(1) = Len(Trace) + 1 THEN TRUE
                 ELSE PrintT(<<"STUCK", TLCGet(1), Trace[TLCGet(1)]>>) /\ FALSE
ASSUME TLCSet(1, 0)
=============================================================================
