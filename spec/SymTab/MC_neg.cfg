\* NEGATIVE CONTROL: Add takes only the read lock -- TLC must report ReturnOK (shortest) or Bijection violated
\* (Variant = "get_nolock" violates ReturnOK, "check_then_act" violates Stable)
CONSTANTS
  Threads = {1, 2}
  Names = {"a", "b"}
  NOps = 1
  Probe = FALSE
  Record = FALSE
  Variant = "add_rlock"
SPECIFICATION Spec
VIEW View
INVARIANTS TypeOK MutualExclusion Bijection AbsOK ReturnOK
PROPERTIES Stable MissOK AbsGrows
CHECK_DEADLOCK TRUE
