SPECIFICATION Spec
CONSTANT Deviations <- MCDeviations
INVARIANT PairLawsHold
INVARIANT TripleLawsHold
INVARIANT TotalOnComparable
CHECK_DEADLOCK FALSE
