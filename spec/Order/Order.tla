------------------------------- MODULE Order -------------------------------
(***************************************************************************)
(* C18: equality, hashing and ordering of the built-in values are mutually *)
(* consistent.                                                             *)
(*                                                                         *)
(* The value space is a finite POOL of items (items.ndjson, produced by    *)
(* the harness: harness/prop/c18/pool.go).  A numeric item is a symbolic   *)
(* number  s * (2^e + d + h/2)   (e >= 31, |d| <= 2)   or   s * (d + h/2)  *)
(* (e = 0, d < 2^30) in one concrete KIND (Int, Float, BigFloat, Int64 ..).*)
(* The mathematical order of such numbers is decidable without bignums:    *)
(* lexicographic on (sign, e, d, h), sound because |d| + 1/2 < 2^(e-1).    *)
(* A non-numeric item is an abstract value id m in a kind (String, List,   *)
(* Date ...); two items with the same kind and m are separately built      *)
(* instances of the same value; g > 0 groups items with the same contents  *)
(* across kinds (a list and a tuple with the same elements).               *)
(*                                                                         *)
(* A RELATION is a record of matrices  [eq, lax, heq, lt, le, gt, ge, cmp] *)
(* over item indices with cells 0 false, 1 true, 2 undefined (not defined  *)
(* for the pair), 3 error, 4 panic, and for cmp -1/0/1 or 5 (nil).         *)
(* The LAWS below are the property statement.  They are checked            *)
(*   - on the reference relation Ref(Deviations) by model checking         *)
(*     OrderMC.tla (state = a pair, then a triple, of items), and          *)
(*   - on every relation RECORDED from the real implementation by          *)
(*     OrderTrace.tla (trace validation).                                  *)
(* The reference relation also gives the predicted cell of every pair      *)
(* (GEN records) which the harness compares with the recorded cells.       *)
(*                                                                         *)
(* Known deviations of the implementation are NAMED guarded branches of    *)
(* the reference semantics (constant Deviations).  With Deviations = {}    *)
(* the reference relation satisfies every law; each deviation alone breaks *)
(* at least one law on the pool (Deviant.cfg shows it).                    *)
(***************************************************************************)
EXTENDS Integers, Sequences, FiniteSets, TLC, Json

CONSTANT Deviations

AllDeviations == {"IntegerViaBinary64", "IntegerViaBinary32", "FloatHashOfBits",
                  "BigFloatHashOfEncoding", "IdentityHash", "LaxUIntMissing",
                  "LaxUInt64AsInt64", "TupleEqAcceptsList"}

Items == ndJsonDeserialize("items.ndjson")
N     == Len(Items)
Ix    == 1..N

IsNum(x) == x.cls = "num"
IsNaN(x) == x.sp = "nan"
NN(x)    == IsNum(x) /\ ~IsNaN(x)          \* "non-NaN number" of the statement

CoercibleKinds == {"Int", "Float", "BigFloat"}
IntKinds   == {"Int", "Int64", "Int32", "Int16", "Int8", "UInt64", "UInt32", "UInt16", "UInt8", "UInt"}
Bin64Kinds == {"Float", "Float64"}
\* kinds whose `hash` is the generic Value#hash (address of the object) although `==` is structural
IdentityHashKinds == {"List", "Tuple", "Map", "Record", "Set", "CRange", "RRange", "DateTime"}

-----------------------------------------------------------------------------
(* The mathematical order *)
MagCmp(x, y) == IF x.e # y.e THEN (IF x.e < y.e THEN -1 ELSE 1)
                ELSE IF x.d # y.d THEN (IF x.d < y.d THEN -1 ELSE 1)
                ELSE IF x.h # y.h THEN (IF x.h < y.h THEN -1 ELSE 1)
                ELSE 0
MCmp(x, y) == IF x.s # y.s THEN (IF x.s < y.s THEN -1 ELSE 1)
              ELSE IF x.s = 0 THEN 0
              ELSE x.s * MagCmp(x, y)

Above(x, e) == x.s = 1 /\ (x.e > e \/ (x.e = e /\ x.d >= 0))     \* x >= 2^e

\* The pool only has exponents for which rounding to binary64 / binary32 is decidable here.
ASSUME \A i \in Ix : IsNum(Items[i]) => Items[i].e \in {0, 31, 32, 53, 62, 63, 64, 100, 1023, 9999}

\* round an INTEGER item to the nearest binary64 (ties to even)
Round64(x) == IF x.e < 53 THEN x
              ELSE IF x.e = 53 THEN (IF x.d = 1 THEN [x EXCEPT !.d = 0] ELSE x)
              ELSE [x EXCEPT !.d = 0]
\* round an INTEGER item below 2^64 to the nearest binary32 (ties to even)
Round32(x) == IF x.e = 0 THEN (IF x.d = 16777217 THEN [x EXCEPT !.d = 16777216] ELSE x)
              ELSE [x EXCEPT !.d = 0]

-----------------------------------------------------------------------------
(* The reference relation, with the named deviations D *)

\* x as it is seen when it is compared with y
Conv(D, x, y) ==
  IF "IntegerViaBinary64" \in D /\ x.kind \in IntKinds /\ y.kind \in Bin64Kinds
    THEN Round64(x)                                  \* deviation: Float(i) / i.ToFloat()
  ELSE IF "IntegerViaBinary32" \in D /\ x.kind \in IntKinds /\ y.kind = "Float32"
    THEN IF x.e < 63 \/ (x.e = 63 /\ x.d < 0) \/ (x.e = 63 /\ x.s = -1 /\ x.d = 0)
           THEN Round32(x)                           \* deviation: Float32(i) for a small int
           ELSE Round64(x)                           \* deviation: i.ToFloat() for a big int
  ELSE x

OrdDefined(x, y) == IsNum(x) /\ IsNum(y)
                    /\ ((x.kind \in CoercibleKinds /\ y.kind \in CoercibleKinds) \/ x.kind = y.kind)

RCmp(D, x, y) == IF ~OrdDefined(x, y) THEN 2
                 ELSE IF IsNaN(x) \/ IsNaN(y) THEN 5
                 ELSE MCmp(Conv(D, x, y), Conv(D, y, x))
B(b) == IF b THEN 1 ELSE 0
RLt(D, x, y) == LET c == RCmp(D, x, y) IN IF c = 2 THEN 2 ELSE B(c = -1)
RLe(D, x, y) == LET c == RCmp(D, x, y) IN IF c = 2 THEN 2 ELSE B(c \in {-1, 0})
RGt(D, x, y) == LET c == RCmp(D, x, y) IN IF c = 2 THEN 2 ELSE B(c = 1)
RGe(D, x, y) == LET c == RCmp(D, x, y) IN IF c = 2 THEN 2 ELSE B(c \in {0, 1})

RLax(D, x, y) ==
  IF ~(IsNum(x) /\ IsNum(y)) THEN 2
  ELSE IF IsNaN(x) \/ IsNaN(y) THEN 0
  ELSE IF "LaxUIntMissing" \in D /\ x.kind \in {"Float", "BigFloat"} /\ y.kind = "UInt"
    THEN 0                                           \* deviation: no UINT case in Float/BigFloat#=~
  ELSE IF "LaxUInt64AsInt64" \in D /\ x.kind = "Int" /\ Above(x, 63) /\ y.kind \in {"UInt64", "UInt"}
    THEN 0                                           \* deviation: BigInt#=~ reads a UInt64 as int64
  ELSE B(MCmp(Conv(D, x, y), Conv(D, y, x)) = 0)

REq(D, x, y) ==
  IF IsNum(x) /\ IsNum(y)
    THEN B(x.kind = y.kind /\ ~IsNaN(x) /\ ~IsNaN(y) /\ MCmp(x, y) = 0)
  ELSE IF ~IsNum(x) /\ ~IsNum(y) THEN
    IF x.kind = y.kind THEN B(x.m = y.m)
    ELSE IF "TupleEqAcceptsList" \in D /\ x.g # 0 /\ x.g = y.g
            /\ <<x.kind, y.kind>> \in {<<"Tuple", "List">>, <<"Record", "Map">>}
      THEN 1                                         \* deviation: Tuple#== / Record#== accept the mutable twin
    ELSE 0
  ELSE 0

\* hash equality: 1 where the laws force it, 2 (unconstrained) elsewhere
RHeq(D, x, y) ==
  IF x.id = y.id THEN 1
  ELSE IF REq(D, x, y) # 1 THEN 2
  ELSE IF "FloatHashOfBits" \in D /\ x.kind = "Float" /\ x.sp # y.sp
    THEN 0                                           \* deviation: -0.0 == 0.0, hash of the bit pattern
  ELSE IF "BigFloatHashOfEncoding" \in D /\ x.kind = "BigFloat" /\ x.rep # y.rep
    THEN 0                                           \* deviation: hash of the gob encoding (precision)
  ELSE IF "IdentityHash" \in D /\ x.kind \in IdentityHashKinds
    THEN 0                                           \* deviation: structural ==, address hash
  ELSE 1

Ref(D) ==
  [eq  |-> [a \in Ix |-> [b \in Ix |-> REq(D, Items[a], Items[b])]],
   lax |-> [a \in Ix |-> [b \in Ix |-> RLax(D, Items[a], Items[b])]],
   heq |-> [a \in Ix |-> [b \in Ix |-> RHeq(D, Items[a], Items[b])]],
   lt  |-> [a \in Ix |-> [b \in Ix |-> RLt(D, Items[a], Items[b])]],
   le  |-> [a \in Ix |-> [b \in Ix |-> RLe(D, Items[a], Items[b])]],
   gt  |-> [a \in Ix |-> [b \in Ix |-> RGt(D, Items[a], Items[b])]],
   ge  |-> [a \in Ix |-> [b \in Ix |-> RGe(D, Items[a], Items[b])]],
   cmp |-> [a \in Ix |-> [b \in Ix |-> RCmp(D, Items[a], Items[b])]]]

-----------------------------------------------------------------------------
(* THE LAWS (the property statement), pointwise over a relation R.         *)
(* Viol2(R, law, a, b): the pair law is violated at (a, b).                *)
(* Viol3(R, law, a, b, c): the triple law is violated at (a, b, c).        *)
Def(v)  == v \in {0, 1}
Ord(v)  == v \in {-1, 0, 1}
Num2(a, b)    == NN(Items[a]) /\ NN(Items[b])
Num3(a, b, c) == NN(Items[a]) /\ NN(Items[b]) /\ NN(Items[c])

PairLaws == {"hash_consistent", "eq_symmetric", "eq_reflexive",
             "agree_lt", "agree_le", "agree_gt", "agree_ge", "agree_lax",
             "mirror_lt_gt", "mirror_le_ge", "mirror_cmp"}
TripleLaws == {"lt_transitive", "le_transitive", "gt_transitive", "ge_transitive",
               "lax_transitive", "le_lt_transitive", "lt_le_transitive"}

Viol2(R, law, a, b) ==
  CASE law = "hash_consistent" -> R.eq[a][b] = 1 /\ R.heq[a][b] = 0
    [] law = "eq_symmetric"    -> Def(R.eq[a][b]) /\ Def(R.eq[b][a]) /\ R.eq[a][b] # R.eq[b][a]
    [] law = "eq_reflexive"    -> a = b /\ ~IsNaN(Items[a]) /\ R.eq[a][a] = 0
    [] law = "agree_lt"  -> Num2(a, b) /\ Ord(R.cmp[a][b]) /\ Def(R.lt[a][b])  /\ R.lt[a][b]  # B(R.cmp[a][b] = -1)
    [] law = "agree_le"  -> Num2(a, b) /\ Ord(R.cmp[a][b]) /\ Def(R.le[a][b])  /\ R.le[a][b]  # B(R.cmp[a][b] <= 0)
    [] law = "agree_gt"  -> Num2(a, b) /\ Ord(R.cmp[a][b]) /\ Def(R.gt[a][b])  /\ R.gt[a][b]  # B(R.cmp[a][b] = 1)
    [] law = "agree_ge"  -> Num2(a, b) /\ Ord(R.cmp[a][b]) /\ Def(R.ge[a][b])  /\ R.ge[a][b]  # B(R.cmp[a][b] >= 0)
    [] law = "agree_lax" -> Num2(a, b) /\ Ord(R.cmp[a][b]) /\ Def(R.lax[a][b]) /\ R.lax[a][b] # B(R.cmp[a][b] = 0)
    [] law = "mirror_lt_gt" -> Num2(a, b) /\ Def(R.lt[a][b]) /\ Def(R.gt[b][a]) /\ R.lt[a][b] # R.gt[b][a]
    [] law = "mirror_le_ge" -> Num2(a, b) /\ Def(R.le[a][b]) /\ Def(R.ge[b][a]) /\ R.le[a][b] # R.ge[b][a]
    [] law = "mirror_cmp"   -> Num2(a, b) /\ Ord(R.cmp[a][b]) /\ Ord(R.cmp[b][a]) /\ R.cmp[a][b] # -R.cmp[b][a]

\* triple law |-> <<relation of (a,b), relation of (b,c), relation of (a,c) that must then hold>>
TL == [lt_transitive    |-> <<"lt", "lt", "lt">>,
       le_transitive    |-> <<"le", "le", "le">>,
       gt_transitive    |-> <<"gt", "gt", "gt">>,
       ge_transitive    |-> <<"ge", "ge", "ge">>,
       lax_transitive   |-> <<"lax", "lax", "lax">>,
       le_lt_transitive |-> <<"le", "lt", "lt">>,
       lt_le_transitive |-> <<"lt", "le", "lt">>]
ASSUME DOMAIN TL = TripleLaws

Viol3(R, law, a, b, c) ==
  /\ Num3(a, b, c)
  /\ R[TL[law][1]][a][b] = 1 /\ R[TL[law][2]][b][c] = 1 /\ R[TL[law][3]][a][c] = 0

=============================================================================
