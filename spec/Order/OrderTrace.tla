----------------------------- MODULE OrderTrace -----------------------------
(***************************************************************************)
(* Trace validation for C18: the relations RECORDED from the real          *)
(* implementation (trace.ndjson, one line per relation instance and row:   *)
(* the cells of ==, =~, hash equality, <, <=, >, >=, <=> of item a against *)
(* every item) must be models of the laws of Order.tla.                    *)
(*                                                                         *)
(* One step validates one recorded row: every pair law on (a, b) and every *)
(* triple law on (a, b, c), for all b, c.  Each violated instance is       *)
(* reported in a GEN record together with the set of NAMED deviations of   *)
(* the reference semantics that violate the same law at the same items     *)
(* (a violation no single deviation explains is tried against all of them   *)
(* together: "combined"; an empty set means unexplained).                  *)
(***************************************************************************)
EXTENDS Order

Rows  == ndJsonDeserialize("trace.ndjson")
Insts == <<"call", "dyn", "typed", "go">>
NI    == Len(Rows) \div N

\* rows are written instance by instance, a = 1..N
ASSUME Len(Rows) = NI * N
ASSUME \A k \in 1..Len(Rows) : Rows[k].a = ((k - 1) % N) + 1

Rec(i) == [eq  |-> [x \in Ix |-> Rows[(i - 1) * N + x].eq],
           lax |-> [x \in Ix |-> Rows[(i - 1) * N + x].lax],
           heq |-> [x \in Ix |-> Rows[(i - 1) * N + x].heq],
           lt  |-> [x \in Ix |-> Rows[(i - 1) * N + x].lt],
           le  |-> [x \in Ix |-> Rows[(i - 1) * N + x].le],
           gt  |-> [x \in Ix |-> Rows[(i - 1) * N + x].gt],
           ge  |-> [x \in Ix |-> Rows[(i - 1) * N + x].ge],
           cmp |-> [x \in Ix |-> Rows[(i - 1) * N + x].cmp]]
Recs == [i \in 1..NI |-> Rec(i)]

RefByDev == [dv \in AllDeviations |-> Ref({dv})]
RefAll   == Ref(AllDeviations)

Explain2(law, x, y) ==
  LET single == {dv \in AllDeviations : Viol2(RefByDev[dv], law, x, y)}
  IN IF single # {} THEN single
     ELSE IF Viol2(RefAll, law, x, y) THEN {"combined"} ELSE {}
Explain3(law, x, y, z) ==
  LET single == {dv \in AllDeviations : Viol3(RefByDev[dv], law, x, y, z)}
  IN IF single # {} THEN single
     ELSE IF Viol3(RefAll, law, x, y, z) THEN {"combined"} ELSE {}

NumIx == {x \in Ix : NN(Items[x])}

\* Only rows with a true cell can start a chain: enumerate b over the true cells of (a, .) and c
\* over the true cells of (b, .) whose (a, c) cell is false.
RowViolations(R, x) ==
  {[law |-> v[1], b |-> v[2], c |-> 0, dev |-> Explain2(v[1], x, v[2])] :
      v \in {w \in PairLaws \X Ix : Viol2(R, w[1], x, w[2])}}
  \cup
  (IF x \notin NumIx THEN {} ELSE
   UNION {UNION {{[law |-> law, b |-> y, c |-> z, dev |-> Explain3(law, x, y, z)] :
                    z \in {z \in NumIx : R[TL[law][2]][y][z] = 1 /\ R[TL[law][3]][x][z] = 0}} :
                 y \in {y \in NumIx : R[TL[law][1]][x][y] = 1}} :
          law \in TripleLaws})

VARIABLES k, done
tvars == <<k, done>>

TInit == k = 0 /\ done = 0

\* choosing a row is cheap; validating it is the work (one state per row: TLC's workers share them)
Choose == /\ k = 0
          /\ k' \in 1..Len(Rows)
          /\ done' = 0

Validate == /\ k > 0 /\ done = 0
            /\ done' = 1
            /\ UNCHANGED k
            /\ LET i  == ((k - 1) \div N) + 1
                   x  == Rows[k].a
                   vs == RowViolations(Recs[i], x)
               IN PrintT(<<"GEN", ToJson([inst |-> Rows[k].inst, a |-> x, viol |-> vs])>>)

TNext == Choose \/ Validate
TSpec == TInit /\ [][TNext]_tvars
=============================================================================
