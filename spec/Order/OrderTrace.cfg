SPECIFICATION TSpec
CONSTANT Deviations <- MCDeviations
CHECK_DEADLOCK FALSE
