------------------------------ MODULE OrderMC ------------------------------
(***************************************************************************)
(* Model checking the reference relation of Order.tla on the pool: the     *)
(* behaviours choose an item a, then b: on every pair every pair law is    *)
(* checked, every triple law is checked on all triples (a, b, c) extending *)
(* it, and the predicted cells of the pair are emitted as a GEN record for *)
(* the replay against the real implementation.                             *)
(***************************************************************************)
EXTENDS Order

VARIABLES pa, pb
vars == <<pa, pb>>

\* the reference relation, materialised once (TLC evaluates function constructors lazily otherwise)
Mat(R) == [op \in DOMAIN R |-> TLCEval([x \in Ix |-> TLCEval([y \in Ix |-> R[op][x][y]])])]
TheRef == Mat(Ref(Deviations))
NumIx  == {z \in Ix : NN(Items[z])}

Init == pa \in Ix /\ pb = 0

PickB == /\ pb = 0
         /\ pb' \in Ix
         /\ UNCHANGED pa
         /\ PrintT(<<"GEN", ToJson([a |-> pa, b |-> pb',
                 eq |-> TheRef.eq[pa][pb'], lax |-> TheRef.lax[pa][pb'], heq |-> TheRef.heq[pa][pb'],
                 lt |-> TheRef.lt[pa][pb'], le |-> TheRef.le[pa][pb'], gt |-> TheRef.gt[pa][pb'],
                 ge |-> TheRef.ge[pa][pb'], cmp |-> TheRef.cmp[pa][pb']])>>)

Next == PickB
Spec == Init /\ [][Next]_vars

PairLawsHold   == pb # 0 => \A law \in PairLaws : ~Viol2(TheRef, law, pa, pb)
\* every triple (pa, pb, z) that extends the chosen pair
TripleLawsHold == pb # 0 /\ Num2(pa, pb) =>
                    \A law \in TripleLaws :
                       TheRef[TL[law][1]][pa][pb] = 1 =>
                          \A z \in NumIx :      \* = ~Viol3(TheRef, law, pa, pb, z), premises already known
                             ~(TheRef[TL[law][2]][pb][z] = 1 /\ TheRef[TL[law][3]][pa][z] = 0)
\* the reference order is total on the non-NaN numbers of mutually comparable kinds
TotalOnComparable == pb # 0 /\ Num2(pa, pb) /\ OrdDefined(Items[pa], Items[pb])
                       => TheRef.cmp[pa][pb] \in {-1, 0, 1}
=============================================================================
