----------------------------- MODULE MC_Narrow -----------------------------
EXTENDS Narrow
MCDecl == {"nil", "int"}
MCDev == {}
MCAllDev == AllDeviations
MCPrograms == Family(1, 1, 1)
=============================================================================
