------------------------------- MODULE Narrow ------------------------------
(***************************************************************************)
(* Flow-sensitive narrowing of one captured local `a` (property C02).      *)
(*                                                                         *)
(* A program declares `var a: D = init` (D = the set Decl of abstract      *)
(* values), closures `f_v := || -> a = v` for every v in Decl, and a body  *)
(* built from                                                              *)
(*   set(v)        a = v                  call(v)   f_v.()                 *)
(*   if/unless/eqnil(b)   if a / unless a / if a == nil ... end            *)
(*   while(b)      while a ... end  (at most two iterations)               *)
(*   loop(b)       fornum, exactly two iterations (back edge)              *)
(*   try(b, h)     do b; throw ...; catch ...; h; end  (handler entry)     *)
(*   fin(b, h)     do b finally h end                                      *)
(*   late(b)       g := || -> <read a>;  b;  g.()  (closure body)          *)
(* Init picks a program; Next is a small-step machine that EXECUTES it     *)
(* (concrete store) and, along the executed path, computes the flow type   *)
(* `ft` a sound flow-sensitive checker may ascribe to `a`: narrowed by a   *)
(* condition, and widened back to the declared type wherever the value may *)
(* have changed behind the checker's back: after a closure call, at a loop *)
(* head whose body assigns, at a handler entry whose protected body        *)
(* assigns, inside a closure body.  `Sound` (every read of `a` yields a    *)
(* value of its flow type) is the property; TLC checks it for every        *)
(* program of the bounded family.                                          *)
(*                                                                         *)
(* Deviations are NAMED guarded branches that drop one of the widenings (or *)
(* let a stale type decide a condition: "fold_condition") --               *)
(* they describe what the implementation was observed to do, make `Sound`  *)
(* fail in the model, and let the harness recognise a recorded finding     *)
(* exactly.  Deviations = {} is the reference.                             *)
(*                                                                         *)
(* Every probe (a read of `a`) is identified by a static site: block path  *)
(* \o <<k>>, k = 0 block entry, k = i after the i-th statement; the body   *)
(* of the statement at path p is block p \o <<1>>, its handler p \o <<2>>, *)
(* the closure g of late is site p \o <<3, 0>>.  Each finished execution   *)
(* emits GEN [prog, hist]; the harness renders prog as Elk text with one   *)
(* probe per site and compares hist with the real run (replay), and the    *)
(* real static types with the real runtime classes (TypesTrace).           *)
(***************************************************************************)
EXTENDS Naturals, Sequences, FiniteSets, TLC, Json

CONSTANTS Decl,        \* abstract values admitted by the declared type, subset of Vals
          Deviations,  \* subset of AllDeviations
          Programs     \* the programs to execute

Vals == {"nil", "false", "int", "str"}
AllDeviations == {"closure_call", "loop_backedge", "handler_entry", "closure_body", "guard_scope",
                  "fold_condition"}

ASSUME Decl \subseteq Vals /\ Deviations \subseteq AllDeviations

Truthy(v)     == v \notin {"nil", "false"}
TruthyPart(S) == {v \in S : Truthy(v)}
FalsyPart(S)  == {v \in S : ~Truthy(v)}

SimpleOps   == {"set", "call"}
GuardOps    == {"if", "unless", "eqnil"}
LoopOps     == {"while", "loop"}
HandlerOps  == {"try", "fin"}
BodyOps     == GuardOps \cup LoopOps \cup {"late"}
CompoundOps == BodyOps \cup HandlerOps

-----------------------------------------------------------------------------
(* The bounded program family.                                             *)
Stmt(op, v, b, h) == [op |-> op, v |-> v, b |-> b, h |-> h]
Nop == Stmt("nop", "nil", <<>>, <<>>)

SeqsUpTo(S, n) == UNION {[1..k -> S] : k \in 0..n}
Simple == {Stmt(o, v, <<>>, <<>>) : o \in SimpleOps, v \in Decl}
Compound(B, H) == {Stmt(o, "nil", b, <<>>) : o \in BodyOps, b \in B}
                  \cup {Stmt(o, "nil", b, h) : o \in HandlerOps, b \in B, h \in H}
Blocks0(n)      == SeqsUpTo(Simple, n)
Items1(n)       == Simple \cup Compound(Blocks0(n), Blocks0(n))
Blocks1(n, m)   == SeqsUpTo(Items1(n), m)
Items2(n, m)    == Simple \cup Compound(Blocks1(n, m), Blocks0(n))
(* all programs: innermost blocks of <= n simple statements, middle blocks *)
(* of <= m statements, top level of <= l statements                        *)
Family(n, m, l) == {[init |-> v, body |-> b] : v \in Decl, b \in SeqsUpTo(Items2(n, m), l)}

(* Does executing block b possibly change `a`?  Direct assignments do, and *)
(* so do calls of the closures f_v -- unless the "closure_call" deviation  *)
(* is enabled: an implementation that does not look into callees sees no   *)
(* assignment in `f_v.()`.                                                 *)
RECURSIVE Assigns(_)
Assigns(b) == \E i \in 1..Len(b) :
                 \/ b[i].op = "set"
                 \/ (b[i].op = "call" /\ "closure_call" \notin Deviations)
                 \/ Assigns(b[i].b)
                 \/ Assigns(b[i].h)

-----------------------------------------------------------------------------
VARIABLES prog,    \* the program being executed
          stack,   \* control stack of block frames, innermost LAST
          store,   \* current value of `a`
          ft,      \* flow type of `a` at the current point (set of abstract values)
          hist,    \* probes so far: [site, val, ft]
          done

vars == <<prog, stack, store, ft, hist, done>>

Probe(site, val, t) == [site |-> site, val |-> val, ft |-> t]

Frame(b, bp, kind, fb, hf, s, g) ==
  [b |-> b, i |-> 1, bp |-> bp, kind |-> kind, it |-> 1, fb |-> fb, hf |-> hf, s |-> s, g |-> g]

Top     == stack[Len(stack)]
Rest    == SubSeq(stack, 1, Len(stack) - 1)
HasCur  == Top.i <= Len(Top.b)
Cur     == Top.b[Top.i]
SP      == Top.bp \o <<Top.i>>                \* path of the current statement
Parent  == stack[Len(stack) - 1]
PSP     == Parent.bp \o <<Parent.i>>          \* path of the statement whose block is on top
Bump(f) == [f EXCEPT !.i = @ + 1]
ReplaceTop(f) == [stack EXCEPT ![Len(stack)] = f]

CondHolds(op, v) == CASE op \in {"if", "while"} -> Truthy(v)
                      [] op = "unless"          -> ~Truthy(v)
                      [] op = "eqnil"           -> v = "nil"
                      [] OTHER                  -> TRUE

(* Is the body of a guard / loop entered?  By the value of `a` -- except    *)
(* under the "fold_condition" deviation: a compiler that trusts the static *)
(* type folds `a == nil` to true when the flow type of `a` is exactly nil. *)
(* With a sound flow type both agree; with a stale one the wrong branch    *)
(* runs (observed: `if a == nil; f_int.(); if a == nil; <entered with 1>`).*)
Taken(op, v, t) ==
  IF "fold_condition" \in Deviations /\ op = "eqnil" /\ t = {"nil"} THEN TRUE ELSE CondHolds(op, v)

NarrowBy(op, t) == CASE op \in {"if", "while"} -> TruthyPart(t)
                     [] op = "unless"          -> FalsyPart(t)
                     [] op = "eqnil"           -> t \cap {"nil"}
                     [] OTHER                  -> t

(* flow type at a loop head = join over the entry edge and the back edge   *)
HeadType(s, before) ==
  IF s.op \in LoopOps /\ Assigns(s.b) /\ "loop_backedge" \notin Deviations THEN Decl ELSE before

(* flow type at a handler (catch / finally) entry = join over every point  *)
(* of the protected body                                                   *)
HandlerType(s, before) ==
  IF Assigns(s.b) /\ "handler_entry" \notin Deviations THEN Decl ELSE before

(* flow type of the captured `a` inside a closure body: the closure runs   *)
(* later, and `a` is assigned elsewhere (the f_v closures always exist)    *)
ClosureBodyType(atCreation) ==
  IF "closure_body" \in Deviations THEN atCreation ELSE Decl

(* flow type after a closure call: the callee may assign every captured    *)
(* variable                                                                *)
AfterCallType(before) ==
  IF "closure_call" \in Deviations THEN before ELSE Decl

(* The flow analysis itself: the type of `a` after statement s / block b   *)
(* when it is t before.  Path-insensitive (what a checker can know): the   *)
(* type after a guard or loop joins the end of the body with the type      *)
(* before it; an assignment keeps the current narrowing if the assigned    *)
(* value fits it and otherwise falls back to the declared type.            *)
(* Deviation "guard_scope": the narrowing of a guard lives in a scope of    *)
(* its own, and an implementation that simply drops that scope at `end`    *)
(* restores the type from before the guard -- forgetting assignments made  *)
(* inside it (`if a; unless a; a = nil; end; <a still non-nil>`).          *)
RECURSIVE StaticBlock(_, _), StaticStmt(_, _)
StaticBlock(b, t) == IF Len(b) = 0 THEN t ELSE StaticBlock(Tail(b), StaticStmt(Head(b), t))
StaticStmt(s, t) ==
  CASE s.op = "set"       -> IF s.v \in t THEN t ELSE Decl
    [] s.op = "call"      -> AfterCallType(t)
    [] s.op \in GuardOps  -> IF "guard_scope" \in Deviations THEN t
                             ELSE StaticBlock(s.b, NarrowBy(s.op, t)) \cup t
    [] s.op \in LoopOps   -> LET head == HeadType(s, t)
                             IN IF "guard_scope" \in Deviations /\ s.op = "while" THEN head
                                ELSE StaticBlock(s.b, NarrowBy(s.op, head)) \cup head
    [] s.op \in HandlerOps -> StaticBlock(s.h, HandlerType(s, t))   \* control always passes through h
    [] s.op = "late"      -> StaticBlock(s.b, t)
    [] OTHER              -> t

-----------------------------------------------------------------------------
Init ==
  /\ prog \in Programs
  /\ stack = <<Frame(prog.body, <<>>, "top", Decl, Decl, Nop, Decl)>>
  /\ store = prog.init
  /\ ft = Decl
  /\ hist = <<Probe(<<0>>, prog.init, Decl)>>
  /\ done = FALSE

(* a = v   |   f_v.()                                                      *)
ExecSimple ==
  /\ ~done /\ HasCur /\ Cur.op \in SimpleOps
  /\ LET nft == StaticStmt(Cur, ft) IN
       /\ store' = Cur.v
       /\ ft' = nft
       /\ hist' = Append(hist, Probe(SP, Cur.v, nft))
       /\ stack' = ReplaceTop(Bump(Top))
  /\ UNCHANGED <<prog, done>>

(* enter the body of a compound statement whose condition holds            *)
Enter ==
  /\ ~done /\ HasCur /\ Cur.op \in CompoundOps /\ Taken(Cur.op, store, ft)
  /\ LET s    == Cur
         head == HeadType(s, ft)
         inft == NarrowBy(s.op, head)
     IN /\ stack' = Append(stack, Frame(s.b, SP \o <<1>>, s.op, ft, head, s, ClosureBodyType(ft)))
        /\ ft' = inft
        /\ hist' = Append(hist, Probe(SP \o <<1, 0>>, store, inft))
  /\ UNCHANGED <<prog, store, done>>

(* the condition of a guard / while does not hold: skip the statement      *)
Skip ==
  /\ ~done /\ HasCur /\ Cur.op \in CompoundOps /\ ~Taken(Cur.op, store, ft)
  /\ LET nft == StaticStmt(Cur, ft) IN
       /\ ft' = nft
       /\ hist' = Append(hist, Probe(SP, store, nft))
       /\ stack' = ReplaceTop(Bump(Top))
  /\ UNCHANGED <<prog, store, done>>

(* leave the compound statement on top: pop, advance the parent, probe     *)
Exit(nft, extra) ==
  /\ stack' = [Rest EXCEPT ![Len(Rest)] = Bump(@)]
  /\ ft' = nft
  /\ hist' = Append(hist \o extra, Probe(PSP, store, nft))

AtEnd == ~done /\ ~HasCur /\ Len(stack) > 1

EndGuard ==
  /\ AtEnd /\ Top.kind \in GuardOps \cup {"handler"}
  /\ Exit(StaticStmt(Top.s, Top.fb), <<>>)
  /\ UNCHANGED <<prog, store, done>>

(* back edge: second iteration, entered with the loop-head type            *)
BackEdge ==
  /\ AtEnd /\ Top.kind \in LoopOps /\ Top.it < 2 /\ CondHolds(Top.kind, store)
  /\ LET inft == NarrowBy(Top.kind, Top.hf) IN
       /\ stack' = ReplaceTop([Top EXCEPT !.i = 1, !.it = @ + 1])
       /\ ft' = inft
       /\ hist' = Append(hist, Probe(Top.bp \o <<0>>, store, inft))
  /\ UNCHANGED <<prog, store, done>>

EndLoop ==
  /\ AtEnd /\ Top.kind \in LoopOps /\ ~(Top.it < 2 /\ CondHolds(Top.kind, store))
  /\ Exit(StaticStmt(Top.s, Top.fb), <<>>)
  /\ UNCHANGED <<prog, store, done>>

(* end of a protected body: `try` throws here, `fin` falls through; both   *)
(* enter the handler                                                       *)
EnterHandler ==
  /\ AtEnd /\ Top.kind \in HandlerOps
  /\ LET hft == HandlerType(Top.s, Top.fb)
         hbp == PSP \o <<2>>
     IN /\ stack' = ReplaceTop([Top EXCEPT !.b = Top.s.h, !.i = 1, !.bp = hbp, !.kind = "handler"])
        /\ ft' = hft
        /\ hist' = Append(hist, Probe(hbp \o <<0>>, store, hft))
  /\ UNCHANGED <<prog, store, done>>

(* end of the body of `late`: call the closure created before the body     *)
EndLate ==
  /\ AtEnd /\ Top.kind = "late"
  /\ Exit(StaticStmt(Top.s, Top.fb), <<Probe(PSP \o <<3, 0>>, store, Top.g)>>)
  /\ UNCHANGED <<prog, store, done>>

Finish ==
  /\ ~done /\ ~HasCur /\ Len(stack) = 1
  /\ done' = TRUE
  /\ PrintT(<<"GEN", ToJson([prog |-> prog, hist |-> hist])>>)
  /\ UNCHANGED <<prog, stack, store, ft, hist>>

Terminated == done /\ UNCHANGED vars

Next == ExecSimple \/ Enter \/ Skip \/ EndGuard \/ BackEdge \/ EndLoop \/ EnterHandler
        \/ EndLate \/ Finish \/ Terminated

Spec == Init /\ [][Next]_vars

-----------------------------------------------------------------------------
(* THE PROPERTY (C02 on the narrowing fragment): every value read from `a` *)
(* is an instance of the flow type at the point of the read.               *)
Sound == \A i \in 1..Len(hist) : hist[i].val \in hist[i].ft

StoreTyped == store \in ft

TypeOK ==
  /\ store \in Decl
  /\ ft \subseteq Decl
  /\ Len(stack) >= 1
  /\ \A i \in 1..Len(stack) : stack[i].i >= 1 /\ stack[i].it \in 1..2

(* sites are unique per visit order: a site is visited at most twice (loops of two iterations, *)
(* possibly nested once)                                                                    *)
Bounded == Len(hist) <= 200
=============================================================================
