------------------------------- MODULE Types -------------------------------
(***************************************************************************)
(* The reference relation "value v is an instance of static type T"        *)
(* (properties C02 and C28).                                               *)
(*                                                                         *)
(* A runtime value is abstracted to  [cls, tag, obj (, err)]:              *)
(*   cls  the name of its runtime class ("Std::Int"); for a class / module *)
(*        / mixin / interface OBJECT the class of that object              *)
(*        ("Std::Class", "Std::Module", ...);                              *)
(*   tag  the literal text of simple values (nil true 3 "x" :a `c` 5i8),   *)
(*        "" for everything else;                                          *)
(*   obj  "" for ordinary values, the namespace's name when the value IS a *)
(*        class/module/mixin/interface object.                             *)
(* A static type is the record [k, n, v, e] produced by the harness from   *)
(* the real checker's types.Type (prop/c02/probe.go Encode):               *)
(*   any void never nil bool true false                                    *)
(*   class(n)      named class or mixin (type arguments erased)            *)
(*   exact(n)      exactly this class (result of `<<:` narrowing)          *)
(*   lit(n, v)     literal type: class n and literal text v                *)
(*   singleton(n)  the class/module object n or one of its descendants     *)
(*   nilable(e[1]) union(e) inter(e) not(e[1])                             *)
(*   opaque        outside the relation (interfaces are structural, type   *)
(*                 parameters, self, closure signatures): accepts all      *)
(* Ancestors is the class lattice of the LIVE type environment (std        *)
(* headers + the classes of the checked program), exported by the harness: *)
(* class name -> set of names of itself, its superclasses, included mixins *)
(* and implemented interfaces.                                             *)
(***************************************************************************)
EXTENDS Naturals, Sequences, FiniteSets

CONSTANT Ancestors

Kinds == {"any", "void", "never", "nil", "bool", "true", "false", "class", "exact", "lit",
          "singleton", "nilable", "union", "inter", "not", "opaque"}

Descends(c, n) == c = n \/ (c \in DOMAIN Ancestors /\ n \in Ancestors[c])

Ordinary(v) == v.obj = ""

RECURSIVE InstanceOf(_, _)
InstanceOf(v, T) ==
  CASE T.k = "any"       -> TRUE
    [] T.k = "void"      -> TRUE
    [] T.k = "opaque"    -> TRUE
    [] T.k = "never"     -> FALSE
    [] T.k = "nil"       -> Ordinary(v) /\ v.cls = "Std::Nil"
    [] T.k = "true"      -> Ordinary(v) /\ v.cls = "Std::True"
    [] T.k = "false"     -> Ordinary(v) /\ v.cls = "Std::False"
    [] T.k = "bool"      -> Ordinary(v) /\ v.cls \in {"Std::True", "Std::False"}
    [] T.k = "class"     -> Descends(v.cls, T.n)
    [] T.k = "exact"     -> Ordinary(v) /\ v.cls = T.n
    [] T.k = "lit"       -> Ordinary(v) /\ v.cls = T.n /\ (T.v = "" \/ v.tag = T.v)
    [] T.k = "singleton" -> ~Ordinary(v) /\ Descends(v.obj, T.n)
    [] T.k = "nilable"   -> (Ordinary(v) /\ v.cls = "Std::Nil") \/ InstanceOf(v, T.e[1])
    [] T.k = "union"     -> \E i \in 1..Len(T.e) : InstanceOf(v, T.e[i])
    [] T.k = "inter"     -> \A i \in 1..Len(T.e) : InstanceOf(v, T.e[i])
    [] T.k = "not"       -> ~InstanceOf(v, T.e[1])
    [] OTHER             -> FALSE      \* an unknown kind is never silently accepted

(* Is membership in T decided by the relation at all (no opaque part)?     *)
RECURSIVE Decided(_)
Decided(T) ==
  CASE T.k = "opaque" -> FALSE
    [] T.k \in {"nilable", "union", "inter", "not"} -> \A i \in 1..Len(T.e) : Decided(T.e[i])
    [] OTHER -> TRUE

(* Sanity of the exported lattice: reflexive and transitive.               *)
LatticeOK ==
  /\ \A c \in DOMAIN Ancestors : c \in Ancestors[c]
  /\ \A c \in DOMAIN Ancestors : \A d \in Ancestors[c] :
        d \in DOMAIN Ancestors => Ancestors[d] \subseteq Ancestors[c]
=============================================================================
