CONSTANTS
  Decl <- MCDecl
  Deviations <- MCDev
  Programs <- MCPrograms
INIT Init
NEXT Next
INVARIANTS Sound StoreTyped TypeOK
CHECK_DEADLOCK TRUE
