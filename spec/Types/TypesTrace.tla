----------------------------- MODULE TypesTrace ----------------------------
(***************************************************************************)
(* Trace validation for C02 / C28: every line of trace.ndjson is one       *)
(* (static type, runtime value) pair observed on the real code --          *)
(*   C02: a probe `vp(id, e)`: T = the type the real checker stored on e,  *)
(*        v = the class/tag of the value the real VM produced for e;       *)
(*   C28: a std call: T = the declared return type (kind "ret") or the     *)
(*        declared throw type (kind "throw"), v = the result / the thrown  *)
(*        value.                                                           *)
(* The trace is accepted iff the relation of module Types holds on every   *)
(* line.  A rejected line does not stop the validation: it is reported     *)
(* (GEN record) and counted, so that one run classifies the whole trace.   *)
(* The class lattice is read from lattice.ndjson (exported by the harness  *)
(* from the live type environment).                                        *)
(***************************************************************************)
EXTENDS Naturals, Sequences, FiniteSets, TLC, Json

Rows  == ndJsonDeserialize("lattice.ndjson")     \* [c |-> class, a |-> <<ancestors>>]
Trace == ndJsonDeserialize("trace.ndjson")       \* [line, kind, T, v]

Lattice == [c \in {Rows[i].c : i \in DOMAIN Rows} |->
              UNION {{Rows[i].a[j] : j \in DOMAIN Rows[i].a} : i \in {k \in DOMAIN Rows : Rows[k].c = c}}]

INSTANCE Types WITH Ancestors <- Lattice

VARIABLES i, rejected
vars == <<i, rejected>>

(* a thrown value is acceptable if the declared throw type covers it or it *)
(* is an unchecked runtime error: an instance of Std::Error according to   *)
(* the declared lattice or to the runtime's own class chain (v.err: some   *)
(* runtime error classes are not declared in the headers at all)           *)
LineOK(l) ==
  CASE l.kind = "throw" -> InstanceOf(l.v, l.T) \/ Descends(l.v.cls, "Std::Error") \/ l.v.err
    [] OTHER            -> InstanceOf(l.v, l.T)

Init == i = 1 /\ rejected = 0

Accept == /\ i <= Len(Trace) /\ LineOK(Trace[i])
          /\ i' = i + 1 /\ UNCHANGED rejected

Reject == /\ i <= Len(Trace) /\ ~LineOK(Trace[i])
          /\ PrintT(<<"GEN", ToJson([line |-> Trace[i].line])>>)
          /\ i' = i + 1 /\ rejected' = rejected + 1

Next == Accept \/ Reject

Spec == Init /\ [][Next]_vars

TraceAccepted == rejected = 0         \* invariant: holds until the first rejected line

ASSUME LatticeOK                      \* the exported lattice is reflexive and transitive
=============================================================================
