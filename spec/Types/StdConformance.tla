--------------------------- MODULE StdConformance --------------------------
(***************************************************************************)
(* Property C28, static part: every method the std headers declare is      *)
(* callable at run time on instances of the declaring type with every      *)
(* argument count the signature admits.                                    *)
(*                                                                         *)
(* decls.ndjson holds one fact per declared method, extracted by the       *)
(* harness from the LIVE type environment (types.GlobalEnvironment built   *)
(* from headers.go) joined with the LIVE runtime (the method the VM         *)
(* resolves for the same namespace and name, after lib/builtin was loaded):*)
(*   ns nskind singleton m        declaring namespace, its kind, method    *)
(*   on                           the class on whose instances the method  *)
(*                                is resolved: ns itself, or -- for a      *)
(*                                method declared in a mixin -- one row    *)
(*                                per runtime class including the mixin    *)
(*   min nparams opt rest named_rest   the declared signature              *)
(*   abstract macro native ...    flags                                    *)
(*   ns_found found rt_params rt_opt   what the runtime resolves           *)
(* The relation: a method that needs an implementation (not abstract, not  *)
(* an interface signature, not a macro) must be resolved by the runtime,   *)
(* and the runtime method must have room for every declared parameter:     *)
(* the VM's call path (vm/thread.go callNativeMethod / callBytecodeFunction*)
(* -> populateMissingParameters) pads the arguments it was given up to the *)
(* runtime method's parameterCount and then takes parameterCount + 1 stack *)
(* slots as self + arguments.  A runtime method with FEWER slots than the  *)
(* declaration (a rest parameter is one slot) misreads self when called    *)
(* with the admitted maximum; one with more slots only sees extra          *)
(* `undefined`s.  The optional-parameter count of the runtime method is    *)
(* not used on this path and therefore not part of the relation.           *)
(* The dynamic part of C28 (results are instances of the declared return   *)
(* type, thrown values are covered by the declared throw type or are       *)
(* unchecked runtime errors) is trace validation with TypesTrace.          *)
(***************************************************************************)
EXTENDS Naturals, Sequences, FiniteSets, TLC, Json

Decls == ndJsonDeserialize("decls.ndjson")

VARIABLES i, rejected
vars == <<i, rejected>>

NeedsImplementation(d) == ~d.abstract /\ d.nskind # "interface" /\ ~d.macro

SlotsOK(d) == d.rt_params >= d.nparams

Why(d) ==
  CASE ~NeedsImplementation(d) -> "ok"
    [] ~d.ns_found             -> "namespace_missing_at_runtime"
    [] ~d.found                -> "method_missing_at_runtime"
    [] ~SlotsOK(d)             -> "too_few_parameter_slots"
    [] OTHER                   -> "ok"

Callable(d) == Why(d) = "ok"

Init == i = 1 /\ rejected = 0

Accept == /\ i <= Len(Decls) /\ Callable(Decls[i])
          /\ i' = i + 1 /\ UNCHANGED rejected

Reject == /\ i <= Len(Decls) /\ ~Callable(Decls[i])
          /\ PrintT(<<"GEN", ToJson([line |-> Decls[i].line, why |-> Why(Decls[i])])>>)
          /\ i' = i + 1 /\ rejected' = rejected + 1

Next == Accept \/ Reject
Spec == Init /\ [][Next]_vars

AllCallable == rejected = 0
=============================================================================
