\* negative control: with the four named deviations enabled Sound must be violated
CONSTANTS
  Decl <- MCDecl
  Deviations <- MCAllDev
  Programs <- MCPrograms
INIT Init
NEXT Next
INVARIANTS Sound StoreTyped TypeOK
CHECK_DEADLOCK TRUE
