INIT Init
NEXT Next
CHECK_DEADLOCK FALSE
