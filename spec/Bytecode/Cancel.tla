------------------------------- MODULE Cancel -------------------------------
(***************************************************************************)
(* C33 -- cancellation stops any running program (static half).            *)
(*                                                                         *)
(* A thread whose context is cancelled only notices it at a CHECKPOINT:    *)
(* the CHECK_ABORT instruction (vm/thread.go opCheckAbort, emitted by the  *)
(* compiler when AdditionalAbortChecks is set), SELECT (its first case is  *)
(* the context's Done channel) and the points where the activation hands   *)
(* control back (YIELD, STOP_ITERATION, AWAIT suspension, return, uncaught *)
(* throw).  So with the abort flag set, a program can run on only along an *)
(* execution path that never passes a checkpoint.  This module re-uses the *)
(* abstract interpreter of Bytecode (same instruction table, same          *)
(* successors, branch choices unconstrained, exception edges included),    *)
(* adds the transfer of control of a TAIL CALL into the callee (a          *)
(* self/mutually tail-recursive method is a loop without a back-edge) and  *)
(* states the property twice:                                              *)
(*   - as the liveness property EventuallyCheckpoint (Live.cfg): under     *)
(*     weak fairness of the machine every behaviour reaches a checkpoint   *)
(*     or ends again and again; a checkpoint-free cycle is a lasso;        *)
(*   - as the safety property NoCheckpointFreeCycle over the history       *)
(*     variable since (the instructions executed since the last            *)
(*     checkpoint), which lets one TLC run report EVERY such cycle of      *)
(*     every function (Cycles.cfg emits one GEN record per cycle).         *)
(***************************************************************************)
EXTENDS Bytecode

VARIABLES since,  \* <<function, pc>> of the instructions executed since the last checkpoint
          cyc     \* TRUE: the machine is about to execute an instruction of since again

varsC == <<vars, since, cyc>>

CheckpointOps == {"CHECK_ABORT", "SELECT", "YIELD", "STOP_ITERATION", "AWAIT"}
AtCheckpoint  == ~end /\ Name(pc) \in CheckpointOps

InitC == Init /\ since = {} /\ cyc = FALSE

\* the callee of the call instruction at pc when it is a tail call into a function of the same program, else 0
TailTarget ==
  LET inf == Info(pc) IN
  IF end \/ inf.c # "CALL_BC" THEN 0
  ELSE LET k == IF inf.w = 2 THEN B(pc + 1) ELSE U16(pc + 1)
       IN  IF k < Len(F.vtail) THEN F.vtail[k + 1] ELSE 0

Since1 == IF AtCheckpoint THEN {} ELSE since \cup {<<fi, pc>>}

Step == /\ ~cyc /\ Next
        /\ since' = Since1
        /\ cyc' = (~end' /\ <<fi', pc'>> \in since')

\* callBytecodeFunctionTCO: the callee's frame replaces the caller's; execution continues at its first instruction
TailCall ==
  /\ ~cyc /\ ~end /\ TailTarget > 0
  /\ LET g == TailTarget IN
     /\ fi' = g /\ pc' = 0 /\ from' = pc
     /\ stk' = Xs(1 + Fns[g].nparams) /\ nloc' = 1 + Fns[g].nparams
     /\ marks' = InitMarks(g, 1)
     /\ bnd' = Sweep(g, 0)
     /\ finb' = [e \in 1..Len(Fns[g].catches) |-> FinLayout(g, e)]
     /\ end' = (Len(Fns[g].code) = 0) /\ err' = "" /\ unv' = ""
     /\ since' = Since1
     /\ cyc' = (<<g, 0>> \in since')

NextC == Step \/ TailCall

CycleRec == [f |-> fi', k |-> "cycle", q |-> pc', n |-> Cardinality(since'), via |-> Name(pc), p |-> pc, g |-> fi]
NextEmit == NextC /\ (cyc' => PrintT(<<"GEN", ToJson(CycleRec)>>))

SpecC == InitC /\ [][NextC]_varsC /\ WF_varsC(NextC)

NoCheckpointFreeCycle == ~cyc
EventuallyCheckpoint  == []<>(end \/ cyc \/ AtCheckpoint)
=============================================================================
