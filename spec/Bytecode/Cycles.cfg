CONSTANTS
  Phase = "cancel"
  Deviations <- MCDeviations
  MaxDepth <- MCMaxDepth
INIT InitC
NEXT NextEmit
CHECK_DEADLOCK FALSE
