------------------------------ MODULE Bytecode ------------------------------
(***************************************************************************)
(* C29 -- compiled bytecode is structurally valid.                         *)
(*                                                                         *)
(* The instruction set of the Elk VM (bytecode/opcode.go, vm/thread.go     *)
(* run loop) as a table, and the abstract interpreter of ONE compiled      *)
(* function as a state machine over (function, pc, abstract stack).        *)
(* Functions are DATA: every function the real compiler produced for the   *)
(* corpus is exported by the harness as raw bytes + constant kinds + catch *)
(* entries (fns.ndjson); nothing is decoded outside this module.  The byte *)
(* -> opcode NAME table comes from the real bytecode package               *)
(* (opnames.ndjson), so this module is keyed by names, not numbers.        *)
(*                                                                         *)
(* One Next step = one VM instruction (or one exception edge).  What the   *)
(* property statement demands is expressed as                              *)
(*   - structural errors the machine can run into (variable err):          *)
(*     operand underflow, jump / catch target off an instruction boundary  *)
(*     or outside the function, constant / local / upvalue / call-site     *)
(*     index out of range, constant of the wrong KIND for the opcode       *)
(*     (the VM casts these pointers unchecked), closure descriptor count,  *)
(*   - DepthCertified: the operand depth at a pc is a function of the pc   *)
(*     (join consistency).  TLC invariants are per state, so "unique per   *)
(*     pc" is checked against a CERTIFICATE (pc -> depth, like a JVM       *)
(*     StackMapTable): phase "explore" emits every transition (GEN), the   *)
(*     harness collects the first depth seen per pc, phase "verify"        *)
(*     re-explores with the invariant depth = Cert[pc].  A consistent      *)
(*     assignment is unique, so a wrong certificate can only fail.         *)
(*   - DisasmAgrees: the real disassembler visits exactly the instruction  *)
(*     boundaries this table defines and reports no error.                 *)
(*                                                                         *)
(* Finally blocks are compiled as shared subroutines entered in one of     *)
(* four modes (flag TRUE/FALSE/NIL/UNDEFINED pushed before the body, and   *)
(* dispatched on after it), deliberately at different depths.  The machine *)
(* therefore tracks those constants on the abstract stack, resolves the    *)
(* dispatch jumps on known flags, and the certificate is keyed by          *)
(* (pc, mode) where mode = the flags of the active finally activations.    *)
(*                                                                         *)
(* Exception edges: the REFERENCE semantics unwinds the operand stack to   *)
(* the depth it had when the protected range was entered and pushes        *)
(* (stack trace, error).  The real VM (thread.go rethrow) keeps whatever   *)
(* operands were pending at the throwing instruction: that is the NAMED    *)
(* deviation "CatchKeepsOperands" below.                                   *)
(***************************************************************************)
EXTENDS Integers, Sequences, FiniteSets, TLC, Json

CONSTANTS Phase,       \* "explore" | "verify"
          Deviations,  \* subset of {"CatchKeepsOperands"}
          MaxDepth     \* bound on the operand depth (runaway guard: a loop that leaks an operand per iteration)

Fns   == ndJsonDeserialize("fns.ndjson")
OpTab == ndJsonDeserialize("opnames.ndjson")[1]   \* OpTab[b+1] = name of opcode byte b ("" = none)
Cert  == ndJsonDeserialize("cert.ndjson")         \* Cert[i] : record "pc|mode" -> depth (verify phase)

VARIABLES fi,     \* index of the function being interpreted
          pc,     \* byte offset of the next instruction
          stk,    \* abstract operand stack INCLUDING the frame's local slots (self, params, locals)
          marks,  \* <<catch entry, depth>> recorded when the pc entered a protected range
          nloc,   \* number of local slots at the bottom of stk
          end,    \* TRUE: terminal state (returned / thrown out / stopped on a diagnosis)
          err,    \* "" or the structural error found (a violation of the property)
          unv,    \* "" or why the function cannot be verified (unknown opcode, bound hit): counted, never a violation
          from,   \* pc of the previous instruction (diagnostics; not part of the VIEW)
          bnd,    \* instruction boundaries of function fi (a function of fi, computed once in Init; not in the VIEW)
          finb    \* finb[e] = FinLayout(fi, e) (likewise)

vars == <<fi, pc, stk, marks, nloc, end, err, unv, from, bnd, finb>>
View == <<fi, pc, stk, marks, nloc, end, err, unv>>

F    == Fns[fi]
B(p) == F.code[p + 1]
Name(p) == OpTab[B(p) + 1]
U16(p) == B(p) * 256 + B(p + 1)

-----------------------------------------------------------------------------
(* Abstract values.  Only what control flow depends on is tracked.         *)
AV(k, a, b) == [k |-> k, a |-> a, b |-> b]
X == AV("x", 0, 0)                   \* anything
Xs(n) == [i \in 1..n |-> X]
\* k = "t" "f" "n" "u": the constants true false nil undefined
\* k = "i": small integer a          k = "c": constant number a of the pool (function / select data)
\* k = "F": flag of finally activation: a = catch entry, b = 1 true 2 false 3 nil 4 undefined
FlagCode(v) == CASE v.k = "F" -> v.b [] v.k = "t" -> 1 [] v.k = "f" -> 2 [] v.k = "n" -> 3
                 [] v.k = "u" -> 4 [] v.k = "i" -> 5 [] OTHER -> 0
FlagLetter(b) == CASE b = 1 -> "t" [] b = 2 -> "f" [] b = 3 -> "n" [] OTHER -> "u"

RECURSIVE ModeFrom(_, _)
ModeFrom(s, i) == IF i > Len(s) THEN ""
                  ELSE IF s[i].k = "F" THEN ToString(s[i].a) \o FlagLetter(s[i].b) \o "." \o ModeFrom(s, i + 1)
                  ELSE ModeFrom(s, i + 1)
Mode(s) == ModeFrom(s, 1)
Key(p, s) == ToString(p) \o "|" \o Mode(s)

-----------------------------------------------------------------------------
(* The instruction table.  [w]idth in bytes, [c]lass ("fix" = fixed stack  *)
(* effect pop/push and fall through; otherwise the class names the rule in *)
(* Succ), whether the instruction can [t]hrow.  Derived from the run loop  *)
(* of vm/thread.go (operand reads = width, push/pop calls = effect).       *)
Fix(w, pop, push, t) == [w |-> w, c |-> "fix", pop |-> pop, push |-> push, t |-> t]
Spc(w, c, t)         == [w |-> w, c |-> c, pop |-> 0, push |-> 0, t |-> t]

Push1 == {"SELF", "INT_M1", "INT_0", "INT_1", "INT_2", "INT_3", "INT_4", "INT_5", "FLOAT_0", "FLOAT_1", "FLOAT_2",
          "GET_IVAR_0", "GET_IVAR_1", "GET_IVAR_2"}
Bin   == {"ADD", "ADD_INT", "ADD_FLOAT", "SUBTRACT", "SUBTRACT_INT", "SUBTRACT_FLOAT", "MULTIPLY", "MULTIPLY_INT",
          "MULTIPLY_FLOAT", "DIVIDE", "DIVIDE_INT", "DIVIDE_FLOAT", "EXPONENTIATE", "EXPONENTIATE_INT",
          "RBITSHIFT", "RBITSHIFT_INT", "LOGIC_RBITSHIFT", "LBITSHIFT", "LBITSHIFT_INT", "LOGIC_LBITSHIFT",
          "BITWISE_AND", "BITWISE_AND_INT", "BITWISE_OR", "BITWISE_OR_INT", "BITWISE_XOR", "BITWISE_XOR_INT",
          "BITWISE_AND_NOT", "MODULO", "MODULO_INT", "MODULO_FLOAT", "EQUAL", "EQUAL_INT", "EQUAL_FLOAT",
          "STRICT_EQUAL", "GREATER", "GREATER_INT", "GREATER_FLOAT", "GREATER_EQUAL", "GREATER_EQUAL_I",
          "GREATER_EQUAL_F", "LESS", "LESS_INT", "LESS_FLOAT", "LESS_EQUAL", "LESS_EQUAL_INT", "LESS_EQUAL_FLOAT",
          "NOT_EQUAL", "NOT_EQUAL_INT", "NOT_EQUAL_FLOAT", "STRICT_NOT_EQUAL", "LAX_EQUAL", "LAX_NOT_EQUAL",
          "COMPARE", "SUBSCRIPT", "INSTANCE_OF", "IS_A", "AS", "APPEND", "INIT_NAMESPACE"}
Una   == {"NEGATE", "NEGATE_INT", "NEGATE_FLOAT", "NOT", "BITWISE_NOT", "UNARY_PLUS", "INCREMENT", "INCREMENT_INT",
          "DECREMENT", "DECREMENT_INT", "COPY", "GET_ITERATOR", "GET_SINGLETON", "GET_CLASS", "MUST", "GO",
          "AWAIT_SYNC", "AWAIT_RESULT", "BREAKPOINT", "EXEC"}
NoThrow1 == {"NOT", "COPY", "GET_CLASS", "NEGATE_INT", "NEGATE_FLOAT"}
Pop1  == {"POP", "SET_IVAR_0", "SET_IVAR_1", "SET_IVAR_2", "EXEC_DEFER", "YIELD"}
Load8 == {"LOAD_INT_8", "LOAD_CHAR_8", "LOAD_INT64_8", "LOAD_UINT64_8", "LOAD_INT32_8", "LOAD_UINT32_8",
          "LOAD_INT16_8", "LOAD_UINT16_8", "LOAD_INT8", "LOAD_UINT8", "GET_IVAR8"}
CondPop1 == {"JUMP_UNLESS", "JUMP_IF", "JUMP_IF_NIL", "JUMP_UNLESS_NIL", "JUMP_UNLESS_UNDEF"}
CondPop0 == {"JUMP_UNLESS_NP", "JUMP_IF_NP", "JUMP_IF_NIL_NP", "JUMP_UNLESS_NNP", "JUMP_UNLESS_UNP"}
CondPop2 == {"JUMP_UNLESS_LE", "JUMP_UNLESS_LT", "JUMP_UNLESS_GE", "JUMP_UNLESS_GT", "JUMP_UNLESS_EQ", "JUMP_IF_EQ",
             "JUMP_UNLESS_ILE", "JUMP_UNLESS_ILT", "JUMP_UNLESS_IGE", "JUMP_UNLESS_IGT", "JUMP_UNLESS_IEQ", "JUMP_IF_IEQ"}
CondThrows == {"JUMP_UNLESS_LE", "JUMP_UNLESS_LT", "JUMP_UNLESS_GE", "JUMP_UNLESS_GT"}

InfoOf(n) ==
  CASE n \in Push1 -> Fix(1, 0, 1, FALSE)
    [] n \in {"TRUE", "FALSE", "NIL", "UNDEFINED"} -> Spc(1, "const", FALSE)
    [] n \in Bin   -> Fix(1, 2, 1, TRUE)
    [] n \in Una   -> Fix(1, 1, 1, n \notin NoThrow1)
    [] n \in Pop1  -> Fix(1, 1, 0, n \in {"EXEC_DEFER"})
    [] n \in {"NOOP", "INSPECT_STACK", "CLOSE_UPVALUES_TO_1", "CLOSE_UPVALUES_TO_2", "CLOSE_UPVALUES_TO_3",
              "STOP_ITERATION"} -> Fix(1, 0, 0, FALSE)
    [] n = "CHECK_ABORT" -> Fix(1, 0, 0, TRUE)
    [] n \in {"POP_2"} -> Fix(1, 2, 0, FALSE)
    [] n \in {"INCLUDE", "DEF_IVARS", "SET_SUPERCLASS"} -> Fix(1, 2, 0, TRUE)
    [] n \in {"MAP_SET", "APPEND_AT", "SUBSCRIPT_SET", "DEF_METHOD", "DEF_GETTER", "DEF_SETTER"} -> Fix(1, 3, 1, TRUE)
    [] n = "DEF_CONST" -> Fix(1, 3, 0, FALSE)
    [] n \in {"DUP", "DUP_2", "DUP_SECOND", "SWAP", "POP_SKIP_ONE", "POP_2_SKIP_ONE"} -> Spc(1, n, FALSE)
    [] n \in {"RETURN", "RETURN_SELF", "RETURN_FIRST_ARG", "RETURN_FINALLY", "JUMP_TO_FINALLY", "GENERATOR", "PROMISE"}
         -> Spc(1, n, FALSE)
    [] n \in {"THROW", "RETHROW", "AWAIT", "SELECT"} -> Spc(1, n, TRUE)
    [] n \in {"GET_LOCAL_1", "GET_LOCAL_2", "GET_LOCAL_3", "GET_LOCAL_4"} -> Spc(1, "GET_LOCAL", FALSE)
    [] n \in {"SET_LOCAL_1", "SET_LOCAL_2", "SET_LOCAL_3", "SET_LOCAL_4"} -> Spc(1, "SET_LOCAL", FALSE)
    [] n \in {"GET_UPVALUE_0", "GET_UPVALUE_1"} -> Spc(1, "GET_UPVALUE", FALSE)
    [] n \in {"SET_UPVALUE_0", "SET_UPVALUE_1"} -> Spc(1, "SET_UPVALUE", FALSE)
    [] n \in {"LOAD_VALUE_0", "LOAD_VALUE_1", "LOAD_VALUE_2", "LOAD_VALUE_3"} -> Spc(1, "LOAD_VALUE", FALSE)
    [] n \in {"CLOSURE", "CLOSED_CLOSURE"} -> Spc(0, "CLOSURE", FALSE)       \* variable width, see Width
    \* one operand byte
    [] n \in Load8 -> Fix(2, 0, 1, FALSE)
    [] n = "SET_IVAR8" -> Fix(2, 1, 0, FALSE)
    [] n = "GET_LOCAL8" -> Spc(2, "GET_LOCAL", FALSE)
    [] n = "SET_LOCAL8" -> Spc(2, "SET_LOCAL", FALSE)
    [] n = "GET_UPVALUE8" -> Spc(2, "GET_UPVALUE", FALSE)
    [] n = "SET_UPVALUE8" -> Spc(2, "SET_UPVALUE", FALSE)
    [] n = "CLOSE_UPVALUES_TO8" -> Spc(2, "CLOSE_UPVALUES", FALSE)
    [] n = "PREP_LOCALS8" -> Spc(2, "PREP_LOCALS", FALSE)
    [] n = "LOAD_VALUE8" -> Spc(2, "LOAD_VALUE", FALSE)
    [] n = "GET_CONST8" -> Spc(2, "GET_CONST", TRUE)
    [] n \in {"CALL_METHOD8", "CALL_METHOD_TCO8", "CALL8"} -> Spc(2, "CALL", TRUE)
    [] n = "CALL_METHOD_BC8" -> Spc(2, "CALL_BC", TRUE)
    [] n = "CALL_METHOD_NT8" -> Spc(2, "CALL_NT", TRUE)
    [] n = "NEXT8" -> Spc(2, "NEXT", TRUE)
    [] n \in {"INSTANTIATE8", "NEW_ARRAY_TUPLE8", "NEW_ARRAY_LIST8", "NEW_HASH_SET8", "NEW_HASH_MAP8",
              "NEW_HASH_RECORD8", "NEW_STRING8", "NEW_SYMBOL8"} -> Spc(2, "NEW", TRUE)
    [] n = "NEW_RANGE" -> Spc(2, "NEW_RANGE", FALSE)
    [] n = "DEF_NAMESPACE" -> Spc(2, "DEF_NAMESPACE", FALSE)
    \* two operand bytes
    [] n \in {"LOAD_INT_16", "GET_IVAR16"} -> Fix(3, 0, 1, FALSE)
    [] n = "SET_IVAR16" -> Fix(3, 1, 0, FALSE)
    [] n = "GET_LOCAL16" -> Spc(3, "GET_LOCAL", FALSE)
    [] n = "SET_LOCAL16" -> Spc(3, "SET_LOCAL", FALSE)
    [] n = "BOX_LOCAL8" -> Spc(3, "BOX_LOCAL", FALSE)
    [] n = "GET_UPVALUE16" -> Spc(3, "GET_UPVALUE", FALSE)
    [] n = "SET_UPVALUE16" -> Spc(3, "SET_UPVALUE", FALSE)
    [] n = "CLOSE_UPVALUES_TO16" -> Spc(3, "CLOSE_UPVALUES", FALSE)
    [] n = "PREP_LOCALS16" -> Spc(3, "PREP_LOCALS", FALSE)
    [] n = "LOAD_VALUE16" -> Spc(3, "LOAD_VALUE", FALSE)
    [] n = "GET_CONST16" -> Spc(3, "GET_CONST", TRUE)
    [] n = "GET_IVAR_NAME16" -> Spc(3, "IVAR_NAME_GET", TRUE)
    [] n = "SET_IVAR_NAME16" -> Spc(3, "IVAR_NAME_SET", TRUE)
    [] n \in {"CALL_METHOD16", "CALL_METHOD_TCO16", "CALL16"} -> Spc(3, "CALL", TRUE)
    [] n = "CALL_METHOD_BC16" -> Spc(3, "CALL_BC", TRUE)
    [] n = "CALL_METHOD_NT16" -> Spc(3, "CALL_NT", TRUE)
    [] n = "NEXT16" -> Spc(3, "NEXT", TRUE)
    [] n \in {"INSTANTIATE16", "NEW_ARRAY_TUPLE16", "NEW_ARRAY_LIST16", "NEW_HASH_SET16", "NEW_HASH_MAP16",
              "NEW_HASH_RECORD16", "NEW_STRING16", "NEW_SYMBOL16"} -> Spc(3, "NEW", TRUE)
    [] n = "NEW_REGEX8" -> Spc(3, "NEW_REGEX", TRUE)
    [] n = "JUMP" -> Spc(3, "JUMP", FALSE)
    [] n = "LOOP" -> Spc(3, "LOOP", FALSE)
    [] n \in CondPop0 -> Spc(3, "COND0", FALSE)
    [] n \in CondPop1 -> Spc(3, "COND1", FALSE)
    [] n \in CondPop2 -> Spc(3, "COND2", n \in CondThrows)
    [] n \in {"FOR_IN", "FOR_IN_BUILTIN"} -> Spc(3, "FOR_IN", FALSE)
    \* three operand bytes
    [] n = "BOX_LOCAL16" -> Spc(4, "BOX_LOCAL", FALSE)
    [] n = "NEW_REGEX16" -> Spc(4, "NEW_REGEX", TRUE)
    [] OTHER -> Spc(0, "UNKNOWN", FALSE)       \* includes DOC_COMMENT: named by opcode.go, absent from the run loop

InfoTab == TLCEval([b \in 1..256 |-> InfoOf(OpTab[b])])   \* evaluated once
Info(p) == InfoTab[B(p) + 1]

\* CLOSURE: opcode, then upvalue descriptors (flags byte, 1- or 2-byte index; bit 0 = long index, bit 1 = local)
\* up to the terminator byte 0xff.
RECURSIVE ClosureLen(_, _, _)
ClosureLen(i, p, n) == IF p >= n THEN 0          \* no terminator: reported as truncated
                       ELSE IF Fns[i].code[p + 1] = 255 THEN 1
                       ELSE LET w == IF Fns[i].code[p + 1] % 2 = 1 THEN 3 ELSE 2
                            IN  w + ClosureLen(i, p + w, n)
WidthIn(i, p) == LET inf == InfoTab[Fns[i].code[p + 1] + 1]
                 IN  IF inf.c = "CLOSURE" THEN 1 + ClosureLen(i, p + 1, Len(Fns[i].code)) ELSE inf.w

\* Instruction boundaries: linear sweep from offset 0 (what a disassembler does).
RECURSIVE Sweep(_, _)
Sweep(i, p) == IF p >= Len(Fns[i].code) THEN {}
               ELSE LET w == WidthIn(i, p)
                    IN  IF w = 0 \/ p + w > Len(Fns[i].code) THEN {p} ELSE {p} \cup Sweep(i, p + w)

\* first offset the sweep cannot decode (unknown opcode), or -1
RECURSIVE FirstUnknown(_, _)
FirstUnknown(i, p) == IF p >= Len(Fns[i].code) THEN -1
                      ELSE LET w == WidthIn(i, p)
                           IN  IF InfoTab[Fns[i].code[p + 1] + 1].c = "UNKNOWN" THEN p
                               ELSE IF w = 0 \/ p + w > Len(Fns[i].code) THEN -1 ELSE FirstUnknown(i, p + w)

Cat(e) == F.catches[e]          \* <<from, to, jump, finally>>
NCat   == Len(F.catches)

\* The finally subroutine of catch entry e (compiler.compileDo).  The VM enters it at jump (return: NIL is
\* pushed) and at jump+4 (break/continue: UNDEFINED; thread.go jumpToFinallyForBreakOrContinue skips "NIL, JUMP,
\* off, off"); the handler code in front of it enters with TRUE (rethrow afterwards) or FALSE (a catch matched):
\*    j-8 TRUE  j-7 JUMP  j-4 FALSE  j-3 JUMP  j NIL  j+1 JUMP  j+4 UNDEFINED  j+5 body ...
\* FinLayout = j when the code has this shape (else -1: the function is reported as unverified when reached).
FinLayout(i, e) ==
  LET c == Fns[i].catches[e] j == c[3] n == Len(Fns[i].code)
      Nm(p) == OpTab[Fns[i].code[p + 1] + 1]
  IN  IF c[4] = 1 /\ j >= 8 /\ j + 4 < n /\ Nm(j - 8) = "TRUE" /\ Nm(j - 7) = "JUMP" /\ Nm(j - 4) = "FALSE"
         /\ Nm(j - 3) = "JUMP" /\ Nm(j) = "NIL" /\ Nm(j + 1) = "JUMP" /\ Nm(j + 4) = "UNDEFINED"
      THEN j ELSE -1

-----------------------------------------------------------------------------
(* Static well-formedness of one function (checked once, in its initial state). *)
SeqSet(s) == {s[k] : k \in 1..Len(s)}
DisasmOK(i, b)  == Fns[i].diserr = "" /\ SeqSet(Fns[i].disoff) = b
\* A range with from = to covers no instruction (ip > from /\ ip <= to is unsatisfiable): the compiler uses
\* such an entry (-1, -1, body) to record where a generator's body starts (vm/generator.go reset); only its
\* jump address has to be an instruction boundary.
CatchesOK(i, b) == \A e \in 1..Len(Fns[i].catches) :
                      LET c == Fns[i].catches[e]
                      IN  c[3] \in b /\ (c[1] = c[2] \/ (c[1] \in b /\ c[2] \in b /\ c[1] < c[2]))
\* the instruction after which the real disassembler and this table part ways (-1: they agree)
Diverges(i, b) == LET D == SeqSet(Fns[i].disoff)
                      bad == (D \ b) \cup (b \ D)
                  IN  IF bad = {} THEN -1
                      ELSE LET m == CHOOSE x \in bad : \A y \in bad : x <= y
                               common == {p \in b \cap D : p < m}
                           IN  IF common = {} THEN 0 ELSE CHOOSE x \in common : \A y \in common : x >= y
Static(i, b) == [f |-> i, k |-> "static", dis |-> DisasmOK(i, b), cat |-> CatchesOK(i, b), unk |-> FirstUnknown(i, 0),
                 diserr |-> Fns[i].diserr, div |-> Diverges(i, b)]

-----------------------------------------------------------------------------
(* Outcomes of one step.                                                   *)
Out(p, s)  == [pc |-> p, stk |-> s, nl |-> nloc, end |-> FALSE, err |-> "", unv |-> ""]
OutL(p, s, l) == [Out(p, s) EXCEPT !.nl = l]
EndOK      == [Out(pc, stk) EXCEPT !.end = TRUE]
Bad(k)     == [Out(pc, stk) EXCEPT !.end = TRUE, !.err = k]
Unv(k)     == [Out(pc, stk) EXCEPT !.end = TRUE, !.unv = k]

Depth     == Len(stk)
Pop(s, n) == SubSeq(s, 1, Len(s) - n)
Top       == stk[Depth]
Second    == stk[Depth - 1]
Enough(n) == Depth - n >= nloc          \* n operands are there, above the local slots

NV == Len(F.vkind)
VKind(k) == F.vkind[k + 1]
VArg(k)  == F.varg[k + 1]

Min(S) == CHOOSE x \in S : \A y \in S : x <= y
FirstCatch(ip, fin) ==
  LET S == {e \in 1..NCat : Cat(e)[4] = fin /\ Cat(e)[1] < ip /\ ip <= Cat(e)[2]}   \* thread.go rethrow / findFinallyCatchEntry
  IN  IF S = {} THEN 0 ELSE Min(S)
MarkOf(e) == LET S == {k \in 1..Len(marks) : marks[k][1] = e} IN IF S = {} THEN -1 ELSE marks[Min(S)][2]

\* exception edge of the instruction at pc (width w); resid = operands the REAL VM leaves behind
Throw(w, resid) ==
  LET e == FirstCatch(pc + w, 0) IN
  IF e = 0 THEN {EndOK}
  ELSE IF "CatchKeepsOperands" \in Deviations
       THEN {Out(Cat(e)[3], r \o <<X, X>>) : r \in resid}            \* deviation: rethrow pushes on top of whatever is there
       ELSE LET b == MarkOf(e) IN
            IF b < 0 THEN {Bad("protected_range_entered_midway")}
            ELSE IF b > Depth THEN {Bad("operands_below_catch_base")}
            ELSE {Out(Cat(e)[3], SubSeq(stk, 1, b) \o <<X, X>>)}     \* reference: unwind to the depth at range entry

\* fixed effect + fall through, plus the exception edge if the instruction can throw
Eff(w, pop, pushed, throws) ==
  IF ~Enough(pop) THEN {Bad("operand_underflow")}
  ELSE {Out(pc + w, Pop(stk, pop) \o pushed)} \cup (IF throws THEN Throw(w, {Pop(stk, pop)}) ELSE {})

ConstAV(n) == CASE n = "TRUE" -> AV("t", 0, 0) [] n = "FALSE" -> AV("f", 0, 0) [] n = "NIL" -> AV("n", 0, 0)
                [] OTHER -> AV("u", 0, 0)
SmallAV(n) == CASE n = "INT_0" -> AV("i", 0, 0) [] n = "INT_1" -> AV("i", 1, 0) [] n = "INT_2" -> AV("i", 2, 0)
                [] n = "INT_3" -> AV("i", 3, 0) [] n = "INT_4" -> AV("i", 4, 0) [] n = "INT_5" -> AV("i", 5, 0)
                [] n = "LOAD_INT_8" -> IF B(pc + 1) < 128 THEN AV("i", B(pc + 1), 0) ELSE X
                [] OTHER -> X

\* operand of the short (in the opcode) / 8 bit / 16 bit forms
ShortOperand(n) == CASE n \in {"LOAD_VALUE_0", "GET_UPVALUE_0", "SET_UPVALUE_0"} -> 0
                     [] n \in {"LOAD_VALUE_1", "GET_UPVALUE_1", "SET_UPVALUE_1", "GET_LOCAL_1", "SET_LOCAL_1"} -> 1
                     [] n \in {"LOAD_VALUE_2", "GET_LOCAL_2", "SET_LOCAL_2"} -> 2
                     [] n \in {"LOAD_VALUE_3", "GET_LOCAL_3", "SET_LOCAL_3"} -> 3
                     [] OTHER -> 4                                   \* GET_LOCAL_4, SET_LOCAL_4
Operand(n, w) == IF w = 1 THEN ShortOperand(n) ELSE IF w = 2 THEN B(pc + 1) ELSE U16(pc + 1)

JumpSet(n, v) ==   \* which ways a no-pop conditional jump can go given the abstract top of stack: subset of {"jump","fall"}
  LET c == FlagCode(v) IN
  CASE n = "JUMP_UNLESS_UNP" -> IF c = 0 THEN {"jump", "fall"} ELSE IF c = 4 THEN {"fall"} ELSE {"jump"}
    [] n = "JUMP_IF_NP"      -> IF c \in {1, 5} THEN {"jump"} ELSE IF c \in {2, 3} THEN {"fall"} ELSE {"jump", "fall"}
    [] n = "JUMP_UNLESS_NP"  -> IF c \in {2, 3} THEN {"jump"} ELSE IF c \in {1, 5} THEN {"fall"} ELSE {"jump", "fall"}
    [] n = "JUMP_IF_NIL_NP"  -> IF c = 3 THEN {"jump"} ELSE IF c \in {1, 2, 5} THEN {"fall"} ELSE {"jump", "fall"}
    [] n = "JUMP_UNLESS_NNP" -> IF c = 3 THEN {"fall"} ELSE IF c \in {1, 2, 5} THEN {"jump"} ELSE {"jump", "fall"}
    [] OTHER -> {"jump", "fall"}

NewPops(n, k) == CASE n \in {"INSTANTIATE8", "INSTANTIATE16", "NEW_ARRAY_TUPLE8", "NEW_ARRAY_TUPLE16"} -> k + 1
                   [] n \in {"NEW_ARRAY_LIST8", "NEW_ARRAY_LIST16", "NEW_HASH_SET8", "NEW_HASH_SET16"} -> k + 2
                   [] n \in {"NEW_HASH_MAP8", "NEW_HASH_MAP16"} -> 2 * k + 2
                   [] n \in {"NEW_HASH_RECORD8", "NEW_HASH_RECORD16"} -> 2 * k + 1
                   [] OTHER -> k                                     \* NEW_STRING, NEW_SYMBOL

\* number of upvalue descriptors of the CLOSURE at pc
RECURSIVE ClosureDescs(_)
ClosureDescs(p) == IF p >= Len(F.code) \/ B(p) = 255 THEN <<>>
                   ELSE IF B(p) % 2 = 1 THEN <<<<B(p), U16(p + 1)>>>> \o ClosureDescs(p + 3)
                   ELSE <<<<B(p), B(p + 1)>>>> \o ClosureDescs(p + 2)

FlagEntryAt(p) == LET S == {e \in 1..NCat : finb[e] >= 0 /\ p \in {finb[e] - 8, finb[e] - 4, finb[e], finb[e] + 4}}
                  IN  IF S = {} THEN 0 ELSE Min(S)
UnknownFinally(p) == \E e \in 1..NCat : Cat(e)[4] = 1 /\ finb[e] < 0 /\ p \in {Cat(e)[3], Cat(e)[3] + 4}

Succ ==
  LET inf == Info(pc)
      n   == Name(pc)
      w   == WidthIn(fi, pc)
      c   == inf.c
  IN
  IF c = "UNKNOWN" THEN {Unv("unknown_opcode")}
  ELSE IF w = 0 \/ pc + w > Len(F.code) THEN {Bad("truncated_instruction")}
  ELSE
  CASE c = "fix" -> Eff(w, inf.pop, IF inf.push = 1 /\ inf.pop = 0 THEN <<SmallAV(n)>> ELSE Xs(inf.push), inf.t)
    [] c = "const" -> LET e == IF NCat = 0 THEN 0 ELSE FlagEntryAt(pc) IN      \* mode flag of a finally activation?
                      IF e # 0 /\ \E k \in 1..Depth : stk[k].k = "F" /\ stk[k].a = e
                      THEN {Bad("stale_finally_activation")}   \* the flag of an earlier activation of the same finally block was
                                                               \* left on the stack (a jump out of the block): operands leak
                      ELSE Eff(1, 0, <<IF e = 0 THEN ConstAV(n) ELSE AV("F", e, FlagCode(ConstAV(n)))>>, FALSE)
    [] c = "DUP" -> IF ~Enough(1) THEN {Bad("operand_underflow")} ELSE {Out(pc + 1, stk \o <<Top>>)}
    [] c = "DUP_2" -> IF ~Enough(2) THEN {Bad("operand_underflow")} ELSE {Out(pc + 1, stk \o <<Second, Top>>)}
    [] c = "DUP_SECOND" -> IF ~Enough(2) THEN {Bad("operand_underflow")} ELSE {Out(pc + 1, stk \o <<Second>>)}
    [] c = "SWAP" -> IF ~Enough(2) THEN {Bad("operand_underflow")} ELSE {Out(pc + 1, Pop(stk, 2) \o <<Top, Second>>)}
    [] c = "POP_SKIP_ONE" -> IF ~Enough(2) THEN {Bad("operand_underflow")} ELSE {Out(pc + 1, Pop(stk, 2) \o <<Top>>)}
    [] c = "POP_2_SKIP_ONE" -> IF ~Enough(3) THEN {Bad("operand_underflow")} ELSE {Out(pc + 1, Pop(stk, 3) \o <<Top>>)}
    [] c = "RETURN" -> IF ~Enough(1) THEN {Bad("operand_underflow")} ELSE {EndOK}
    [] c \in {"RETURN_SELF", "RETURN_FIRST_ARG"} -> IF c = "RETURN_FIRST_ARG" /\ nloc < 2 THEN {Bad("local_index")} ELSE {EndOK}
    [] c = "RETURN_FINALLY" ->
         IF ~Enough(1) THEN {Bad("operand_underflow")}
         ELSE LET e == FirstCatch(pc + 1, 1) IN IF e = 0 THEN {EndOK} ELSE {Out(Cat(e)[3], stk)}
    [] c = "JUMP_TO_FINALLY" ->
         IF ~Enough(2) THEN {Bad("operand_underflow")}
         ELSE IF Top.k # "i" \/ Second.k # "i" THEN {Unv("jump_to_finally_operands_unknown")}
         ELSE IF Top.a > 0
              THEN LET e == FirstCatch(pc + 1, 1) IN
                   IF e = 0 THEN {Bad("jump_to_finally_without_finally")}
                   ELSE {Out(Cat(e)[3] + 4, Pop(stk, 1) \o <<AV("i", Top.a - 1, 0)>>)}
              ELSE {Out(Second.a, Pop(stk, 2))}
    [] c = "GENERATOR" -> {Out(pc + 1, stk \o <<X>>), Out(pc + 2, stk)}    \* creator goes on (to RETURN); the body starts at ip+1
    [] c = "PROMISE" -> IF ~Enough(1) THEN {Bad("operand_underflow")}
                        ELSE {Out(pc + 1, Pop(stk, 1) \o <<X>>), Out(pc + 2, Pop(stk, 1))}
    [] c = "AWAIT" -> IF ~Enough(1) THEN {Bad("operand_underflow")}
                      ELSE {Out(pc + 1, stk), Out(pc + 2, Pop(stk, 1) \o <<X>>)} \cup Throw(1, {Pop(stk, 1)})
    [] c = "THROW" -> IF ~Enough(1) THEN {Bad("operand_underflow")} ELSE Throw(1, {Pop(stk, 1)})
    [] c = "RETHROW" -> IF ~Enough(2) THEN {Bad("operand_underflow")} ELSE Throw(1, {Pop(stk, 2)})
    [] c = "SELECT" ->
         IF ~Enough(1) THEN {Bad("operand_underflow")}
         ELSE IF Top.k # "c" THEN {Unv("select_operand_unknown")}
         ELSE IF VKind(Top.a) # "select" THEN {Bad("constant_kind")}
         ELSE Eff(1, 1 + VArg(Top.a), <<X, X>>, TRUE)
    [] c = "GET_LOCAL" -> IF Operand(n, w) >= nloc THEN {Bad("local_index")} ELSE Eff(w, 0, <<X>>, FALSE)
    [] c = "SET_LOCAL" -> IF Operand(n, w) >= nloc THEN {Bad("local_index")} ELSE Eff(w, 1, <<>>, FALSE)
    [] c = "BOX_LOCAL" -> IF (IF w = 3 THEN B(pc + 1) ELSE U16(pc + 1)) >= nloc THEN {Bad("local_index")}
                          ELSE Eff(w, 0, <<X>>, FALSE)
    [] c = "GET_UPVALUE" -> IF Operand(n, w) >= F.nup THEN {Bad("upvalue_index")} ELSE Eff(w, 0, <<X>>, FALSE)
    [] c = "SET_UPVALUE" -> IF Operand(n, w) >= F.nup THEN {Bad("upvalue_index")} ELSE Eff(w, 1, <<>>, FALSE)
    [] c = "CLOSE_UPVALUES" -> IF Operand(n, w) > Depth THEN {Bad("local_index")} ELSE Eff(w, 0, <<>>, FALSE)
    [] c = "PREP_LOCALS" -> IF Depth # nloc THEN {Bad("prep_locals_with_operands")}
                            ELSE {OutL(pc + w, stk \o Xs(Operand(n, w)), nloc + Operand(n, w))}
    [] c = "LOAD_VALUE" ->
         LET k == Operand(n, w) IN
         IF k >= NV THEN {Bad("constant_index")}
         ELSE Eff(w, 0, <<CASE VKind(k) = "int" /\ VArg(k) >= 0 -> AV("i", VArg(k), 0)
                            [] VKind(k) \in {"function", "select"} -> AV("c", k, 0)
                            [] OTHER -> X>>, FALSE)
    [] c \in {"GET_CONST", "IVAR_NAME_GET", "IVAR_NAME_SET"} ->
         LET k == Operand(n, w) IN
         IF k >= NV THEN {Bad("constant_index")}
         ELSE IF VKind(k) # "symbol" THEN {Bad("constant_kind")}
         ELSE IF c = "IVAR_NAME_SET" THEN Eff(w, 1, <<>>, TRUE) ELSE Eff(w, 0, <<X>>, TRUE)
    [] c \in {"CALL", "CALL_BC", "CALL_NT", "NEXT"} ->
         LET k == Operand(n, w)
             want == CASE c = "CALL_BC" -> "bc_callsite" [] c = "CALL_NT" -> "nt_callsite" [] OTHER -> "callsite"
         IN
         IF k >= NV THEN {Bad("callsite_index")}
         ELSE IF VKind(k) # want THEN {Bad("constant_kind")}       \* the VM casts Values[k].Pointer() unchecked
         ELSE IF c = "NEXT" THEN Eff(w, 1, <<X>>, TRUE)
         ELSE IF ~Enough(VArg(k) + 1) THEN {Bad("operand_underflow")}
         ELSE {Out(pc + w, Pop(stk, VArg(k) + 1) \o <<X>>)}
              \cup Throw(w, (IF c # "CALL_NT" THEN {Pop(stk, VArg(k))} ELSE {})               \* bytecode callee: its frame collapses into one slot
                            \cup (IF c # "CALL_BC" THEN {Pop(stk, VArg(k) + 1)} ELSE {}))       \* native callee: arguments popped
    [] c = "NEW" -> Eff(w, NewPops(n, Operand(n, w)), <<X>>, TRUE)
    [] c = "NEW_REGEX" -> Eff(w, IF w = 3 THEN B(pc + 2) ELSE U16(pc + 2), <<X>>, TRUE)
    [] c = "NEW_RANGE" -> IF B(pc + 1) > 7 THEN {Bad("operand_value")}
                          ELSE Eff(2, IF B(pc + 1) <= 3 THEN 2 ELSE 1, <<X>>, FALSE)
    [] c = "DEF_NAMESPACE" -> IF B(pc + 1) > 3 THEN {Bad("operand_value")} ELSE Eff(2, 2, <<>>, FALSE)
    [] c = "CLOSURE" ->
         IF ~Enough(1) THEN {Bad("operand_underflow")}
         ELSE IF Top.k # "c" THEN {Unv("closure_operand_unknown")}
         ELSE IF VKind(Top.a) # "function" THEN {Bad("constant_kind")}
         ELSE LET ds == ClosureDescs(pc + 1) IN
              IF Len(ds) # VArg(Top.a) THEN {Bad("closure_upvalue_count")}    \* closure.Upvalues is sized by the function's UpvalueCount
              ELSE IF \E i \in 1..Len(ds) : IF (ds[i][1] \div 2) % 2 = 1 THEN ds[i][2] >= nloc ELSE ds[i][2] >= F.nup
                   THEN {Bad("closure_capture_index")}
              ELSE {Out(pc + w, Pop(stk, 1) \o <<X>>)}
    [] c = "JUMP" -> {Out(pc + 3 + U16(pc + 1), stk)}
    [] c = "LOOP" -> IF U16(pc + 1) > pc + 3 THEN {Bad("jump_out_of_function")} ELSE {Out(pc + 3 - U16(pc + 1), stk)}
    [] c = "COND0" -> IF ~Enough(1) THEN {Bad("operand_underflow")}
                      ELSE {Out(pc + 3 + U16(pc + 1), stk) : x \in JumpSet(n, Top) \cap {"jump"}}
                           \cup {Out(pc + 3, stk) : x \in JumpSet(n, Top) \cap {"fall"}}
    [] c = "COND1" -> IF ~Enough(1) THEN {Bad("operand_underflow")}
                      ELSE {Out(pc + 3 + U16(pc + 1), Pop(stk, 1)), Out(pc + 3, Pop(stk, 1))}
    [] c = "COND2" -> IF ~Enough(2) THEN {Bad("operand_underflow")}
                      ELSE {Out(pc + 3 + U16(pc + 1), Pop(stk, 2)), Out(pc + 3, Pop(stk, 2))}
                           \cup (IF inf.t THEN Throw(3, {Pop(stk, 2)}) ELSE {})
    [] c = "FOR_IN" -> IF ~Enough(1) THEN {Bad("operand_underflow")}
                       ELSE {Out(pc + 3 + U16(pc + 1), Pop(stk, 1)), Out(pc + 3, Pop(stk, 1) \o <<X>>)}
                            \cup (IF n = "FOR_IN_BUILTIN" THEN Throw(3, {stk}) ELSE {})
    [] OTHER -> {Unv("unhandled_class")}

-----------------------------------------------------------------------------
(* Post-processing of an outcome: target on a boundary, finally-activation  *)
(* flag tagging, protected-range marks, depth bound.                        *)
KeepMark(m, p) == Fns[fi].catches[m[1]][1] <= p /\ p < Fns[fi].catches[m[1]][2]
RECURSIVE Kept(_, _)
Kept(ms, p) == IF ms = <<>> THEN <<>>
               ELSE IF KeepMark(Head(ms), p) THEN <<Head(ms)>> \o Kept(Tail(ms), p) ELSE Kept(Tail(ms), p)
RECURSIVE Entered(_, _, _, _)
Entered(e, ms, p, d) == IF e > NCat THEN <<>>
                        ELSE IF Cat(e)[1] = p /\ Cat(e)[1] < Cat(e)[2] /\ ~\E k \in 1..Len(ms) : ms[k][1] = e
                             THEN <<<<e, d>>>> \o Entered(e + 1, ms, p, d) ELSE Entered(e + 1, ms, p, d)
NewMarks(p, d) == IF NCat = 0 THEN <<>> ELSE LET k == Kept(marks, p) IN k \o Entered(1, k, p, d)

Finish(o) ==
  IF o.end THEN o
  ELSE IF o.pc \notin bnd THEN [o EXCEPT !.end = TRUE, !.err = IF o.pc >= Len(F.code) THEN "target_outside_function" ELSE "target_off_instruction_boundary"]
  ELSE IF Len(o.stk) > o.nl + MaxDepth THEN [o EXCEPT !.end = TRUE, !.unv = "depth_bound"]
  ELSE IF NCat > 0 /\ UnknownFinally(o.pc) THEN [o EXCEPT !.end = TRUE, !.unv = "finally_layout_not_recognised"]
  ELSE o

Rec(o) == [f |-> fi, k |-> "step", p |-> pc, q |-> o.pc, d |-> Len(o.stk), m |-> Mode(o.stk), nl |-> o.nl,
           end |-> o.end, err |-> o.err, unv |-> o.unv, op |-> Name(pc)]

RECURSIVE InitMarks(_, _)
InitMarks(i, e) == IF e > Len(Fns[i].catches) THEN <<>>
                   ELSE IF Fns[i].catches[e][1] = 0 /\ Fns[i].catches[e][2] > 0
                        THEN <<<<e, 1 + Fns[i].nparams>>>> \o InitMarks(i, e + 1) ELSE InitMarks(i, e + 1)

Init == \E i \in 1..Len(Fns) :
          /\ fi = i /\ pc = 0 /\ from = -1
          /\ stk = Xs(1 + Fns[i].nparams) /\ nloc = 1 + Fns[i].nparams
          /\ marks = InitMarks(i, 1)
          /\ end = (Len(Fns[i].code) = 0) /\ err = "" /\ unv = ""
          /\ bnd = Sweep(i, 0)
          /\ finb = [e \in 1..Len(Fns[i].catches) |-> FinLayout(i, e)]
          /\ (Phase = "explore" => PrintT(<<"GEN", ToJson(Static(i, bnd))>>))

Next == /\ ~end
        /\ \E o0 \in Succ :
             LET o == Finish(o0) IN
             /\ pc' = o.pc /\ stk' = o.stk /\ nloc' = o.nl /\ end' = o.end /\ err' = o.err /\ unv' = o.unv
             /\ marks' = IF o.end THEN marks ELSE NewMarks(o.pc, Len(o.stk))
             /\ from' = pc /\ fi' = fi /\ bnd' = bnd /\ finb' = finb
             /\ (Phase = "explore" => PrintT(<<"GEN", ToJson(Rec(o))>>))

Spec == Init /\ [][Next]_vars

-----------------------------------------------------------------------------
(* The property (phase "verify").                                          *)
NoStructuralError == err = ""
OnBoundary        == pc \in bnd
DepthCertified    == ~end => LET k == Key(pc, stk) IN k \in DOMAIN Cert[fi] /\ Cert[fi][k] = Len(stk)
DisasmAgrees      == from = -1 => DisasmOK(fi, bnd)
CatchRangesOnBoundaries == from = -1 => CatchesOK(fi, bnd)
Verified          == unv = ""       \* verify runs only contain functions the explore phase could decide
=============================================================================
