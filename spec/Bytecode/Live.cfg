CONSTANTS
  Phase = "cancel"
  Deviations <- MCDeviations
  MaxDepth <- MCMaxDepth
SPECIFICATION SpecC
INVARIANT NoCheckpointFreeCycle
PROPERTY EventuallyCheckpoint
CHECK_DEADLOCK FALSE
