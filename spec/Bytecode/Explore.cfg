CONSTANTS
  Phase = "explore"
  Deviations <- MCDeviations
  MaxDepth <- MCMaxDepth
INIT Init
NEXT Next
VIEW View
CHECK_DEADLOCK FALSE
