CONSTANTS
  Phase = "verify"
  Deviations <- MCDeviations
  MaxDepth <- MCMaxDepth
INIT Init
NEXT Next
VIEW View
INVARIANTS NoStructuralError OnBoundary DepthCertified DisasmAgrees CatchRangesOnBoundaries Verified
CHECK_DEADLOCK FALSE
