------------------------------ MODULE Hygiene ------------------------------
(***************************************************************************)
(* Macro hygiene of Elk (property C31).                                    *)
(*                                                                         *)
(* A program of the instance is one call site (a function whose locals     *)
(* collide with the names used by the macros) and one or two macros with   *)
(* quoted bodies of a few statements that bind, read and write locals,     *)
(* splice the caller's argument expression, and use `unhygienic`.          *)
(*                                                                         *)
(* The specification runs TWO machines in lock step over the expansion:    *)
(*                                                                         *)
(*   ref   the reference of the property statement: the expansion written  *)
(*         by hand with the macro's locals consistently renamed - a name   *)
(*         written in the quote denotes the macro's own local or nothing;  *)
(*         a name that came from the caller (unquoted argument) denotes    *)
(*         the CALLER's local, and only inside an `unhygienic` splice;     *)
(*   impl  the scope chain of types/checker/local.go: frames, a            *)
(*         macroBoundary frame per expansion, and resolveLocal's walk with *)
(*         the `unhygienic` flag.  Every place where that walk (or the     *)
(*         compiled code) is known to differ from the reference is a NAMED *)
(*         branch guarded by the constant Deviations; with Deviations = {} *)
(*         impl and ref coincide (invariant ImplIsRefWithoutDeviations).   *)
(*                                                                         *)
(* One action per statement of the expansion (plus prologue, boundary push *)
(* / pop, epilogue).  The terminal action emits a GEN record with the      *)
(* program and both predicted observations (verdict of the checker and the *)
(* printed lines); the harness runs the macro program AND the hand-written *)
(* renamed expansion through the real checker + VM and compares.           *)
(***************************************************************************)
EXTENDS Integers, Sequences, FiniteSets, TLC, Json

CONSTANTS
  MaxLen,        \* all macro bodies of 1..MaxLen statements over Alphabet are enumerated
  ExtraBodies,   \* further bodies (sequences of Alphabet indices), e.g. a sample of longer ones
  Pairs,         \* programs with two macro calls in a row: set of <<body1, body2>>
  Deviations     \* names of KNOWN deviations of the implementation the impl machine reproduces

(* statements of a quoted macro body.  n is the name; "macro" origin = the   *)
(* identifier is written in the quote, "caller" origin = it arrives through  *)
(* the unquoted argument `e` (the call is always m!(x): the argument is the  *)
(* caller's expression `x`).                                                 *)
Alphabet == <<
  [k |-> "bind",     n |-> "x"],    \*  x := K
  [k |-> "bind",     n |-> "y"],
  [k |-> "read",     n |-> "x"],    \*  o(x)
  [k |-> "read",     n |-> "y"],
  [k |-> "write",    n |-> "x"],    \*  x = K
  [k |-> "write",    n |-> "y"],
  [k |-> "uread",    n |-> "x"],    \*  o(!{unhygienic(quote x)})
  [k |-> "uread",    n |-> "y"],
  [k |-> "uwrite_e", n |-> "x"],    \*  o(!{unhygienic(quote x = K)})
  [k |-> "uwrite_s", n |-> "x"],    \*  !{unhygienic(quote x = K)}      (statement position)
  [k |-> "arg",      n |-> "x"],    \*  o(!{e})
  [k |-> "uarg",     n |-> "x"],    \*  o(!{unhygienic(e)})
  [k |-> "cwrite",   n |-> "x"],    \*  if c then x = K else x = K end  (write inside a conditional)
  [k |-> "mcall",    n |-> "hh"],   \*  o(hh())                       a receiverless call written in the quote: the
                                    \*  METHOD hh (prints 3), never a callable local `hh` of the call site (7)
  [k |-> "umcall",   n |-> "hh"]    \*  o(!{unhygienic(quote hh())})  explicitly unhygienic: the caller's local if any
>>

(* call sites: what the colliding names are where the macro is called *)
XStates == {"absent", "local", "param", "captured", "inclosure", "uninit"}
YStates == {"absent", "local", "probe", "callable"}   \* probe: y is not declared, the site reads it AFTER the call;
                                                      \* callable: no y, but a callable local hh := || -> 7
HasCall(calls) == \E c \in 1..Len(calls) : \E j \in 1..Len(calls[c]) : Alphabet[calls[c][j]].k \in {"mcall", "umcall"}

Bodies == UNION {[1..n -> 1..Len(Alphabet)] : n \in 1..MaxLen} \cup ExtraBodies

-----------------------------------------------------------------------------
(* A machine: scope chain + heap + output + verdict *)
Cell(v)  == [init |-> TRUE, v |-> v]
Uninit   == [init |-> FALSE, v |-> 0]
Frame(kind, vars) == [kind |-> kind, vars |-> vars]     \* vars: sequence of <<name, cell index>>

FindIn(fr, n) == IF \E i \in 1..Len(fr.vars) : fr.vars[i][1] = n
                 THEN fr.vars[CHOOSE i \in 1..Len(fr.vars) : fr.vars[i][1] = n][2] ELSE 0

(* resolveLocal: walk from frame i outwards; a macroBoundary frame stops a hygienic walk *)
RECURSIVE Walk(_, _, _, _)
Walk(frames, i, n, unhygienic) ==
  IF i = 0 THEN 0
  ELSE LET c == FindIn(frames[i], n) IN
       IF c # 0 THEN c
       ELSE IF frames[i].kind = "boundary" /\ ~unhygienic THEN 0
       ELSE Walk(frames, i - 1, n, unhygienic)

(* index of the innermost boundary frame *)
BoundaryIdx(frames) == CHOOSE i \in 1..Len(frames) :
                          frames[i].kind = "boundary" /\ \A j \in (i + 1)..Len(frames) : frames[j].kind # "boundary"

(* any uninitialised local anywhere in the chain, boundaries ignored (uninitialisedLocals()) *)
UninitAnywhere(m, n) ==
  LET hits == {i \in 1..Len(m.frames) : FindIn(m.frames[i], n) # 0 /\ ~m.cells[FindIn(m.frames[i], n)].init} IN
  IF hits = {} THEN 0 ELSE FindIn(m.frames[CHOOSE i \in hits : \A j \in hits : j <= i], n)

(* Which cell does an identifier occurrence denote?  0 = undefined local (checker failure). *)
Resolve(m, n, origin, unhygienic, conditional, devs) ==
  LET top == Len(m.frames) IN
  IF conditional /\ "uninit_local_leaks_into_conditional" \in devs /\ UninitAnywhere(m, n) # 0
  THEN UninitAnywhere(m, n)        \* DEVIATION: pushConditionalLocalEnv copies the uninitialised locals of
                                   \* EVERY enclosing environment, across the macro boundary
  ELSE IF origin = "macro" \/ "origin_blind_resolution" \in devs
  THEN Walk(m.frames, top, n, unhygienic)      \* DEVIATION for caller-origin names: nearest frame first,
                                               \* so the macro's own locals capture the caller's identifiers
  ELSE IF unhygienic THEN Walk(m.frames, BoundaryIdx(m.frames) - 1, n, TRUE)   \* the caller's scope
  ELSE 0                                       \* a caller identifier spliced hygienically sees nothing

Reject(m) == [m EXCEPT !.verdict = "rejected"]
Emit(m, v) == [m EXCEPT !.out = Append(@, v)]

ReadCell(m, c) == IF c = 0 \/ ~m.cells[c].init THEN Reject(m) ELSE Emit(m, m.cells[c].v)
WriteCell(m, c, v) == IF c = 0 THEN Reject(m) ELSE [m EXCEPT !.cells[c] = Cell(v)]

(* bookkeeping for the binding: what the occurrence denotes ("own" = a local of the running     *)
(* expansion, "caller" = a variable of the call site, "undef"), and which deviation decided it  *)
Owner(m, c) == IF c = 0 THEN "undef"
               ELSE IF \E i \in 1..Len(m.frames[Len(m.frames)].vars) : m.frames[Len(m.frames)].vars[i][2] = c
               THEN "own" ELSE "caller"
Blame(m, n, origin, unhygienic, conditional, devs) ==
  IF Resolve(m, n, origin, unhygienic, conditional, devs) = Resolve(m, n, origin, unhygienic, conditional, {}) THEN {}
  ELSE IF conditional /\ "uninit_local_leaks_into_conditional" \in devs /\ UninitAnywhere(m, n) # 0
  THEN {"uninit_local_leaks_into_conditional"} ELSE {"origin_blind_resolution"}
Note(m, n, origin, unhygienic, conditional, devs) ==
  [m EXCEPT !.res = Append(@, Owner(m, Resolve(m, n, origin, unhygienic, conditional, devs))),
            !.fired = @ \cup Blame(m, n, origin, unhygienic, conditional, devs)]

(* value written by statement number i of macro number mi *)
K(mi, i) == 100 * mi + 10 * i

Exec(m0, s, mi, i, devs) ==
  LET top == Len(m0.frames)
      origin == IF s.k \in {"arg", "uarg"} THEN "caller" ELSE "macro"
      unhyg  == s.k \in {"uread", "uwrite_e", "uwrite_s", "uarg", "umcall"}
      cond   == s.k = "cwrite"
      c      == Resolve(m0, s.n, origin, unhyg, cond, devs)
      m      == IF s.k = "bind" THEN [m0 EXCEPT !.res = Append(@, "own")]
                ELSE Note(m0, s.n, origin, unhyg, cond, devs) IN
  CASE s.k = "bind" ->
         LET b == FindIn(m.frames[top], s.n) IN
         IF b # 0 THEN [m EXCEPT !.cells[b] = Cell(K(mi, i))]      \* `:=` on a local of this scope assigns
         ELSE [m EXCEPT !.cells = Append(@, Cell(K(mi, i))),
                        !.frames[top].vars = Append(@, <<s.n, Len(m.cells) + 1>>)]
    [] s.k \in {"read", "uread", "arg", "uarg"} -> ReadCell(m, c)
    [] s.k \in {"mcall", "umcall"} -> IF c = 0 THEN Emit(m, 3) ELSE ReadCell(m, c)   \* no visible callable local: the method
    [] s.k = "write" -> WriteCell(m, c, K(mi, i) + 5)
    [] s.k = "cwrite" ->
         LET cc == UninitAnywhere(m, s.n)             \* what the checker believes is assigned
             cr == Walk(m.frames, top, s.n, TRUE) IN  \* what the compiled code assigns: plain lexical scoping
         IF "uninit_local_leaks_into_conditional" \in devs /\ cc # 0 /\ cc # cr
         THEN [m EXCEPT !.cells[cr] = Cell(K(mi, i) + 5),       \* DEVIATION (second half): the expansion has its
                        !.cells[cc] = [init |-> TRUE, v |-> 0], \* own local of that name: it is written, while the
                        !.fuzzy = TRUE]                         \* caller's variable only COUNTS as initialised
         ELSE WriteCell(m, c, K(mi, i) + 5)
    [] s.k = "uwrite_e" -> IF c = 0 THEN Reject(m) ELSE Emit(WriteCell(m, c, K(mi, i) + 5), K(mi, i) + 5)
    [] s.k = "uwrite_s" -> IF "unhygienic_statement_stack_imbalance" \in devs /\ c # 0
                           THEN [WriteCell(m, c, K(mi, i) + 5) EXCEPT   \* DEVIATION: the compiled splice leaves no
                                   !.corrupt = TRUE,                    \* value but the statement pops one: a live
                                   !.fired = @ \cup {"unhygienic_statement_stack_imbalance"}]   \* local is lost
                           ELSE WriteCell(m, c, K(mi, i) + 5)

-----------------------------------------------------------------------------
(* The call site *)
SiteMachine(site) ==
  LET xs == IF site.x = "absent" THEN <<>> ELSE <<<<"x", 1>>>>
      cx == IF site.x = "absent" THEN <<>> ELSE IF site.x = "uninit" THEN <<Uninit>> ELSE <<Cell(1)>>
      ys == IF site.y = "local" THEN <<<<"y", Len(cx) + 1>>>> ELSE IF site.y = "callable" THEN <<<<"hh", Len(cx) + 1>>>> ELSE <<>>
      cy == IF site.y = "local" THEN <<Cell(2)>> ELSE IF site.y = "callable" THEN <<Cell(7)>> ELSE <<>>
      fn == Frame("fn", xs \o ys)
  IN [frames  |-> IF site.x = "inclosure" THEN <<fn, Frame("closure", <<>>)>> ELSE <<fn>>,
      cells   |-> cx \o cy, out |-> <<>>, verdict |-> "ok", corrupt |-> FALSE, fuzzy |-> FALSE, fired |-> {}, res |-> <<>>]

PushBoundary(m) == [m EXCEPT !.frames = Append(@, Frame("boundary", <<>>))]
PopBoundary(m)  == [m EXCEPT !.frames = SubSeq(@, 1, Len(@) - 1)]

(* code of the call site after the call(s): plain lexical reads *)
SiteRead(m, n) == ReadCell(m, Walk(m.frames, Len(m.frames), n, FALSE))
Epilogue(m, site) ==
  LET a == IF site.x \in {"local", "param", "inclosure"} THEN SiteRead(m, "x")
           ELSE IF site.x = "captured" THEN SiteRead(SiteRead(m, "x"), "x")   \* o(x); o(g.())
           ELSE m
  IN IF site.y \in {"local", "probe"} THEN SiteRead(a, "y")
     ELSE IF site.y = "callable" THEN SiteRead(a, "hh")       \* o(hh()) at the site: the local
     ELSE a

-----------------------------------------------------------------------------
VARIABLES prog,    \* [site, calls]: calls = sequence of macro bodies (sequences of Alphabet indices)
          pc,      \* "prologue" | "expand" | "epilogue" | "done"
          mi, si,  \* current macro call, current statement
          impl, ref

vars == <<prog, pc, mi, si, impl, ref>>

Init == /\ prog \in [site : [x : XStates, y : YStates], calls : {<<b>> : b \in Bodies} \cup Pairs]
        /\ HasCall(prog.calls) => prog.site.y \in {"absent", "callable"}    \* the call statements are explored at the
        /\ prog.site.y = "callable" => HasCall(prog.calls)                 \* sites with and without a callable local
        /\ pc = "prologue" /\ mi = 1 /\ si = 0
        /\ impl = SiteMachine(prog.site) /\ ref = SiteMachine(prog.site)

Body == prog.calls[mi]

Prologue ==                      \* the checker enters the expansion: pushMacroBoundaryLocalEnv
  /\ pc = "prologue"
  /\ impl' = PushBoundary(impl) /\ ref' = PushBoundary(ref)
  /\ pc' = "expand" /\ si' = 1
  /\ UNCHANGED <<prog, mi>>

ExpandStep ==                    \* one statement of the quoted body, in both machines
  /\ pc = "expand" /\ si <= Len(Body)
  /\ impl' = Exec(impl, Alphabet[Body[si]], mi, si, Deviations)
  /\ ref'  = Exec(ref,  Alphabet[Body[si]], mi, si, {})
  /\ si' = si + 1
  /\ UNCHANGED <<prog, pc, mi>>

LeaveExpansion ==                \* popLocalEnv; next call or the rest of the call site
  /\ pc = "expand" /\ si > Len(Body)
  /\ impl' = PopBoundary(impl) /\ ref' = PopBoundary(ref)
  /\ IF mi < Len(prog.calls) THEN /\ mi' = mi + 1 /\ pc' = "prologue" /\ si' = 0
                             ELSE /\ pc' = "epilogue" /\ UNCHANGED <<mi, si>>
  /\ UNCHANGED prog

Obs(m) == [verdict |-> m.verdict, out |-> IF m.verdict = "ok" THEN m.out ELSE <<>>, corrupt |-> m.corrupt, fuzzy |-> m.fuzzy,
           fired |-> m.fired, res |-> m.res]

StmtsOf(calls) == [c \in 1..Len(calls) |-> [j \in 1..Len(calls[c]) |-> Alphabet[calls[c][j]]]]

Finish ==
  /\ pc = "epilogue"
  /\ LET i == Epilogue(impl, prog.site) r == Epilogue(ref, prog.site) IN
     /\ impl' = i /\ ref' = r
     /\ PrintT(<<"GEN", ToJson([site |-> prog.site, calls |-> StmtsOf(prog.calls), idx |-> prog.calls,
                                ref |-> Obs(r), impl |-> Obs(i)])>>)
  /\ pc' = "done"
  /\ UNCHANGED <<prog, mi, si>>

Done == pc = "done" /\ UNCHANGED vars

Next == Prologue \/ ExpandStep \/ LeaveExpansion \/ Finish \/ Done

-----------------------------------------------------------------------------
(* Properties of the specification (checked by TLC on every state) *)

CallerCells == 1..((IF prog.site.x = "absent" THEN 0 ELSE 1) + (IF prog.site.y \in {"local", "callable"} THEN 1 ELSE 0))

TypeOK == /\ pc \in {"prologue", "expand", "epilogue", "done"}
          /\ impl.verdict \in {"ok", "rejected"} /\ ref.verdict \in {"ok", "rejected"}

(* the locals of an expansion are gone when the expansion is left: the code around the call *)
(* resolves names exactly as before the call                                                *)
MacroLocalsInvisibleOutside ==
  pc \in {"prologue", "epilogue", "done"} =>
     /\ \A j \in 1..Len(ref.frames)  : ref.frames[j]  = SiteMachine(prog.site).frames[j]
     /\ \A j \in 1..Len(impl.frames) : impl.frames[j] = SiteMachine(prog.site).frames[j]
     /\ Len(ref.frames) = Len(SiteMachine(prog.site).frames)

(* reference: a caller variable only changes through an explicitly unhygienic write *)
HasUnhygienicWrite ==
  \E c \in 1..Len(prog.calls) : \E j \in 1..Len(prog.calls[c]) : Alphabet[prog.calls[c][j]].k \in {"uwrite_e", "uwrite_s"}
CallerVarsOnlyChangeUnhygienically ==
  ~HasUnhygienicWrite => \A c \in CallerCells : ref.cells[c] = SiteMachine(prog.site).cells[c]

(* the implementation model IS the reference once the named deviations are switched off *)
ImplIsRefWithoutDeviations == Deviations = {} => impl = ref
=============================================================================
