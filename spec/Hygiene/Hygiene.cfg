CONSTANTS
  MaxLen <- MCMaxLen
  ExtraBodies <- MCExtraBodies
  Pairs <- MCPairs
  Deviations <- MCDeviations
INIT Init
NEXT Next
INVARIANTS TypeOK MacroLocalsInvisibleOutside CallerVarsOnlyChangeUnhygienically ImplIsRefWithoutDeviations
CHECK_DEADLOCK FALSE
