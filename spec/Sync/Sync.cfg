\* reference instance: tlc -config Sync.cfg Sync.tla
CONSTANTS
  NThreads = 3
  MaxOps = 2
  Prims = {"mutex", "rw", "wg", "once"}
  Misuse = TRUE
  SingleWaiter = FALSE
  Variant = "good"
SPECIFICATION Spec
VIEW View
INVARIANTS TypeOK MutexExclusive RWExclusive BlockedJustified UnlockErrorOnlyWhenUnheld CounterNonNegative WaitReturnsOnlyAtZero OnceRunsOnce OnceReturnsAfterBody
PROPERTIES MisuseChangesNothing
CHECK_DEADLOCK FALSE
