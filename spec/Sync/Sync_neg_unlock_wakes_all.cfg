\* NEGATIVE CONTROL: unlock lets every blocked locker in -> MutexExclusive violated
CONSTANTS
  NThreads = 3
  MaxOps = 2
  Prims = {"mutex", "rw", "wg", "once"}
  Misuse = TRUE
  SingleWaiter = FALSE
  Variant = "unlock_wakes_all"
SPECIFICATION Spec
VIEW View
INVARIANTS TypeOK MutexExclusive RWExclusive BlockedJustified UnlockErrorOnlyWhenUnheld CounterNonNegative WaitReturnsOnlyAtZero OnceRunsOnce OnceReturnsAfterBody
PROPERTIES MisuseChangesNothing
CHECK_DEADLOCK FALSE
