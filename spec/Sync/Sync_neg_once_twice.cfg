\* NEGATIVE CONTROL: a caller arriving while the body runs runs it again -> OnceRunsOnce violated
CONSTANTS
  NThreads = 2
  MaxOps = 2
  Prims = {"mutex", "rw", "wg", "once"}
  Misuse = TRUE
  SingleWaiter = FALSE
  Variant = "once_twice"
SPECIFICATION Spec
VIEW View
INVARIANTS TypeOK MutexExclusive RWExclusive BlockedJustified UnlockErrorOnlyWhenUnheld CounterNonNegative WaitReturnsOnlyAtZero OnceRunsOnce OnceReturnsAfterBody
PROPERTIES MisuseChangesNothing
CHECK_DEADLOCK FALSE
