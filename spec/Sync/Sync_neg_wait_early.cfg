\* NEGATIVE CONTROL: wait returns when the counter is 1 -> WaitReturnsOnlyAtZero violated
CONSTANTS
  NThreads = 2
  MaxOps = 3
  Prims = {"mutex", "rw", "wg", "once"}
  Misuse = TRUE
  SingleWaiter = FALSE
  Variant = "wait_early"
SPECIFICATION Spec
VIEW View
INVARIANTS TypeOK MutexExclusive RWExclusive BlockedJustified UnlockErrorOnlyWhenUnheld CounterNonNegative WaitReturnsOnlyAtZero OnceRunsOnce OnceReturnsAfterBody
PROPERTIES MisuseChangesNothing
CHECK_DEADLOCK FALSE
