\* trace validation (the check writes synctrace.ndjson next to the module); run with -workers 1
CONSTANTS
  MaxM = 2
  MaxT = 1
INIT Init
NEXT Next
CONSTRAINT HighWater
POSTCONDITION Accepted
CHECK_DEADLOCK FALSE
