----------------------------- MODULE SyncTrace -----------------------------
(***************************************************************************)
(* Trace validation for Mutex / RWMutex / WaitGroup / Once in free-running *)
(* Elk programs with `go` threads.  The recorded hook events are emitted   *)
(* WHILE THE LOCK IS HELD (x.lock.ok after the native lock, x.unlock.try   *)
(* before the native unlock), so their order under the global counter is   *)
(* the real order of acquisitions and releases; every line must be a step  *)
(* the state machine of Sync.tla allows at event granularity:              *)
(*   an exclusive acquisition needs a free lock, a shared one no writer,   *)
(*   a release needs a matching hold (mutual exclusion),                   *)
(*   the wait group counter never goes negative,                           *)
(*   once.body at most once, once.call.ok only after once.body.end.        *)
(* ACCEPTED iff the whole trace is consumed (CONSTRAINT HighWater,         *)
(* POSTCONDITION Accepted).  Lines: [k, t, m, n]                           *)
(***************************************************************************)
EXTENDS Integers, Sequences, FiniteSets, TLC, Json

CONSTANTS MaxM, MaxT
Trace == ndJsonDeserialize("synctrace.ndjson")
N == Len(Trace)
Objs == 1..MaxM
Threads == 1..MaxT

VARIABLES l, locked, writer, readers, counter, ostate
vars == <<l, locked, writer, readers, counter, ostate>>

Init == /\ l = 1
        /\ locked = [m \in Objs |-> FALSE] /\ writer = [m \in Objs |-> FALSE] /\ readers = [m \in Objs |-> 0]
        /\ counter = [m \in Objs |-> 0]
        /\ ostate = [m \in Objs |-> "new"]

Line == Trace[l]
Adv == l' = l + 1

Step ==
  /\ l <= N
  /\ LET m == Line.m k == Line.k IN
     \/ /\ k = "reset" /\ Adv
        /\ locked' = [x \in Objs |-> FALSE] /\ writer' = [x \in Objs |-> FALSE] /\ readers' = [x \in Objs |-> 0]
        /\ counter' = [x \in Objs |-> 0] /\ ostate' = [x \in Objs |-> "new"]
     \/ /\ k = "mutex.lock.ok" /\ ~locked[m] /\ Adv
        /\ locked' = [locked EXCEPT ![m] = TRUE] /\ UNCHANGED <<writer, readers, counter, ostate>>
     \/ /\ k = "mutex.unlock.try" /\ locked[m] /\ Adv
        /\ locked' = [locked EXCEPT ![m] = FALSE] /\ UNCHANGED <<writer, readers, counter, ostate>>
     \/ /\ k = "rw.lock.ok" /\ ~writer[m] /\ readers[m] = 0 /\ Adv
        /\ writer' = [writer EXCEPT ![m] = TRUE] /\ UNCHANGED <<locked, readers, counter, ostate>>
     \/ /\ k = "rw.unlock.try" /\ writer[m] /\ Adv
        /\ writer' = [writer EXCEPT ![m] = FALSE] /\ UNCHANGED <<locked, readers, counter, ostate>>
     \/ /\ k = "rw.rlock.ok" /\ ~writer[m] /\ Adv
        /\ readers' = [readers EXCEPT ![m] = @ + 1] /\ UNCHANGED <<locked, writer, counter, ostate>>
     \/ /\ k = "rw.runlock.try" /\ readers[m] > 0 /\ Adv
        /\ readers' = [readers EXCEPT ![m] = @ - 1] /\ UNCHANGED <<locked, writer, counter, ostate>>
     \* wait group: the hooks are outside the native call (an end may be logged after the waiter it released),
     \* so only the sign of the counter is checked here; "wait returns only at zero" is decided on the
     \* program's output (every worker's effect is visible after wait)
     \/ /\ k \in {"wg.add.ok", "wg.start.ok"} /\ Adv
        /\ counter' = [counter EXCEPT ![m] = @ + Line.n]
        /\ UNCHANGED <<locked, writer, readers, ostate>>
     \/ /\ k \in {"wg.end.ok", "wg.remove.ok"} /\ counter[m] >= Line.n /\ Adv
        /\ counter' = [counter EXCEPT ![m] = @ - Line.n]
        /\ UNCHANGED <<locked, writer, readers, ostate>>
     \/ /\ k \in {"wg.wait.try", "wg.wait.ok", "once.call.try"} /\ Adv
        /\ UNCHANGED <<locked, writer, readers, counter, ostate>>
     \/ /\ k = "once.body" /\ ostate[m] = "new" /\ Adv
        /\ ostate' = [ostate EXCEPT ![m] = "running"] /\ UNCHANGED <<locked, writer, readers, counter>>
     \/ /\ k = "once.body.end" /\ ostate[m] = "running" /\ Adv
        /\ ostate' = [ostate EXCEPT ![m] = "done"] /\ UNCHANGED <<locked, writer, readers, counter>>
     \/ /\ k = "once.call.ok" /\ ostate[m] = "done" /\ Adv
        /\ UNCHANGED <<locked, writer, readers, counter, ostate>>

Next == Step
\* acceptance: the furthest line reached by any behaviour (TLC register 1; run with -workers 1) is the end
HighWater == TLCSet(1, IF TLCGet(1) < l THEN l ELSE TLCGet(1))
Accepted  == TLCGet(1) = N + 1
ASSUME TLCSet(1, 0)
Exclusive == \A m \in Objs : ~(writer[m] /\ readers[m] > 0)
=============================================================================
