-------------------------------- MODULE Sync --------------------------------
(***************************************************************************)
(* Elk synchronisation primitives Std::Sync::Mutex, RWMutex, WaitGroup,    *)
(* Once (value/mutex.go, value/rwmutex.go, value/wait_group.go,            *)
(* value/once.go, vm/mutex.go, vm/rwmutex.go, vm/wait_group.go,            *)
(* vm/once.go).  Property C25, sync half: mutual exclusion; unlocking a    *)
(* primitive that is not held has the documented ERROR OUTCOME (the        *)
(* process goes on); WaitGroup#wait returns only at zero; Once runs its    *)
(* body once and nobody gets past `call` before the body has finished.     *)
(*                                                                         *)
(* Same granularity as Chan: one action = release one thread from the gate *)
(* in front of its next operation and run to quiescence; the event says    *)
(* whether the operation completed (and how) or blocked, and which blocked *)
(* threads it woke.  The instance chooses ONE primitive (prim) in Init.    *)
(***************************************************************************)
EXTENDS Integers, Sequences, FiniteSets, TLC, Json

CONSTANTS NThreads, MaxOps,
          Prims,         \* subset of {"mutex", "rw", "wg", "once"}: the primitive of an instance is chosen in Init
          Misuse,        \* FALSE: the misuse steps (unlock of an unheld lock, negative counter) are left out
          SingleWaiter,  \* TRUE: at most one thread blocked in an exclusive-lock operation (replayed behaviours:
                         \*   which of two blocked lockers gets the lock is not part of the contract)
          Variant        \* "good" | negative controls: "unlock_wakes_all" (unlock lets every blocked locker in),
                         \*   "wait_early" (wait returns when the counter is 1), "once_twice" (a caller that
                         \*   arrives while the body runs runs it again)

Threads == 1..NThreads

VARIABLES prim,
          locked, holders,          \* mutex: state; threads that acquired it and were not released
          writer, readers, rholders,\* rwmutex: a writer holds it; number of readers; who they are (history)
          counter,                  \* wait group
          ostate, runs, runner,     \* once: "new" | "running" | "done"; number of body executions; who runs it
          blk,                      \* per thread: operation it is blocked in ("none")
          left, last, hist

core  == <<prim, locked, holders, writer, readers, rholders, counter, ostate, runs, runner, blk>>
vars  == <<prim, locked, holders, writer, readers, rholders, counter, ostate, runs, runner, blk, left, last, hist>>
View  == <<prim, locked, holders, writer, readers, rholders, counter, ostate, runs, runner, blk, left, last>>

Blocked(k) == {t \in Threads : blk[t] = k}
Ready(t)   == blk[t] = "none" /\ left[t] > 0
Started(t) == left' = [left EXCEPT ![t] = @ - 1]

Wk(a, r) == [a |-> a, r |-> r]
\* event: thread a started operation k (argument n); outcome r: "ok" | "blocked" | "body" (inside the once body)
\*  | "err_unlocked" | "err_runlocked" | "err_negative"; wake: blocked threads that completed; proj: observable state
Ev(a, k, n, r, wake) == [a |-> a, k |-> k, n |-> n, r |-> r, wake |-> wake,
                         locked |-> locked', writer |-> writer', readers |-> readers', counter |-> counter', runs |-> runs']
Log(e) == last' = e /\ hist' = Append(hist, e)

RECURSIVE WakeAll(_)
WakeAll(S) == IF S = {} THEN <<>>
              ELSE LET t == CHOOSE x \in S : \A y \in S : x <= y IN <<Wk(t, "ok")>> \o WakeAll(S \ {t})

Init == /\ prim \in Prims
        /\ locked = FALSE /\ holders = {}
        /\ writer = FALSE /\ readers = 0 /\ rholders = {}
        /\ counter = 0
        /\ ostate = "new" /\ runs = 0 /\ runner = 0
        /\ blk = [t \in Threads |-> "none"] /\ left = [t \in Threads |-> MaxOps]
        /\ last = [a |-> 0, k |-> "init", n |-> 0, r |-> "", wake |-> <<>>,
                   locked |-> FALSE, writer |-> FALSE, readers |-> 0, counter |-> 0, runs |-> 0]
        /\ hist = <<>>

-----------------------------------------------------------------------------
(* Mutex *)
UM == UNCHANGED <<prim, writer, readers, rholders, counter, ostate, runs, runner>>

MLock(t) ==
  /\ prim = "mutex" /\ Ready(t) /\ Started(t) /\ UM
  /\ \/ /\ ~locked
        /\ locked' = TRUE /\ holders' = holders \cup {t} /\ UNCHANGED blk
        /\ Log(Ev(t, "lock", 0, "ok", <<>>))
     \/ /\ locked
        /\ SingleWaiter => Blocked("lock") = {}
        /\ blk' = [blk EXCEPT ![t] = "lock"] /\ UNCHANGED <<locked, holders>>
        /\ Log(Ev(t, "lock", 0, "blocked", <<>>))

\* whoever calls unlock releases the (owner-less) mutex; the releasing thread's own hold ends if it has one,
\* otherwise the hold of the thread that had acquired it ends
Release(t) == IF t \in holders THEN holders \ {t} ELSE {}

MUnlock(t) ==
  /\ prim = "mutex" /\ Ready(t) /\ Started(t) /\ UM
  /\ \/ /\ ~locked /\ Misuse                          \* MISUSE: the documented outcome is UnlockedError
        /\ UNCHANGED <<locked, holders, blk>>
        /\ Log(Ev(t, "unlock", 0, "err_unlocked", <<>>))
     \/ /\ locked /\ Blocked("lock") = {}
        /\ locked' = FALSE /\ holders' = Release(t) /\ UNCHANGED blk
        /\ Log(Ev(t, "unlock", 0, "ok", <<>>))
     \/ /\ locked /\ Blocked("lock") # {} /\ Variant # "unlock_wakes_all"
        /\ \E w \in Blocked("lock") :                 \* a blocked locker gets the mutex
             /\ holders' = Release(t) \cup {w}
             /\ blk' = [blk EXCEPT ![w] = "none"] /\ UNCHANGED locked
             /\ Log(Ev(t, "unlock", 0, "ok", <<Wk(w, "ok")>>))
     \/ /\ locked /\ Blocked("lock") # {} /\ Variant = "unlock_wakes_all"
        /\ holders' = Release(t) \cup Blocked("lock")
        /\ blk' = [x \in Threads |-> IF blk[x] = "lock" THEN "none" ELSE blk[x]] /\ UNCHANGED locked
        /\ Log(Ev(t, "unlock", 0, "ok", WakeAll(Blocked("lock"))))

-----------------------------------------------------------------------------
(* RWMutex (Go's: a blocked writer keeps new readers out; on unlock the blocked readers go first) *)
UR == UNCHANGED <<prim, locked, holders, counter, ostate, runs, runner>>

RWLock(t) ==
  /\ prim = "rw" /\ Ready(t) /\ Started(t) /\ UR
  /\ \/ /\ ~writer /\ readers = 0 /\ Blocked("lock") = {}
        /\ writer' = TRUE /\ UNCHANGED <<readers, rholders, blk>>
        /\ Log(Ev(t, "lock", 0, "ok", <<>>))
     \/ /\ writer \/ readers > 0 \/ Blocked("lock") # {}
        /\ SingleWaiter => Blocked("lock") = {}
        /\ blk' = [blk EXCEPT ![t] = "lock"] /\ UNCHANGED <<writer, readers, rholders>>
        /\ Log(Ev(t, "lock", 0, "blocked", <<>>))

RWRLock(t) ==
  /\ prim = "rw" /\ Ready(t) /\ Started(t) /\ UR
  /\ \/ /\ ~writer /\ Blocked("lock") = {}
        /\ readers' = readers + 1 /\ rholders' = rholders \cup {t} /\ UNCHANGED <<writer, blk>>
        /\ Log(Ev(t, "rlock", 0, "ok", <<>>))
     \/ /\ writer \/ Blocked("lock") # {}
        /\ blk' = [blk EXCEPT ![t] = "rlock"] /\ UNCHANGED <<writer, readers, rholders>>
        /\ Log(Ev(t, "rlock", 0, "blocked", <<>>))

RWUnlock(t) ==
  /\ prim = "rw" /\ Ready(t) /\ Started(t) /\ UR
  /\ \/ /\ ~writer /\ Misuse                          \* MISUSE: documented outcome UnlockedError
        /\ UNCHANGED <<writer, readers, rholders, blk>>
        /\ Log(Ev(t, "unlock", 0, "err_unlocked", <<>>))
     \/ /\ writer /\ Blocked("rlock") # {}            \* the blocked readers all get in
        /\ writer' = FALSE /\ readers' = Cardinality(Blocked("rlock")) /\ rholders' = Blocked("rlock")
        /\ blk' = [x \in Threads |-> IF blk[x] = "rlock" THEN "none" ELSE blk[x]]
        /\ Log(Ev(t, "unlock", 0, "ok", WakeAll(Blocked("rlock"))))
     \/ /\ writer /\ Blocked("rlock") = {} /\ Blocked("lock") # {}
        /\ \E w \in Blocked("lock") :                 \* the next writer gets in
             /\ blk' = [blk EXCEPT ![w] = "none"] /\ UNCHANGED <<writer, readers, rholders>>
             /\ Log(Ev(t, "unlock", 0, "ok", <<Wk(w, "ok")>>))
     \/ /\ writer /\ Blocked("rlock") = {} /\ Blocked("lock") = {}
        /\ writer' = FALSE /\ UNCHANGED <<readers, rholders, blk>>
        /\ Log(Ev(t, "unlock", 0, "ok", <<>>))

RWRUnlock(t) ==
  /\ prim = "rw" /\ Ready(t) /\ Started(t) /\ UR
  /\ \/ /\ readers = 0 /\ Misuse                      \* MISUSE: documented outcome UnlockedError
        /\ UNCHANGED <<writer, readers, rholders, blk>>
        /\ Log(Ev(t, "runlock", 0, "err_runlocked", <<>>))
     \/ /\ readers > 1 \/ (readers = 1 /\ Blocked("lock") = {})
        /\ readers' = readers - 1
        /\ rholders' = IF t \in rholders \/ rholders = {} THEN rholders \ {t} ELSE rholders \ {CHOOSE x \in rholders : TRUE}
        /\ UNCHANGED <<writer, blk>>
        /\ Log(Ev(t, "runlock", 0, "ok", <<>>))
     \/ /\ readers = 1 /\ Blocked("lock") # {}        \* last reader out: the blocked writer gets in
        /\ \E w \in Blocked("lock") :
             /\ readers' = 0 /\ rholders' = {} /\ writer' = TRUE
             /\ blk' = [blk EXCEPT ![w] = "none"]
             /\ Log(Ev(t, "runlock", 0, "ok", <<Wk(w, "ok")>>))

-----------------------------------------------------------------------------
(* WaitGroup *)
UW == UNCHANGED <<prim, locked, holders, writer, readers, rholders, ostate, runs, runner>>

WakeAt(c) == IF c = 0 \/ (Variant = "wait_early" /\ c = 1) THEN Blocked("wait") ELSE {}

\* add n / start (n = 1)
WGAdd(t, k, n) ==
  /\ prim = "wg" /\ Ready(t) /\ Started(t) /\ UW
  /\ counter + n <= 3
  /\ counter' = counter + n /\ UNCHANGED blk
  /\ Log(Ev(t, k, n, "ok", <<>>))

\* end (n = 1) / remove n
WGDone(t, k, n) ==
  /\ prim = "wg" /\ Ready(t) /\ Started(t) /\ UW
  /\ \/ /\ counter < n /\ Misuse                      \* MISUSE: the counter would become negative
        /\ UNCHANGED <<counter, blk>>
        /\ Log(Ev(t, k, n, "err_negative", <<>>))
     \/ /\ counter >= n
        /\ counter' = counter - n
        /\ blk' = [x \in Threads |-> IF x \in WakeAt(counter - n) THEN "none" ELSE blk[x]]
        /\ Log(Ev(t, k, n, "ok", WakeAll(WakeAt(counter - n))))

WGWait(t) ==
  /\ prim = "wg" /\ Ready(t) /\ Started(t) /\ UW /\ UNCHANGED counter
  /\ \/ /\ counter = 0 /\ UNCHANGED blk
        /\ Log(Ev(t, "wait", 0, "ok", <<>>))
     \/ /\ counter > 0
        /\ blk' = [blk EXCEPT ![t] = "wait"]
        /\ Log(Ev(t, "wait", 0, "blocked", <<>>))

-----------------------------------------------------------------------------
(* Once: call runs the body (a separate step ends it: the body is a gate of the harness) *)
UO == UNCHANGED <<prim, locked, holders, writer, readers, rholders, counter>>

OCall(t) ==
  /\ prim = "once" /\ Ready(t) /\ Started(t) /\ UO
  /\ \/ /\ ostate = "new"
        /\ ostate' = "running" /\ runs' = runs + 1 /\ runner' = t
        /\ blk' = [blk EXCEPT ![t] = "body"]
        /\ Log(Ev(t, "call", 0, "body", <<>>))
     \/ /\ ostate = "running" /\ Variant # "once_twice"
        /\ blk' = [blk EXCEPT ![t] = "call"] /\ UNCHANGED <<ostate, runs, runner>>
        /\ Log(Ev(t, "call", 0, "blocked", <<>>))
     \/ /\ ostate = "running" /\ Variant = "once_twice"
        /\ runs' = runs + 1 /\ UNCHANGED <<ostate, runner, blk>>
        /\ Log(Ev(t, "call", 0, "ok", <<>>))
     \/ /\ ostate = "done"
        /\ UNCHANGED <<ostate, runs, runner, blk>>
        /\ Log(Ev(t, "call", 0, "ok", <<>>))

\* the body finishes: its caller returns, and so do the callers that were waiting for it
OBodyEnd(t) ==
  /\ prim = "once" /\ blk[t] = "body" /\ UO /\ UNCHANGED <<left, runs, runner>>
  /\ ostate' = "done"
  /\ blk' = [x \in Threads |-> IF blk[x] = "call" \/ x = t THEN "none" ELSE blk[x]]
  /\ Log(Ev(t, "body_end", 0, "ok", WakeAll(Blocked("call"))))

Next == \E t \in Threads :
          \/ MLock(t) \/ MUnlock(t)
          \/ RWLock(t) \/ RWRLock(t) \/ RWUnlock(t) \/ RWRUnlock(t)
          \/ WGAdd(t, "add", 1) \/ WGAdd(t, "add", 2) \/ WGAdd(t, "start", 1)
          \/ WGDone(t, "end", 1) \/ WGDone(t, "remove", 1) \/ WGDone(t, "remove", 2) \/ WGWait(t)
          \/ OCall(t) \/ OBodyEnd(t)

Spec == Init /\ [][Next]_vars

-----------------------------------------------------------------------------
(* Properties *)
TypeOK == /\ readers \in 0..NThreads * MaxOps /\ counter \in 0..3 /\ runs \in 0..NThreads * MaxOps
          /\ \A t \in Threads : left[t] \in 0..MaxOps

\* mutual exclusion
MutexExclusive == Cardinality(holders) <= 1 /\ (holders # {} => locked)
RWExclusive    == ~(writer /\ readers > 0) /\ (writer => rholders = {}) /\ Cardinality(rholders) <= readers
\* nobody waits for a free lock
BlockedJustified ==
  /\ (prim = "mutex" /\ Blocked("lock") # {}) => locked
  /\ (prim = "rw" /\ Blocked("lock") # {}) => (writer \/ readers > 0)
  /\ (prim = "rw" /\ Blocked("rlock") # {}) => (writer \/ Blocked("lock") # {})
  /\ Blocked("wait") # {} => counter > 0
  /\ Blocked("call") # {} => ostate = "running"
\* misuse has an error outcome and changes nothing; errors only on misuse
UnlockErrorOnlyWhenUnheld ==
  /\ (last.r = "err_unlocked" /\ prim = "mutex") => ~locked
  /\ (last.r = "err_unlocked" /\ prim = "rw") => ~writer
  /\ last.r = "err_runlocked" => readers = 0
  /\ last.r = "err_negative" => counter < last.n
MisuseChangesNothing == [][last'.r \in {"err_unlocked", "err_runlocked", "err_negative"} => core' = core]_vars
\* WaitGroup: the counter never goes negative; wait returns only at zero
CounterNonNegative == counter >= 0
WaitReturnsOnlyAtZero ==
  /\ (last.k = "wait" /\ last.r = "ok") => counter = 0
  /\ (prim = "wg" /\ last.wake # <<>>) => counter = 0
\* Once: the body runs at most once, and a call returns only after the body has finished
OnceRunsOnce == runs <= 1
OnceReturnsAfterBody ==
  /\ (last.k = "call" /\ last.r = "ok") => (ostate = "done" /\ runs = 1)
  /\ (prim = "once" /\ last.wake # <<>>) => (ostate = "done" /\ runs = 1)

EmitAtEnd == (~ENABLED Next) => PrintT(<<"GEN", ToJson([prim |-> prim, hist |-> hist])>>)
=============================================================================
