--------------------------- MODULE FixedIntMachine ---------------------------
(***************************************************************************)
(* Register machine over one fixed-width type (N bits, Signed): the        *)
(* registers are loaded with two values of the type, one operator is       *)
(* applied (one action per operator).  TLC enumerates every pair of the    *)
(* instance (all 2^N x 2^N for N = 8), checks the modular-arithmetic laws  *)
(* on every outcome and exports one record per operand pair (Observe) with *)
(* the result of every operator; the harness replays the records on the    *)
(* real code.  Shift counts range over Counts; the count's Elk type is     *)
(* chosen by the harness (every type the std headers admit), the model's   *)
(* answer does not depend on it.                                           *)
(***************************************************************************)
EXTENDS FixedInt, TLC, Json, Sequences

CONSTANTS N, Signed,
          Operands,      \* the operand values of the instance (a subset of the type)
          Counts,        \* shift counts of the instance
          MaxPowExp,     \* largest exponent (results of Pow must fit TLC's integers)
          Deviations,    \* deviations switched on in the model under check ({} = the reference)
          Explain        \* deviations whose single-deviation predictions are exported

VARIABLES a, b, op, out
vars == <<a, b, op, out>>

Values == { x \in Operands : InType(N, Signed, x) }
None == [k |-> "none", v |-> 0]

Result(o, x, y) ==
  CASE o = "add" -> Val(F_add(N, Signed, x, y)) [] o = "sub" -> Val(F_sub(N, Signed, x, y))
    [] o = "mul" -> Val(F_mul(N, Signed, x, y)) [] o = "div" -> Val(F_div(N, Signed, x, y))
    [] o = "mod" -> Val(F_mod(N, Signed, x, y)) [] o = "pow" -> I_pow(Deviations, N, Signed, x, y)
    [] o = "and" -> Val(F_and(N, Signed, x, y)) [] o = "or" -> Val(F_or(N, Signed, x, y))
    [] o = "xor" -> Val(F_xor(N, Signed, x, y)) [] o = "andnot" -> Val(F_andnot(N, Signed, x, y))
    [] o = "shl" -> I_shl(Deviations, N, Signed, x, y, "Int") [] o = "shr" -> I_shr(Deviations, N, Signed, x, y, "Int")
    [] o = "lshl" -> I_lshl(Deviations, N, Signed, x, y, "Int") [] o = "lshr" -> I_lshr(Deviations, N, Signed, x, y, "Int")
    [] o = "cmp" -> Val(F_cmp(N, Signed, x, y)) [] o = "eq" -> Val(F_eq(N, Signed, x, y))
    [] o = "ne" -> Val(F_ne(N, Signed, x, y)) [] o = "lt" -> Val(F_lt(N, Signed, x, y))
    [] o = "le" -> Val(F_le(N, Signed, x, y)) [] o = "gt" -> Val(F_gt(N, Signed, x, y))
    [] o = "ge" -> Val(F_ge(N, Signed, x, y))
    [] o = "neg" -> Val(F_neg(N, Signed, x, y)) [] o = "not" -> Val(F_not(N, Signed, x, y))

\* the domain of the statement inside the instance
Enabled(o, x, y) ==
  CASE o \in {"div", "mod"} -> y \in Values /\ y # 0
    [] o = "pow" -> y \in Values /\ 0 <= y /\ y <= MaxPowExp
    [] o \in ShiftOps -> y \in Counts
    [] o \in UnaryOps -> y = 0
    [] OTHER -> y \in Values

AllOps == ArithOps \cup CmpOps \cup ShiftOps \cup UnaryOps

\* the Elk types a shift count may have (typedef Std::AnyInt); the harness keeps those the real
\* checker admits and in which the count is representable
CountTypes == {"Int", "Int8", "Int16", "Int32", "Int64", "UInt8", "UInt16", "UInt32", "UInt64", "UInt"}
Shift(D, o, x, y, ct) ==
  CASE o = "shl" -> I_shl(D, N, Signed, x, y, ct) [] o = "shr" -> I_shr(D, N, Signed, x, y, ct)
    [] o = "lshl" -> I_lshl(D, N, Signed, x, y, ct) [] o = "lshr" -> I_lshr(D, N, Signed, x, y, ct)
\* what the model predicts, per count type, with exactly one known deviation switched on
DeviantShifts(x, y) ==
  { [op |-> o, ct |-> ct, d |-> d, k |-> Shift({d}, o, x, y, ct).k, v |-> Shift({d}, o, x, y, ct).v] :
      <<o, ct, d>> \in { t \in ShiftOps \X CountTypes \X Explain :
                            Shift({t[3]}, t[1], x, y, t[2]) # Shift({}, t[1], x, y, t[2]) } }

Init == /\ a \in Values /\ b \in Values \cup Counts
        /\ op = "" /\ out = None

Apply(o) == /\ op = "" /\ Enabled(o, a, b)
            /\ op' = o /\ out' = Result(o, a, b)
            /\ UNCHANGED <<a, b>>

\* export: the outcome of every enabled operator on this operand pair
Observe == /\ op = ""
           /\ op' = "observed" /\ out' = None
           /\ PrintT(<<"GEN", ToJson([a |-> a, b |-> b,
                 r |-> [o \in { p \in AllOps : Enabled(p, a, b) } |-> Result(o, a, b).v],
                 k |-> [o \in { p \in AllOps : Enabled(p, a, b) } |-> Result(o, a, b).k],
                 dev |-> IF b \in Counts THEN DeviantShifts(a, b) ELSE {}])>>)
           /\ UNCHANGED <<a, b>>

Add == Apply("add")      Sub == Apply("sub")       Mul == Apply("mul")     Div == Apply("div")
Mod == Apply("mod")      Power == Apply("pow")     BitAnd == Apply("and")  BitOr == Apply("or")
BitXor == Apply("xor")   BitAndNot == Apply("andnot")
ShiftL == Apply("shl")   ShiftR == Apply("shr")    LogicalL == Apply("lshl")   LogicalR == Apply("lshr")
Compare == Apply("cmp")  Equal == Apply("eq")      NotEqual == Apply("ne") Less == Apply("lt")
LessEq == Apply("le")    Greater == Apply("gt")    GreaterEq == Apply("ge")
Negate == Apply("neg")   BitNot == Apply("not")

Next == \/ Add \/ Sub \/ Mul \/ Div \/ Mod \/ Power \/ BitAnd \/ BitOr \/ BitXor \/ BitAndNot
        \/ ShiftL \/ ShiftR \/ LogicalL \/ LogicalR
        \/ Compare \/ Equal \/ NotEqual \/ Less \/ LessEq \/ Greater \/ GreaterEq
        \/ Negate \/ BitNot \/ Observe

-----------------------------------------------------------------------------
(* The property on the model *)
M == Two(N)
Congruent(x, y) == ToU(N, x) = ToU(N, y)                 \* x = y (mod 2^N)
Done == op \notin {"", "observed"}

\* every operator returns a value of the type (never an error, never a hang)
TotalAndClosed == Done => (out.k = "val" /\ (op \in CmpOps \/ InType(N, Signed, out.v)))
\* arithmetic is arithmetic modulo 2^N
ModularArithmetic == (Done /\ out.k = "val") =>
  /\ op = "add" => Congruent(out.v, a + b)
  /\ op = "sub" => Congruent(out.v, a - b)
  /\ op = "mul" => Congruent(out.v, a * b)
  /\ op = "neg" => Congruent(out.v + a, 0)
  /\ op = "not" => Congruent(out.v + a + 1, 0)
  /\ op = "pow" => Congruent(out.v, Pow(a, b))
\* division truncates, the identity a = (a / b) * b + a % b holds modulo 2^N
DivisionIdentity == (op = "" /\ b \in Values /\ b # 0) =>
  /\ Congruent(F_div(N, Signed, a, b) * b + F_mod(N, Signed, a, b), a)
  /\ Abs(F_mod(N, Signed, a, b)) < Abs(b)
\* shifts move bit patterns: left = multiplication, logical right = division of the pattern,
\* arithmetic right = floor division of the value; opposite counts are opposite directions
ShiftsMoveBits == (Done /\ op \in ShiftOps /\ out.k = "val") =>
  /\ (op \in {"shl", "lshl"} /\ b >= 0 /\ b < N) => Congruent(out.v, a * Two(Dist(N, b)))
  /\ (op = "lshr" /\ b >= 0 /\ b < N) => ToU(N, out.v) = ToU(N, a) \div Two(Dist(N, b))
  /\ (op = "shr" /\ b >= 0 /\ b < N) => (out.v * Two(Dist(N, b)) <= a /\ a < (out.v + 1) * Two(Dist(N, b)))
  /\ (op \in {"shl", "lshl", "lshr"} /\ b >= N) => out.v = 0
  /\ (op = "shr" /\ b >= N) => out.v = (IF a < 0 THEN -1 ELSE 0)
  /\ op = "shl" => out.v = F_shr(N, Signed, a, -b)
  /\ op = "lshl" => out.v = F_lshr(N, Signed, a, -b)
\* Boolean algebra of the patterns
BooleanAlgebra == (op = "" /\ b \in Values) =>
  /\ Congruent(F_and(N, Signed, a, b) + F_or(N, Signed, a, b), a + b)
  /\ Congruent(F_xor(N, Signed, a, b), F_or(N, Signed, a, b) - F_and(N, Signed, a, b))
  /\ Congruent(F_andnot(N, Signed, a, b), a - F_and(N, Signed, a, b))
  /\ F_not(N, Signed, F_and(N, Signed, a, b), 0) = F_or(N, Signed, F_not(N, Signed, a, 0), F_not(N, Signed, b, 0))
=============================================================================
