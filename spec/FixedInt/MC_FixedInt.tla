---- MODULE MC_FixedInt ----
EXTENDS FixedIntMachine
MCSigned == TRUE
MCOperands == -128..127
MCCounts == -10..10
MCDeviations == {}
MCExplain == AllDeviations
====
