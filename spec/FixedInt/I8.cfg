CONSTANTS
  N = 8
  Signed <- MCSigned
  Operands <- MCOperands
  Counts <- MCCounts
  MaxPowExp = 3
  Deviations <- MCDeviations
  Explain <- MCExplain
INIT Init
NEXT Next
INVARIANTS TotalAndClosed ModularArithmetic DivisionIdentity ShiftsMoveBits BooleanAlgebra
CHECK_DEADLOCK FALSE
