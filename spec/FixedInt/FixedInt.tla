------------------------------ MODULE FixedInt ------------------------------
(***************************************************************************)
(* Reference semantics of Elk's fixed-width integers Int8..Int64 and       *)
(* UInt8..UInt64 (property C07): every operator is the operator on the     *)
(* mathematical integers followed by Wrap, i.e. two's-complement           *)
(* arithmetic modulo 2^n.  A type is a pair (n, s): width and signedness.  *)
(*                                                                         *)
(* F_<op>(n, s, a, b) is the result the property demands.  Shift operators *)
(* take a count k that is a mathematical integer of ANY integer type the   *)
(* std headers admit (AnyInt); the headers document that a negative count  *)
(* shifts in the opposite direction.  I_<op> is the model of the           *)
(* implementation: F_<op> unless a NAMED deviation (a genuine defect found  *)
(* in /repo, see known/C07.jsonl) is switched on.                          *)
(*                                                                         *)
(* Written for TLC (n = 8) and Apalache (n = 16, 32, 64): \div and % only  *)
(* on non-negative operands, iteration by Apalache!Repeat.                 *)
(***************************************************************************)
EXTENDS Integers, Apalache

AllDeviations == {
  "lshl_uint_count_type_error",   \* <<< with a right operand of type UInt raises TypeError
  "big_count_shift_zero",         \* a count that is a big Int gives 0 (wrong for negative >> / << by -count)
  "pow_max_exponent_hangs"        \* ** with the exponent equal to the type's maximum never terminates
}

Abs(x) == IF x < 0 THEN -x ELSE x
Sgn(x) == IF x < 0 THEN -1 ELSE IF x > 0 THEN 1 ELSE 0
B2I(p) == IF p THEN 1 ELSE 0
TQuot(a, b) == Sgn(a) * Sgn(b) * (Abs(a) \div Abs(b))
TRem(a, b) == a - b * TQuot(a, b)
FloorDiv(a, d) == IF a >= 0 THEN a \div d ELSE -((-a + d - 1) \div d)

\* @type: (Int, Int) => Int;
Pow(a, e) == LET \* @type: (Int, Int) => Int;
                 Mul(acc, i) == acc * a
             IN Repeat(Mul, e, 1)

(* The type (n, s) *)
Two(n) == 2^n
MinOf(n, s) == IF s THEN -Two(n - 1) ELSE 0
MaxOf(n, s) == IF s THEN Two(n - 1) - 1 ELSE Two(n) - 1
InType(n, s, x) == MinOf(n, s) <= x /\ x <= MaxOf(n, s)
\* the n-bit pattern of x as a natural number, and the value of a pattern in the type
ToU(n, x) == x - Two(n) * FloorDiv(x, Two(n))
Wrap(n, s, x) == LET m == ToU(n, x) IN IF s /\ 2 * m >= Two(n) THEN m - Two(n) ELSE m

(* Arithmetic *)
F_add(n, s, a, b) == Wrap(n, s, a + b)
F_sub(n, s, a, b) == Wrap(n, s, a - b)
F_mul(n, s, a, b) == Wrap(n, s, a * b)
F_div(n, s, a, b) == Wrap(n, s, TQuot(a, b))      \* b # 0; MinOf / -1 wraps to MinOf
F_mod(n, s, a, b) == Wrap(n, s, TRem(a, b))       \* b # 0
F_pow(n, s, a, b) == Wrap(n, s, Pow(a, b))        \* b >= 0
F_neg(n, s, a, b) == Wrap(n, s, -a)
F_not(n, s, a, b) == Wrap(n, s, -a - 1)

(* Bitwise operators on the n-bit patterns *)
\* @type: ((Int, Int) => Int, Int, Int, Int) => Int;
BitOp(F(_, _), n, x, y) ==
  LET \* @type: ({s: Int, p: Int, x: Int, y: Int}, Int) => {s: Int, p: Int, x: Int, y: Int};
      Step(acc, i) == [s |-> acc.s + acc.p * F(acc.x % 2, acc.y % 2), p |-> acc.p * 2,
                       x |-> acc.x \div 2, y |-> acc.y \div 2]
  IN Repeat(Step, n, [s |-> 0, p |-> 1, x |-> x, y |-> y]).s
AndBit(u, v) == u * v
OrBit(u, v) == u + v - u * v
XorBit(u, v) == (u + v) % 2
AndNotBit(u, v) == u * (1 - v)
F_and(n, s, a, b) == Wrap(n, s, BitOp(AndBit, n, ToU(n, a), ToU(n, b)))
F_or(n, s, a, b) == Wrap(n, s, BitOp(OrBit, n, ToU(n, a), ToU(n, b)))
F_xor(n, s, a, b) == Wrap(n, s, BitOp(XorBit, n, ToU(n, a), ToU(n, b)))
F_andnot(n, s, a, b) == Wrap(n, s, BitOp(AndNotBit, n, ToU(n, a), ToU(n, b)))

(* Shifts by k >= 0 positions; a distance >= n empties the word *)
Dist(n, k) == IF 0 <= k /\ k < n THEN k ELSE 0
Left(n, s, a, k) == IF k >= n THEN 0 ELSE Wrap(n, s, a * Two(Dist(n, k)))
ArithRight(n, s, a, k) == IF k >= n THEN (IF a < 0 THEN -1 ELSE 0) ELSE FloorDiv(a, Two(Dist(n, k)))
LogicRight(n, s, a, k) == IF k >= n THEN 0 ELSE Wrap(n, s, ToU(n, a) \div Two(Dist(n, k)))
\* the four operators; a negative count shifts the other way (headers/int8.elh:93-145)
F_shl(n, s, a, k) == IF k >= 0 THEN Left(n, s, a, k) ELSE ArithRight(n, s, a, -k)         \* <<
F_shr(n, s, a, k) == IF k >= 0 THEN ArithRight(n, s, a, k) ELSE Left(n, s, a, -k)         \* >>
F_lshl(n, s, a, k) == IF k >= 0 THEN Left(n, s, a, k) ELSE LogicRight(n, s, a, -k)        \* <<<
F_lshr(n, s, a, k) == IF k >= 0 THEN LogicRight(n, s, a, k) ELSE Left(n, s, a, -k)        \* >>>

(* Comparisons (0/1; <=> as -1/0/1) *)
F_cmp(n, s, a, b) == Sgn(a - b)
F_eq(n, s, a, b) == B2I(a = b)
F_ne(n, s, a, b) == B2I(a # b)
F_lt(n, s, a, b) == B2I(a < b)
F_le(n, s, a, b) == B2I(a <= b)
F_gt(n, s, a, b) == B2I(a > b)
F_ge(n, s, a, b) == B2I(a >= b)

ArithOps == {"add", "sub", "mul", "div", "mod", "pow", "and", "or", "xor", "andnot"}
CmpOps == {"cmp", "eq", "ne", "lt", "le", "gt", "ge"}
ShiftOps == {"shl", "shr", "lshl", "lshr"}
UnaryOps == {"neg", "not"}

-----------------------------------------------------------------------------
(* Outcomes: k = "val" (v is the result) | "type_error" | "hang"            *)
\* @type: (Int) => {k: Str, v: Int};
Val(v) == [k |-> "val", v |-> v]

\* the count's type matters to the implementation only: "Int" (word or big), "Int8".."UInt64", "UInt"
\* (the first disjunct lets TLC, whose integers are 32-bit, answer without computing 2^63)
WordCount(k) == Abs(k) <= 2147483647 \/ (-(2^63) <= k /\ k < 2^63)

\* @type: (Set(Str), Int, Bool, Int, Int, Str) => {k: Str, v: Int};
I_shl(D, n, s, a, k, ct) ==
  IF ct = "Int" /\ ~WordCount(k) /\ "big_count_shift_zero" \in D THEN Val(0) ELSE Val(F_shl(n, s, a, k))
\* @type: (Set(Str), Int, Bool, Int, Int, Str) => {k: Str, v: Int};
I_shr(D, n, s, a, k, ct) ==
  IF ct = "Int" /\ ~WordCount(k) /\ "big_count_shift_zero" \in D THEN Val(0) ELSE Val(F_shr(n, s, a, k))
\* @type: (Set(Str), Int, Bool, Int, Int, Str) => {k: Str, v: Int};
I_lshl(D, n, s, a, k, ct) ==
  CASE s /\ ct = "UInt" /\ "lshl_uint_count_type_error" \in D -> [k |-> "type_error", v |-> 0]   \* signed left operands only
    [] ct = "Int" /\ ~WordCount(k) /\ "big_count_shift_zero" \in D -> Val(0)
    [] OTHER -> Val(F_lshl(n, s, a, k))
\* @type: (Set(Str), Int, Bool, Int, Int, Str) => {k: Str, v: Int};
I_lshr(D, n, s, a, k, ct) ==
  IF ct = "Int" /\ ~WordCount(k) /\ "big_count_shift_zero" \in D THEN Val(0) ELSE Val(F_lshr(n, s, a, k))
\* @type: (Set(Str), Int, Bool, Int, Int) => {k: Str, v: Int};
I_pow(D, n, s, a, b) ==
  IF b = MaxOf(n, s) /\ "pow_max_exponent_hangs" \in D THEN [k |-> "hang", v |-> 0] ELSE Val(F_pow(n, s, a, b))
=============================================================================
