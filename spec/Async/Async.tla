-------------------------------- MODULE Async --------------------------------
(***************************************************************************)
(* Promises, await, the bounded task queue and the worker threads of the   *)
(* Elk runtime (vm/promise.go, vm/thread_pool.go, AWAIT in vm/thread.go).  *)
(* Properties C16 (no lost wake-up, no deadlock, resumed exactly once) and *)
(* the settlement half of C15 (every promise settles exactly once).        *)
(*                                                                         *)
(* ONE ACTION PER HOOK EVENT: the implementation (build tag verif) emits   *)
(* an event before every blocking operation (x.try) and after every state  *)
(* change; every action below is named after the event that ends it, and   *)
(* its guard is the enabling condition of the blocking operation it        *)
(* contains.  A behaviour of this spec is therefore directly a schedule:   *)
(* "release actor a, it must stop next at event e".                        *)
(***************************************************************************)
EXTENDS Integers, Sequences, FiniteSets, TLC, Json

CONSTANTS Graphs,    \* sequence of task graphs [prog |-> [Task -> Seq(<<op, arg>>)], main |-> Seq(<<op, arg>>)]
                     \*   task ops: "spawn" t | "await" t (a task resolves at its end); main ops: "spawn" t | "awaitsync" t
          Configs,   \* set of <<number of worker threads, capacity of the task queue>>
          Blocking,  \* TRUE: a send into a full queue blocks its thread (the pinned code);
                     \* FALSE: it is handed to a helper goroutine that sends later (the repaired code)
          EarlyUnlock \* FALSE: the code's protocol (AWAIT keeps promise.m locked from the pending check
                     \* until the continuation is registered). TRUE: negative control, the refactoring
                     \* "do not hold a mutex across the return from the interpreter loop": the lock is
                     \* released at the suspension and taken again to register -- check-then-act, TLC must
                     \* find the lost wake-up (NoLostWakeup / RegisteredOnlyUnresolved, then a deadlock)

VARIABLES gi, NW, QCap   \* the instance, chosen in Init and constant afterwards

Prog     == Graphs[gi].prog
MainProg == Graphs[gi].main
Tasks   == DOMAIN Prog
Workers == 1..NW
Main    == 0
Actors  == {Main} \cup Workers

VARIABLES queue,     \* the channel buffer
          overflow,  \* tasks held by helper goroutines waiting to send (only when ~Blocking)
          resolved, settled,   \* per promise: result published; number of settlements
          lock,      \* per promise: -1 free, else the actor holding promise.m
          conts,     \* per promise: registered continuations
          pc,        \* per actor: the event it is stopped at
          cur,       \* per worker: the task it runs
          wi,        \* per worker: index of the next continuation to enqueue
          tpc,       \* per task: next operation
          mpc,       \* main: next operation
          spawned,   \* tasks created so far
          taken,     \* per task: number of times a worker took it from the queue
          waits,     \* per task: number of times it suspended in AWAIT
          hist       \* the schedule so far (history variable, hidden by VIEW)

inst == <<gi, NW, QCap>>
vars == <<gi, NW, QCap, queue, overflow, resolved, settled, lock, conts, pc, cur, wi, tpc, mpc, spawned, taken, waits, hist>>

Op(t)    == Prog[t][tpc[t]]
AtEnd(t) == tpc[t] > Len(Prog[t])
MOp      == MainProg[mpc]
MAtEnd   == mpc > Len(MainProg)

Room == Len(queue) < QCap

\* an event carries the projection the replay compares with the real runtime after the step
Ev(a, e, o) == [a |-> a, e |-> e, o |-> o, q |-> Len(queue'), ov |-> Cardinality(overflow'),
                res |-> {t \in Tasks : resolved'[t]}]
Log(a, e, o) == hist' = Append(hist, Ev(a, e, o))

Init == /\ gi \in 1..Len(Graphs) /\ \E cf \in Configs : NW = cf[1] /\ QCap = cf[2]
        /\ queue = <<>> /\ overflow = {}
        /\ resolved = [t \in Tasks |-> FALSE] /\ settled = [t \in Tasks |-> 0]
        /\ lock = [t \in Tasks |-> -1]
        /\ conts = [t \in Tasks |-> <<>>]
        /\ pc = [a \in Actors |-> IF a = Main THEN "start" ELSE "take.try"]
        /\ cur = [w \in Workers |-> "none"]
        /\ wi = [w \in Workers |-> 0]
        /\ tpc = [t \in Tasks |-> 1]
        /\ mpc = 1
        /\ spawned = {} /\ taken = [t \in Tasks |-> 0] /\ waits = [t \in Tasks |-> 0]
        /\ hist = <<>>

(* a send on the task queue *)
Send(t) == IF Room THEN /\ queue' = Append(queue, t) /\ UNCHANGED overflow
           ELSE /\ ~Blocking /\ overflow' = overflow \cup {t} /\ UNCHANGED queue
SendEnabled == Room \/ ~Blocking

-----------------------------------------------------------------------------
(* main thread *)
MainNext ==   \* from start / addtask.ok / awaitsync.ok to the gate of the next operation
  /\ UNCHANGED inst /\ UNCHANGED <<queue, overflow, resolved, settled, lock, conts, cur, wi, tpc, mpc, spawned, taken, waits>>
  /\ pc[Main] \in {"start", "addtask.ok", "awaitsync.ok"} /\ ~MAtEnd
  /\ pc' = [pc EXCEPT ![Main] = IF MOp[1] = "spawn" THEN "addtask.try" ELSE "awaitsync.try"]
  /\ Log(Main, pc'[Main], MOp[2])

MainFinish ==
  /\ UNCHANGED inst /\ UNCHANGED <<queue, overflow, resolved, settled, lock, conts, cur, wi, tpc, mpc, spawned, taken, waits>>
  /\ pc[Main] \in {"start", "addtask.ok", "awaitsync.ok"} /\ MAtEnd
  /\ pc' = [pc EXCEPT ![Main] = "done"]
  /\ Log(Main, "done", "")

MainSpawn ==  \* AddTask: channel send
  /\ UNCHANGED inst /\ UNCHANGED <<resolved, settled, lock, conts, cur, wi, tpc, taken, waits>>
  /\ pc[Main] = "addtask.try" /\ SendEnabled
  /\ Send(MOp[2])
  /\ spawned' = spawned \cup {MOp[2]}
  /\ mpc' = mpc + 1
  /\ pc' = [pc EXCEPT ![Main] = "addtask.ok"]
  /\ Log(Main, "addtask.ok", MOp[2])

MainAwaitSync ==   \* wg.Wait(): returns once the promise is published
  /\ UNCHANGED inst /\ UNCHANGED <<queue, overflow, resolved, settled, lock, conts, cur, wi, tpc, spawned, taken, waits>>
  /\ pc[Main] = "awaitsync.try" /\ resolved[MOp[2]]
  /\ mpc' = mpc + 1
  /\ pc' = [pc EXCEPT ![Main] = "awaitsync.ok"]
  /\ Log(Main, "awaitsync.ok", MOp[2])

-----------------------------------------------------------------------------
(* helper goroutines of the repaired AddTask / enqueueContinuations *)
HelperSend(t) ==
  /\ UNCHANGED inst /\ UNCHANGED <<resolved, settled, lock, conts, pc, cur, wi, tpc, mpc, spawned, taken, waits>>
  /\ t \in overflow /\ Room
  /\ queue' = Append(queue, t) /\ overflow' = overflow \ {t}
  /\ Log(-1, "helper.sent", t)

-----------------------------------------------------------------------------
(* worker threads *)
Take(w) ==   \* threadWorker: receive from the queue
  /\ UNCHANGED inst /\ UNCHANGED <<overflow, resolved, settled, lock, conts, wi, tpc, mpc, spawned, waits>>
  /\ pc[w] = "take.try" /\ queue # <<>>
  /\ cur' = [cur EXCEPT ![w] = Head(queue)]
  /\ queue' = Tail(queue)
  /\ taken' = [taken EXCEPT ![Head(queue)] = @ + 1]
  /\ pc' = [pc EXCEPT ![w] = "taken"]
  /\ Log(w, "taken", Head(queue))

RunToGate(w) ==   \* the VM runs the task up to its next hook
  /\ UNCHANGED inst /\ UNCHANGED <<queue, overflow, resolved, settled, lock, conts, cur, wi, tpc, mpc, spawned, taken, waits>>
  /\ pc[w] \in {"taken", "addtask.ok", "await.fast"}
  /\ LET t == cur[w]
         g == IF AtEnd(t) THEN "settle.lock.try"
              ELSE IF Op(t)[1] = "spawn" THEN "addtask.try" ELSE "await.lock.try"
         o == IF AtEnd(t) THEN t ELSE Op(t)[2] IN
     /\ pc' = [pc EXCEPT ![w] = g]
     /\ Log(w, g, o)

Spawn(w) ==   \* opPromise -> NewPromise -> AddTask
  /\ UNCHANGED inst /\ UNCHANGED <<resolved, settled, lock, conts, cur, wi, mpc, taken, waits>>
  /\ pc[w] = "addtask.try" /\ SendEnabled
  /\ LET t == cur[w] IN
     /\ Send(Op(t)[2])
     /\ spawned' = spawned \cup {Op(t)[2]}
     /\ tpc' = [tpc EXCEPT ![t] = @ + 1]
     /\ pc' = [pc EXCEPT ![w] = "addtask.ok"]
     /\ Log(w, "addtask.ok", Op(t)[2])

AwaitLock(w) ==   \* AWAIT: promise.m.Lock()
  /\ UNCHANGED inst /\ UNCHANGED <<queue, overflow, resolved, settled, conts, cur, wi, tpc, mpc, spawned, taken, waits>>
  /\ pc[w] = "await.lock.try"
  /\ LET p == Op(cur[w])[2] IN
     /\ lock[p] = -1
     /\ lock' = [lock EXCEPT ![p] = w]
     /\ pc' = [pc EXCEPT ![w] = "await.lock.ok"]
     /\ Log(w, "await.lock.ok", p)

AwaitFast(w) ==   \* already resolved: read the result, unlock, continue
  /\ UNCHANGED inst /\ UNCHANGED <<queue, overflow, resolved, settled, conts, cur, wi, mpc, spawned, taken, waits>>
  /\ pc[w] = "await.lock.ok"
  /\ LET t == cur[w] p == Op(t)[2] IN
     /\ resolved[p]
     /\ lock' = [lock EXCEPT ![p] = -1]
     /\ tpc' = [tpc EXCEPT ![t] = @ + 1]
     /\ pc' = [pc EXCEPT ![w] = "await.fast"]
     /\ Log(w, "await.fast", p)

AwaitSuspend(w) ==   \* not resolved: leave the interpreter loop (still holding the lock)
  /\ UNCHANGED inst /\ UNCHANGED <<queue, overflow, resolved, settled, conts, cur, wi, tpc, mpc, spawned, taken>>
  /\ pc[w] = "await.lock.ok"
  /\ LET t == cur[w] p == Op(t)[2] IN
     /\ ~resolved[p]
     /\ lock' = IF EarlyUnlock THEN [lock EXCEPT ![p] = -1] ELSE lock
     /\ waits' = [waits EXCEPT ![t] = @ + 1]
     /\ pc' = [pc EXCEPT ![w] = "await.suspended"]
     /\ Log(w, "await.suspended", p)

AwaitRegister(w) ==   \* save the stack, RegisterContinuationUnsafe
  /\ UNCHANGED inst /\ UNCHANGED <<queue, overflow, resolved, settled, cur, wi, tpc, mpc, spawned, taken, waits>>
  /\ pc[w] = "await.suspended"
  /\ LET t == cur[w] p == Op(t)[2] IN
     /\ EarlyUnlock => lock[p] = -1
     /\ lock' = IF EarlyUnlock THEN [lock EXCEPT ![p] = w] ELSE lock
     /\ conts' = [conts EXCEPT ![p] = Append(@, t)]
     /\ pc' = [pc EXCEPT ![w] = "await.registered"]
     /\ Log(w, "await.registered", p)

AwaitUnlock(w) ==   \* awaitedPromise.m.Unlock(); the task will resume after its await
  /\ UNCHANGED inst /\ UNCHANGED <<queue, overflow, resolved, settled, conts, wi, mpc, spawned, taken, waits>>
  /\ pc[w] = "await.registered"
  /\ LET t == cur[w] p == Op(t)[2] IN
     /\ lock' = [lock EXCEPT ![p] = -1]
     /\ tpc' = [tpc EXCEPT ![t] = @ + 1]
     /\ cur' = [cur EXCEPT ![w] = "none"]     \* from here on the worker no longer touches the task
     /\ pc' = [pc EXCEPT ![w] = "await.unlocked"]
     /\ Log(w, "await.unlocked", p)

BackToIdle(w) ==
  /\ UNCHANGED inst /\ UNCHANGED <<queue, overflow, resolved, settled, lock, conts, cur, wi, tpc, mpc, spawned, taken, waits>>
  /\ pc[w] \in {"await.unlocked", "settle.unlocked"}
  /\ pc' = [pc EXCEPT ![w] = "take.try"]
  /\ Log(w, "take.try", "")

SettleLock(w) ==   \* Resolve/Reject: p.m.Lock()
  /\ UNCHANGED inst /\ UNCHANGED <<queue, overflow, resolved, settled, conts, cur, wi, tpc, mpc, spawned, taken, waits>>
  /\ pc[w] = "settle.lock.try"
  /\ LET t == cur[w] IN
     /\ lock[t] = -1
     /\ lock' = [lock EXCEPT ![t] = w]
     /\ pc' = [pc EXCEPT ![w] = "settle.lock.ok"]
     /\ Log(w, "settle.lock.ok", t)

SettlePublish(w) ==   \* ThreadPool = nil, result/err set, wg.Done()
  /\ UNCHANGED inst /\ UNCHANGED <<queue, overflow, lock, conts, cur, tpc, mpc, spawned, taken, waits>>
  /\ pc[w] = "settle.lock.ok"
  /\ LET t == cur[w] IN
     /\ resolved' = [resolved EXCEPT ![t] = TRUE]
     /\ settled' = [settled EXCEPT ![t] = @ + 1]
     /\ wi' = [wi EXCEPT ![w] = 1]
     /\ pc' = [pc EXCEPT ![w] = "settle.published"]
     /\ Log(w, "settle.published", t)

EnqueueTry(w) ==   \* enqueueContinuations: next continuation
  /\ UNCHANGED inst /\ UNCHANGED <<queue, overflow, resolved, settled, lock, conts, cur, wi, tpc, mpc, spawned, taken, waits>>
  /\ pc[w] \in {"settle.published", "enqueue.ok"}
  /\ LET t == cur[w] IN
     /\ wi[w] <= Len(conts[t])
     /\ pc' = [pc EXCEPT ![w] = "enqueue.try"]
     /\ Log(w, "enqueue.try", conts[t][wi[w]])

Enqueue(w) ==   \* queue <- cont   (while holding the promise lock)
  /\ UNCHANGED inst /\ UNCHANGED <<resolved, settled, lock, conts, cur, tpc, mpc, spawned, taken, waits>>
  /\ pc[w] = "enqueue.try" /\ SendEnabled
  /\ LET t == cur[w] IN
     /\ Send(conts[t][wi[w]])
     /\ wi' = [wi EXCEPT ![w] = @ + 1]
     /\ pc' = [pc EXCEPT ![w] = "enqueue.ok"]
     /\ Log(w, "enqueue.ok", conts[t][wi[w]])

SettleUnlock(w) ==   \* continuations = nil; p.m.Unlock()
  /\ UNCHANGED inst /\ UNCHANGED <<queue, overflow, resolved, settled, wi, tpc, mpc, spawned, taken, waits>>
  /\ pc[w] \in {"settle.published", "enqueue.ok"}
  /\ LET t == cur[w] IN
     /\ wi[w] > Len(conts[t])
     /\ conts' = [conts EXCEPT ![t] = <<>>]
     /\ lock' = [lock EXCEPT ![t] = -1]
     /\ cur' = [cur EXCEPT ![w] = "none"]
     /\ pc' = [pc EXCEPT ![w] = "settle.unlocked"]
     /\ Log(w, "settle.unlocked", t)

WNext(w) == \/ Take(w) \/ RunToGate(w) \/ Spawn(w)
            \/ AwaitLock(w) \/ AwaitFast(w) \/ AwaitSuspend(w) \/ AwaitRegister(w) \/ AwaitUnlock(w)
            \/ BackToIdle(w)
            \/ SettleLock(w) \/ SettlePublish(w) \/ EnqueueTry(w) \/ Enqueue(w) \/ SettleUnlock(w)

AllSettled == \A t \in spawned : resolved[t]
Done == pc[Main] = "done" /\ AllSettled /\ overflow = {} /\ queue = <<>>
        /\ \A w \in Workers : pc[w] = "take.try"

Finished == Done /\ UNCHANGED vars

Next == \/ MainNext \/ MainFinish \/ MainSpawn \/ MainAwaitSync
        \/ \E t \in Tasks : HelperSend(t)
        \/ \E w \in Workers : WNext(w)
        \/ Finished

\* for simulation: a behaviour ends in the final state instead of stuttering
NextSim == Next /\ ~Done

Spec == Init /\ [][Next]_vars /\ WF_vars(Next)

-----------------------------------------------------------------------------
(* Safety *)
InQueue(t) == \E i \in 1..Len(queue) : queue[i] = t
Pending(t) == InQueue(t) \/ t \in overflow
Running(t) == \E w \in Workers : cur[w] = t

TypeOK == /\ Len(queue) <= QCap
          /\ \A t \in Tasks : lock[t] \in {-1} \cup Workers

\* every promise settles at most once (C15); Done implies exactly once for every spawned task
SettledOnce == \A t \in Tasks : settled[t] <= 1
SettledExactlyOnceAtEnd == Done => \A t \in spawned : settled[t] = 1

\* a task is never scheduled twice at the same time (C16: resumed exactly once)
QueueNoDup  == \A i, j \in 1..Len(queue) : i # j => queue[i] # queue[j]
NoDoubleRun == \A t \in Tasks : ~(Pending(t) /\ Running(t)) /\ ~(InQueue(t) /\ t \in overflow)
SingleRunner == \A w1, w2 \in Workers : (w1 # w2 /\ cur[w1] # "none" /\ cur[w2] # "none") => cur[w1] # cur[w2]
\* each task is taken exactly once at its start and once per suspension
ResumedOnce == \A t \in Tasks : taken[t] <= waits[t] + 1
ResumedExactlyAtEnd == Done => \A t \in spawned : taken[t] = waits[t] + 1

\* a task that resumes after `await p` finds p resolved (AWAIT_RESULT never sees an unresolved promise)
ResumeOK == \A w \in Workers :
   (pc[w] = "taken" /\ tpc[cur[w]] > 1 /\ Prog[cur[w]][tpc[cur[w]] - 1][1] = "await")
      => resolved[Prog[cur[w]][tpc[cur[w]] - 1][2]]

\* no lost wake-up: a task suspended on p is registered, or scheduled, or running once p is settled and unlocked
NoLostWakeup == \A t \in Tasks : \A p \in Tasks :
   (tpc[t] > 1 /\ tpc[t] - 1 <= Len(Prog[t]) /\ Prog[t][tpc[t] - 1] = <<"await", p>>
      /\ resolved[p] /\ lock[p] = -1 /\ ~resolved[t] /\ t \in spawned)
   => (Pending(t) \/ Running(t))

\* continuations are only registered on unresolved promises, under their lock
RegisteredOnlyUnresolved == \A p \in Tasks : (resolved[p] /\ lock[p] = -1) => conts[p] = <<>>

(* Liveness (C16): if every task terminates the program terminates *)
Termination == <>Done

View == <<gi, NW, QCap, queue, overflow, resolved, settled, lock, conts, pc, cur, wi, tpc, mpc, spawned, taken, waits>>

(* behaviours for the gate-scheduled replay: printed at the final state of a simulation run *)
EmitAtEnd == (Done \/ ~ENABLED(Next)) =>
               PrintT(<<"GEN", ToJson([gi |-> gi, nw |-> NW, qcap |-> QCap, hist |-> hist, done |-> Done])>>)
=============================================================================
